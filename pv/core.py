"""Generic check driver: proof side (coqc), correspondence side (model evaluated
by vm_compute inside Coq vs the implementation built from /repo's working tree),
property oracle, known findings, verdict, evidence.

A property module (props/Cxx.py) provides:
  ID, TITLE, COQ_REQUIRE (module path of its Run file), RULE (text),
  gen_cases(rng, tier) -> list of case dicts ('kind', 'cls' class tag, payload)
  coq_term(case) -> Gallina term of type jv
  impl_run(case, coq, env) -> canonical value          (runs in the worker)
  judge(case, coq, impl) -> Verdict                    (optional, default below)
  finding_key(case, coq) -> str | None                 (class of a known finding)
  nontrivial(case, coq, impl) -> bool                  (optional)
  gen_tables(impl_dir, out_dir) (optional)             regenerate coq/Gen/*.v
"""
import fcntl
import hashlib
import importlib
import json
import os
import random
import re
import shutil
import subprocess
import sys
import tempfile
import time
from concurrent.futures import ThreadPoolExecutor

from . import jvparse

VERIF = os.path.dirname(os.path.dirname(os.path.abspath(__file__)))
REPO = os.environ.get("VERIF_REPO", "/repo")
COQ = os.path.join(VERIF, "coq")
PY = "/venv/bin/python"
NPROC = int(os.environ.get("PV_NPROC") or 0) or max(2, min(16, os.cpu_count() or 4))
HYGIENE_RE = re.compile(
    r"\b(Admitted|admit|Axiom|Axioms|Parameter|Parameters|Conjecture|Conjectures|"
    r"Admit\s+Obligations|bypass_check|native_compute)\b|Unset\s+Guard|Unset\s+Positivity|"
    r"Unset\s+Universe|type-in-type|impredicative-set")


class Verdict:
    def __init__(self, kind, detail=""):
        self.kind = kind  # ok | known | violation | corr | skip
        self.detail = detail


def log(*a):
    print(*a, file=sys.stderr, flush=True)


# ------------------------------------------------------------------ scratch + build
def make_scratch():
    base = os.environ.get("VERIF_SCRATCH_BASE", "/var/tmp")
    os.makedirs(base, exist_ok=True)
    return tempfile.mkdtemp(prefix="pv.", dir=base)


def build_impl(scratch, sanitize=False):
    """Copy /repo's working tree and build the C extension there."""
    dst = os.path.join(scratch, "asan" if sanitize else "repo")
    subprocess.run(
        ["rsync", "-a", "--delete", "--exclude", ".git", "--exclude", "*.so", "--exclude", "build",
         "--exclude", "__pycache__", "--exclude", "*.egg-info", REPO + "/", dst + "/"], check=True)
    env = dict(os.environ)
    env.pop("PYTHONPATH", None)
    if sanitize:
        env.update(CC="clang", LDSHARED="clang -shared",
                   CFLAGS="-fsanitize=address,undefined -fno-sanitize-recover=undefined -fno-omit-frame-pointer -g -O1",
                   LDFLAGS="-fsanitize=address,undefined -shared-libasan")
    r = subprocess.run([PY, "setup.py", "build_ext", "--inplace", "-q"], cwd=dst, env=env,
                       stdout=subprocess.PIPE, stderr=subprocess.STDOUT, text=True, timeout=600)
    if r.returncode != 0:
        raise RuntimeError("building the implementation failed:\n" + r.stdout[-3000:])
    return dst


# ------------------------------------------------------------------ coq side
def _lock():
    f = open(os.path.join(VERIF, ".lock"), "w")
    fcntl.flock(f, fcntl.LOCK_EX)
    return f


def coq_make(targets, timeout=1500):
    """Full .vo build of the given targets (and what they depend on)."""
    lk = _lock()
    try:
        subprocess.run([os.path.join(VERIF, "mkproject.sh")], check=True)
        r = subprocess.run(["make", "-C", COQ, "-j%d" % NPROC] + targets,
                           stdout=subprocess.PIPE, stderr=subprocess.STDOUT, text=True, timeout=timeout)
        return r.returncode == 0, r.stdout
    finally:
        lk.close()


def hygiene(dirs):
    hits = []
    paths = []
    for d in dirs:
        full = os.path.join(COQ, d)
        if os.path.isfile(full):
            paths.append(full)
        for root, _, files in os.walk(full):
            paths.extend(os.path.join(root, f) for f in files if f.endswith(".v"))
    for p in paths:
        if True:
            if True:
                if True:
                    txt = open(p, encoding="utf-8", errors="replace").read()
                    txt = re.sub(r"\(\*.*?\*\)", " ", txt, flags=re.S)
                    for m in HYGIENE_RE.finditer(txt):
                        hits.append("%s: %s" % (os.path.relpath(p, COQ), m.group(0)))
    return hits


def coq_property_file(pid, timeout=900):
    """Compile Properties/<pid>.v itself (always), return theorem names and assumptions."""
    src = os.path.join(COQ, "Properties", pid + ".v")
    txt = open(src).read()
    theorems = re.findall(r"^\s*Theorem\s+(\w+)", txt, flags=re.M)
    r = subprocess.run(["coqc", "-Q", COQ, "PV", src], stdout=subprocess.PIPE, stderr=subprocess.STDOUT,
                       text=True, timeout=timeout, cwd=COQ)
    out = r.stdout
    axioms = set()
    closed = out.count("Closed under the global context")
    for blk in re.findall(r"Axioms:\n((?:.+\n?)+?)(?=\n\S|\Z)", out):
        for ln in blk.splitlines():
            m = re.match(r"^(\S+)\s*:", ln)
            if m:
                axioms.add(m.group(1))
    return {"ok": r.returncode == 0, "theorems": theorems, "closed": closed,
            "axioms": sorted(axioms), "log": out[-4000:]}


def _coq_eval_file(path):
    for attempt in range(3):
        r = subprocess.run(["coqc", "-Q", COQ, "PV", path], stdout=subprocess.PIPE, stderr=subprocess.STDOUT,
                           text=True, timeout=3000, cwd=os.path.dirname(path))
        # a coqc killed by the OOM killer / a signal leaves no "Error" text: retry (machine load), never on a real error
        if r.returncode == 0 or "Error" in r.stdout:
            break
        time.sleep(2 + 5 * attempt)
    return r.returncode, r.stdout


def coq_eval(scratch, require, terms, shard=150, tag="cases"):
    """Evaluate each Gallina term (type jv) with vm_compute; returns parsed values."""
    if not terms:
        return []
    d = os.path.join(scratch, "coq_" + tag)
    os.makedirs(d, exist_ok=True)
    files = []
    for i in range(0, len(terms), shard):
        p = os.path.join(d, "%s_%04d.v" % (tag, i // shard))
        with open(p, "w") as f:
            f.write("From PV Require Import %s.\n" % require)
            f.write("Set Printing Width 2000000000.\nSet Printing Depth 2000000000.\n")
            for t in terms[i:i + shard]:
                f.write("Eval vm_compute in (%s).\n" % t)
        files.append(p)
    results = []
    with ThreadPoolExecutor(max_workers=NPROC) as ex:
        outs = list(ex.map(_coq_eval_file, files))
    for (rc, out), p in zip(outs, files):
        if rc != 0:
            errs = [ln for ln in out.splitlines() if "Error" in ln or "rror:" in ln][:20]
            raise RuntimeError("coqc failed on %s:\n%s\n...\n%s" % (p, "\n".join(errs), out[-1500:]))
        results.extend(jvparse.parse_output(out))
    if len(results) != len(terms):
        raise RuntimeError("coq_eval: %d results for %d terms" % (len(results), len(terms)))
    return results


# ------------------------------------------------------------------ implementation side
def run_impl(scratch, impl_dir, pid, cases, coq_results, nworkers=None, sanitize=False, timeout=3000):
    """Run the implementation side.  A case may carry "pyflags": [...] (e.g. ["-O"], ["-bb"]): interpreter options the
    worker process of that case is started with (they are part of the case, so a replay uses them too); cases are grouped
    by their flags and every group gets its own worker processes."""
    nworkers = nworkers or NPROC
    n = len(cases)
    if n == 0:
        return []
    d = os.path.join(scratch, "impl")
    os.makedirs(d, exist_ok=True)
    procs = []
    env = dict(os.environ)
    env["PYTHONPATH"] = impl_dir + os.pathsep + VERIF
    env["PYTHONHASHSEED"] = "0"
    env["PYTHONDONTWRITEBYTECODE"] = "1"
    env["PV_IMPL_DIR"] = impl_dir
    env["PV_SCRATCH"] = scratch
    if sanitize:
        lib = subprocess.run(["clang", "-print-file-name=libclang_rt.asan-x86_64.so"], stdout=subprocess.PIPE,
                             text=True).stdout.strip()
        env["LD_PRELOAD"] = lib
        env["ASAN_OPTIONS"] = "detect_leaks=0:abort_on_error=0:exitcode=77"
        env["UBSAN_OPTIONS"] = "halt_on_error=1:exitcode=78:print_stacktrace=1"
    groups = {}
    for i, c in enumerate(cases):
        fl = tuple(c.get("pyflags") or ()) if isinstance(c, dict) else ()
        for f in fl:
            if not (isinstance(f, str) and re.fullmatch(r"-[A-Za-z][A-Za-z0-9:=_.,-]*|error(::\w+)?|default|dev|utf8(=[01])?", f)):
                raise RuntimeError("bad interpreter flag in case: %r" % (f,))
        groups.setdefault(fl, []).append(i)
    w = 0
    for fl, members in sorted(groups.items()):
        nw = max(1, min(nworkers, (len(members) + 19) // 20))
        for k in range(nw):
            idxs = members[k::nw]
            inp = os.path.join(d, "in_%d.json" % w)
            outp = os.path.join(d, "out_%d.json" % w)
            with open(inp, "w") as f:
                json.dump({"prop": pid, "work": os.path.join(d, "w%d" % w),
                           "items": [{"i": i, "case": cases[i], "coq": coq_results[i]} for i in idxs]}, f)
            p = subprocess.Popen([PY] + list(fl) + ["-m", "pv.worker", inp, outp], env=env, cwd=VERIF,
                                 stdout=subprocess.PIPE, stderr=subprocess.STDOUT, text=True)
            procs.append((p, outp, idxs))
            w += 1
    results = [None] * n
    for p, outp, idxs in procs:
        try:
            out, _ = p.communicate(timeout=timeout)
        except subprocess.TimeoutExpired:
            p.kill()
            out = "TIMEOUT"
        done = {}
        if os.path.exists(outp):
            try:
                done = {int(k): v for k, v in json.load(open(outp)).items()}
            except Exception:
                # partial file: one json object per line fallback
                done = {}
        if os.path.exists(outp + "l"):
            for ln in open(outp + "l"):
                try:
                    k, v = json.loads(ln)
                    done[int(k)] = v
                except Exception:
                    pass
        for i in idxs:
            if i in done:
                results[i] = done[i]
            else:
                results[i] = {"t": "WorkerDied", "a": [(out or "")[-1500:]]}
    return results


def assign_pyflags(cases, rng, modes=(("-O",), ("-bb",)), frac=0.12, only=None):
    """Give a deterministic sample of the cases interpreter options (see run_impl).  `only(case)` may restrict the choice."""
    for c in cases:
        if isinstance(c, dict) and "pyflags" not in c and (only is None or only(c)) and rng.random() < frac:
            c["pyflags"] = list(modes[rng.randrange(len(modes))])
    return cases


# ------------------------------------------------------------------ findings
def load_findings(pid):
    p = os.path.join(VERIF, "known_findings.json")
    if not os.path.exists(p):
        return [], []
    data = json.load(open(p))
    known = [f for f in data.get("findings", []) if f["property"] == pid and f.get("status") == "known"]
    fixed = [f for f in data.get("findings", []) if f["property"] == pid and f.get("status") == "fixed"]
    return known, fixed


def load_corpus(pid):
    d = os.path.join(VERIF, "corpus", pid)
    out = []
    if os.path.isdir(d):
        for f in sorted(os.listdir(d)):
            if f.endswith(".json"):
                c = json.load(open(os.path.join(d, f)))
                c = c.get("case", c)
                c["_corpus"] = f
                out.append(c)
    return out


def default_judge(P, case, coq, impl):
    model = coq.get("model") if isinstance(coq, dict) else None
    spec = coq.get("spec") if isinstance(coq, dict) else None
    if isinstance(impl, dict) and impl.get("t") == "Skip":
        return Verdict("skip", str(impl.get("a")))
    spec_fail = spec is not None and impl != spec
    corr_fail = model is not None and impl != model
    if spec_fail:
        return Verdict("violation", "impl != spec")
    if corr_fail:
        return Verdict("corr", "impl != model")
    return Verdict("ok")


def case_hash(case):
    c = {k: v for k, v in case.items() if not k.startswith("_")}
    return hashlib.sha1(json.dumps(c, sort_keys=True).encode()).hexdigest()[:16]


def write_replay(pid, case, coq, impl, note):
    d = os.path.join(os.environ.get("PV_EVIDENCE_DIR") or os.path.join(VERIF, "evidence"), "replay")
    os.makedirs(d, exist_ok=True)
    p = os.path.join(d, "%s-%s.json" % (pid, case_hash(case) if case else hashlib.sha1(note.encode()).hexdigest()[:16]))
    with open(p, "w") as f:
        json.dump({"property": pid, "note": note, "case": case, "coq": coq, "impl": impl}, f, indent=1, sort_keys=True)
    return p


def structure(P, coq_raw, case):
    if hasattr(P, "coq_struct"):
        return P.coq_struct(case, coq_raw)
    return coq_raw


def evaluate(P, scratch, impl_dir, cases, tag, sanitize=False):
    terms = [P.coq_term(c) for c in cases]
    raw = coq_eval(scratch, P.COQ_REQUIRE, terms, shard=getattr(P, "SHARD", 150), tag=tag)
    coq = [structure(P, r, c) for r, c in zip(raw, cases)]
    impl = run_impl(scratch, impl_dir, P.ID, cases, coq, sanitize=sanitize)
    allowed_dead = getattr(P, "WORKER_DEATH_IS_RESULT", False)
    for c, i in zip(cases, impl):
        if isinstance(i, dict) and (i.get("t") == "HarnessError" or (i.get("t") == "WorkerDied" and not allowed_dead)):
            raise RuntimeError("harness failure on case %s:\n%s" % (json.dumps(c)[:600], i["a"][0]))
    return coq, impl


def _on_term(signum, frame):
    raise KeyboardInterrupt("signal %d" % signum)


def run_check(pid, tier, replay=None):
    import signal
    signal.signal(signal.SIGTERM, _on_term)   # so that the scratch directory is removed
    t0 = time.time()
    P = importlib.import_module("props." + pid)
    seed = int(os.environ.get("VERIF_SEED", "0") or 0)
    rng = random.Random("%s/%d" % (pid, seed))
    scratch = make_scratch()
    ev_path = os.path.join(os.environ.get("PV_EVIDENCE_DIR") or os.path.join(VERIF, "evidence"), pid + ".json")
    os.makedirs(os.path.dirname(ev_path), exist_ok=True)
    violations = []   # (case, coq, impl, note, has_input)
    notes = []
    cov = {}
    try:
        impl_dir = build_impl(scratch)
        sanitize = bool(getattr(P, "SANITIZE", False))
        asan_dir = build_impl(scratch, sanitize=True) if sanitize else None
        # ---- translator part
        gen_err = None
        if hasattr(P, "gen_tables"):
            try:
                P.gen_tables(impl_dir, os.path.join(COQ, "Gen"))
            except Exception as e:
                # a translator that no longer understands the source fails closed: the tie is broken,
                # which is handled like a broken proof obligation (search, then no-failing-input-found)
                if type(e).__name__ != "TranslateError":
                    raise
                gen_err = "translator %s.gen_tables cannot translate the current source: %s" % (pid, e)
                notes.append(gen_err)
        # ---- proofs
        hy = hygiene(["Base", "Gen", "Properties/%s.v" % pid, pid] + list(getattr(P, "COQ_DIRS", [])))
        targets = ["Properties/%s.vo" % pid, P.COQ_REQUIRE.replace(".", "/") + ".vo"]
        ok_make, make_log = coq_make(targets)
        pinfo = coq_property_file(pid) if ok_make else {"ok": False, "theorems": re.findall(
            r"^\s*Theorem\s+(\w+)", open(os.path.join(COQ, "Properties", pid + ".v")).read(), flags=re.M),
            "closed": 0, "axioms": [], "log": make_log[-4000:]}
        proofs_ok = ok_make and pinfo["ok"] and not hy and not gen_err
        if gen_err:
            pinfo["log"] = gen_err
        nthm = len(pinfo["theorems"])
        cov.update(obligations=nthm, discharged=nthm if proofs_ok else 0,
                   checker_cmd="make -C coq Properties/%s.vo && coqc -Q coq PV coq/Properties/%s.v (Coq 8.16.1, full .vo build)" % (pid, pid),
                   trusted_base=["Coq 8.16.1 kernel (coqc), vm_compute"] +
                   (["axioms: " + ", ".join(pinfo["axioms"])] if pinfo["axioms"] else
                    ["no axioms: every property theorem is 'Closed under the global context' (%d of %d)" % (pinfo["closed"], nthm)]) +
                   list(getattr(P, "TRUSTED", [])),
                   theorems=pinfo["theorems"])
        if hy:
            notes.append("hygiene: " + "; ".join(hy))
        if tier == "thorough" and proofs_ok:
            try:
                r = subprocess.run(["coqchk", "-o", "-silent", "-Q", COQ, "PV", "PV.Properties." + pid],
                                   stdout=subprocess.PIPE, stderr=subprocess.STDOUT, text=True, timeout=2400, cwd=COQ)
                summ = r.stdout[r.stdout.find("CONTEXT SUMMARY"):] if "CONTEXT SUMMARY" in r.stdout else r.stdout[-1500:]
                summ = re.sub(r"\s+", " ", summ)
                cov["coqchk"] = {"exit": r.returncode, "summary": summ[:3000]}
                cov["trusted_base"].append("coqchk -o (independent checker) exit %d: %s" % (r.returncode, summ[:600]))
                if r.returncode != 0:
                    proofs_ok = False
                    cov["discharged"] = 0
                    pinfo["log"] = "coqchk failed: " + r.stdout[-1500:]
            except subprocess.TimeoutExpired:
                notes.append("coqchk timed out (not counted)")
        model_ok, _ = coq_make([P.COQ_REQUIRE.replace(".", "/") + ".vo"]) if not ok_make else (True, "")
        if not model_ok:
            p = write_replay(pid, None, None, None, "model does not compile: " + make_log[-2000:])
            print("VIOLATION property=%s replay=%s no-failing-input-found" % (pid, p))
            write_evidence(ev_path, pid, tier, seed, cov, 0, [], {}, 1, t0, P, notes)
            return 1
        # ---- replay mode
        if replay:
            rc = json.load(open(replay))
            case = rc.get("case", rc)
            coq, impl = evaluate(P, scratch, asan_dir or impl_dir, [case], "replay", sanitize)
            if isinstance(impl[0], dict) and impl[0].get("t") == "EscapedFromPsutil":
                v = Verdict("violation", "an exception raised by the implementation escaped: %s" % (impl[0]["a"][0],))
            else:
                v = (getattr(P, "judge", None) or (lambda c, q, i: default_judge(P, c, q, i)))(case, coq[0], impl[0])
            print(json.dumps({"case": case, "coq": coq[0], "impl": impl[0], "verdict": v.kind, "detail": v.detail},
                             indent=1, sort_keys=True))
            return 0 if v.kind in ("ok", "skip") else 1
        # ---- known findings: replay the witnesses
        known, fixed = load_findings(pid)
        known_keys = {f["key"] for f in known}
        _pjudge = getattr(P, "judge", None) or (lambda c, q, i: default_judge(P, c, q, i))

        def judge(c, q, i):
            # pv/worker.py safety net: an exception raised by the implementation escaped an unwrapped call of the runner
            if isinstance(i, dict) and i.get("t") == "EscapedFromPsutil":
                has_spec = isinstance(q, dict) and q.get("spec") is not None
                return Verdict("violation" if has_spec else "corr",
                               "an exception raised by the implementation escaped: %s\n%s" % (i["a"][0], i["a"][1][-600:]))
            return _pjudge(c, q, i)
        fkey = getattr(P, "finding_key", lambda c, q: None)
        wit_cases = [f["witness"] for f in known if f.get("witness")]
        if wit_cases:
            wc, wi = evaluate(P, scratch, asan_dir or impl_dir, wit_cases, "known", sanitize)
            for f, c, q, i in zip([f for f in known if f.get("witness")], wit_cases, wc, wi):
                v = judge(c, q, i)
                if v.kind == "violation":
                    print("KNOWN-FINDING: property=%s %s" % (pid, f["what"]))
                else:
                    notes.append("known finding %s no longer reproduces (%s)" % (f["key"], v.kind))
                    log("note: known finding %s no longer reproduces" % f["key"])
        # ---- correspondence + oracle
        cases = load_corpus(pid) + P.gen_cases(rng, tier)
        coq, impl = evaluate(P, scratch, asan_dir or impl_dir, cases, "cases", sanitize)
        hist, distinct, samples = {}, set(), []
        n_known = n_skip = 0
        corr_fail = []
        nontrivial = getattr(P, "nontrivial", lambda c, q, i: c.get("cls", "") not in ("", "trivial"))
        for c, q, i in zip(cases, coq, impl):
            cls = c.get("cls", c.get("kind", "?"))
            hist[cls] = hist.get(cls, 0) + 1
            v = judge(c, q, i)
            k = fkey(c, q)
            if v.kind == "skip":
                n_skip += 1
                continue
            if nontrivial(c, q, i):
                distinct.add(case_hash(c))
            if len(samples) < 3 and nontrivial(c, q, i) and v.kind == "ok":
                samples.append({"case": trim(c), "model": trim(q.get("model") if isinstance(q, dict) else q), "impl": trim(i)})
            if v.kind == "violation":
                if k is not None and k in known_keys:
                    # exempt from the oracle, but must still be the modelled defective behaviour
                    if isinstance(q, dict) and q.get("model") is not None and i != q["model"]:
                        violations.append((c, q, i, "known-finding class %s but a different wrong answer" % k, True))
                    else:
                        n_known += 1
                else:
                    violations.append((c, q, i, v.detail, True))
            elif v.kind == "corr":
                corr_fail.append((c, q, i, v.detail))
        if os.environ.get("PV_DEBUG"):
            with open(os.environ["PV_DEBUG"], "w") as f:
                json.dump({"corr": [(c, q, i, d) for c, q, i, d in corr_fail],
                           "viol": [(c, q, i, d) for c, q, i, d, _ in violations]}, f, indent=1)
        if (corr_fail or not proofs_ok) and not violations:
            # search for an input on which the property itself fails
            extra = P.gen_cases(random.Random("%s/search/%d" % (pid, seed)), "search")
            xq, xi = evaluate(P, scratch, asan_dir or impl_dir, extra, "search", sanitize)
            for c, q, i in zip(extra, xq, xi):
                v = judge(c, q, i)
                k = fkey(c, q)
                if v.kind == "violation" and not (k is not None and k in known_keys):
                    violations.append((c, q, i, v.detail, True))
                    break
            if not violations:
                if corr_fail:
                    c, q, i, d = corr_fail[0]
                    violations.append((c, q, i, "correspondence broken (%d cases): model and implementation differ; %s" % (len(corr_fail), d), False))
                else:
                    violations.append((None, None, None, "proof obligations of Properties/%s.v no longer check: %s" % (pid, (pinfo["log"] or "; ".join(hy))[-1500:]), False))
        cov.update(evaluations=len(cases), distinct_nontrivial=len(distinct), rule=P.RULE, samples=samples,
                   class_histogram=hist, known_finding_cases=n_known, skipped_out_of_model=n_skip,
                   correspondence_failures=len(corr_fail))
        if hasattr(P, "EXHAUSTIVE") and P.EXHAUSTIVE.get(tier):
            cov["exhaustive_part"] = P.EXHAUSTIVE[tier]
        rc = 0
        seen = set()
        for c, q, i, note, has_input in violations[:5]:
            p = write_replay(pid, c, q, i, note)
            if p in seen:
                continue
            seen.add(p)
            print("VIOLATION property=%s replay=%s%s" % (pid, p, "" if has_input else " no-failing-input-found"))
            rc = 1
        write_evidence(ev_path, pid, tier, seed, cov, len(cases), samples, hist, len(violations), t0, P, notes)
        if rc == 0:
            log("%s %s: ok (%d cases, %d distinct non-trivial, %d theorems, %.1fs)" % (pid, tier, len(cases), len(distinct), nthm, time.time() - t0))
        return rc
    finally:
        try:
            if hasattr(P, "gen_tables") and os.path.realpath(REPO) != "/repo" and os.path.isdir("/repo/psutil"):
                # a run against a modified copy (VERIF_REPO) rewrote coq/Gen: restore the tables of /repo itself
                globals()["REPO"] = "/repo"
                P.gen_tables(build_impl(scratch), os.path.join(COQ, "Gen"))
        except Exception as e:  # noqa
            log("warning: could not restore coq/Gen from /repo: %s" % e)
        shutil.rmtree(scratch, ignore_errors=True)


def trim(x, n=400):
    s = json.dumps(x, sort_keys=True, default=str)
    if len(s) <= n:
        return x
    return s[:n] + "..."


def write_evidence(path, pid, tier, seed, cov, nev, samples, hist, nviol, t0, P, notes):
    cov = dict(cov)
    cov.setdefault("evaluations", nev)
    cov.setdefault("distinct_nontrivial", 0)
    cov.setdefault("rule", getattr(P, "RULE", ""))
    cov.setdefault("samples", samples)
    if notes:
        cov["notes"] = notes
    ev = {"property_id": pid, "tier": "thorough" if tier == "thorough" else "quick", "seed": seed, "level": "proof",
          "coverage": cov, "assumptions": list(getattr(P, "ASSUMPTIONS", [])), "wall_s": round(time.time() - t0, 2),
          "violations": nviol}
    tmp = path + ".tmp"
    with open(tmp, "w") as f:
        json.dump(ev, f, indent=1, sort_keys=True)
    os.replace(tmp, path)
