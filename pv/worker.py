"""Implementation-side worker: runs props.<ID>.impl_run for each case against the
psutil found first on PYTHONPATH (the scratch build of /repo's working tree)."""
import importlib
import json
import os
import signal
import sys
import traceback


class CaseTimeout(BaseException):  # BaseException: must not be swallowed by a broad `except Exception` inside psutil
    pass


def _alarm(signum, frame):
    raise CaseTimeout()


def main():
    inp, outp = sys.argv[1], sys.argv[2]
    job = json.load(open(inp))
    P = importlib.import_module("props." + job["prop"])
    env = {"work": job["work"], "impl_dir": os.environ.get("PV_IMPL_DIR"), "scratch": os.environ.get("PV_SCRATCH")}
    os.makedirs(env["work"], exist_ok=True)
    if hasattr(P, "impl_setup"):
        P.impl_setup(env)
    import psutil
    want = os.path.realpath(env["impl_dir"]) if env["impl_dir"] else None
    if want and not os.path.realpath(psutil.__file__).startswith(want):
        print("worker: psutil imported from %s, expected under %s" % (psutil.__file__, want))
        sys.exit(3)
    # CASE_TIMEOUT is a budget of CPU seconds of this process (ITIMER_VIRTUAL: immune to machine load, catches
    # non-terminating loops); the wall-clock guard is ten times that (catches blocking hangs).
    signal.signal(signal.SIGALRM, _alarm)
    signal.signal(signal.SIGVTALRM, _alarm)
    limit = int(getattr(P, "CASE_TIMEOUT", 20))
    with open(outp + "l", "w") as f:
        for it in job["items"]:
            signal.alarm(limit * 10)
            signal.setitimer(signal.ITIMER_VIRTUAL, limit)
            try:
                r = P.impl_run(it["case"], it["coq"], env)
            except CaseTimeout:
                r = {"t": "Timeout", "a": []}
            except BaseException as e:  # harness error, not an implementation answer
                if isinstance(e, (KeyboardInterrupt, SystemExit)):
                    raise
                r = {"t": "HarnessError", "a": [traceback.format_exc()[-1500:]]}
                # Safety net: an exception whose innermost frame lies inside the psutil under test was raised BY the
                # implementation in a runner that forgot to wrap the call: that is an implementation outcome to be
                # judged (the spec demanded something else), not a crash of the harness.
                try:
                    tb = e.__traceback__
                    while tb is not None and tb.tb_next is not None:
                        tb = tb.tb_next
                    inner = os.path.realpath(tb.tb_frame.f_code.co_filename) if tb is not None else ""
                    if want and inner.startswith(os.path.join(want, "psutil") + os.sep):
                        from pv.canon import Exc, exc_name
                        r = {"t": "EscapedFromPsutil", "a": [Exc(exc_name(e)), traceback.format_exc()[-800:]]}
                except Exception:  # noqa: BLE001
                    pass
            finally:
                signal.setitimer(signal.ITIMER_VIRTUAL, 0)
                signal.alarm(0)
            f.write(json.dumps([it["i"], r]) + "\n")
            f.flush()


if __name__ == "__main__":
    main()
