import os
import sys
import traceback


def main():
    args = sys.argv[1:]
    if not args:
        print("usage: vcheck <id> quick|thorough [--replay file]")
        return 2
    pid = args[0]
    tier = "quick"
    replay = None
    i = 1
    while i < len(args):
        if args[i] in ("quick", "thorough"):
            tier = args[i]
        elif args[i] == "--replay":
            replay = args[i + 1]
            i += 1
        i += 1
    os.environ.setdefault("VERIF_TIER", tier)
    from . import core
    try:
        return core.run_check(pid, tier, replay)
    except Exception:
        traceback.print_exc()
        # a check that cannot run must not pass silently
        return 2


if __name__ == "__main__":
    sys.exit(main())
