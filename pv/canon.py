"""Canonical (JSON-able) form of implementation results, mirroring pv.jvparse."""


def B(b):
    if isinstance(b, str):
        b = b.encode("utf-8", "surrogateescape")
    return {"b": bytes(b).hex()}


def unB(x):
    return bytes.fromhex(x["b"])


def T(tag, *args):
    return {"t": tag, "a": list(args)}


def Val(x):
    return T("Val", x)


def Exc(name):
    return T("Exc", T(name))


PSUTIL_EXC = ("NoSuchProcess", "ZombieProcess", "AccessDenied", "TimeoutExpired")
BUILTIN_MAP = [
    ("ValueError", ValueError), ("TypeError", TypeError), ("KeyError", KeyError), ("IndexError", IndexError),
    ("OverflowError", OverflowError), ("ZeroDivisionError", ZeroDivisionError),
    ("NotImplementedError", NotImplementedError), ("RuntimeError", RuntimeError),
    ("AttributeError", AttributeError), ("OSError", OSError),
]


def exc_name(e):
    n = type(e).__name__
    if n in PSUTIL_EXC:
        return n
    if isinstance(e, UnicodeError):
        return "UnicodeError"
    for name, cls in BUILTIN_MAP:
        if isinstance(e, cls):
            return name
    return n


def outcome(fn, conv=lambda x: x):
    """Run fn(); Val(conv(result)) or Exc(class name)."""
    try:
        r = fn()
    except BaseException as e:  # noqa
        if isinstance(e, (KeyboardInterrupt, SystemExit)):
            raise
        return Exc(exc_name(e))
    return Val(conv(r))
