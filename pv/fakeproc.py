"""Fake /proc tree helpers used on the implementation side."""
import os
import shutil


def stat_line(pid, comm=b"proc", state=b"S", ppid=1, starttime=5000, tty_nr=0, utime=0, stime=0, cutime=0,
              cstime=0, processor=0, blkio=0, nfields=52, num_threads=1):
    """A /proc/<pid>/stat record (proc(5) numbering, fields 1..nfields)."""
    f = [b"0"] * (nfields + 1)
    f[1] = str(pid).encode()
    f[2] = b"(" + comm + b")"
    f[3] = state
    f[4] = str(ppid).encode()
    f[5] = str(pid).encode()
    f[6] = str(pid).encode()
    f[7] = str(tty_nr).encode()
    f[14] = str(utime).encode()
    f[15] = str(stime).encode()
    f[16] = str(cutime).encode()
    f[17] = str(cstime).encode()
    f[18] = b"20"
    f[20] = str(num_threads).encode()
    f[22] = str(starttime).encode()
    if nfields >= 39:
        f[39] = str(processor).encode()
    if nfields >= 42:
        f[42] = str(blkio).encode()
    return b" ".join(f[1:]) + b"\n"


def status_text(pid, comm=b"proc", state=b"S (sleeping)", ppid=1, uids=(0, 0, 0, 0), gids=(0, 0, 0, 0), threads=1,
                vol=1, nonvol=2, cpus_allowed_list=b"0-3"):
    name = comm.replace(b"\\", b"\\\\").replace(b"\n", b"\\n")
    return (b"Name:\t" + name + b"\nUmask:\t0022\nState:\t" + state + b"\nTgid:\t%d\nNgid:\t0\nPid:\t%d\nPPid:\t%d\n"
            % (pid, pid, ppid) + b"TracerPid:\t0\nUid:\t%d\t%d\t%d\t%d\nGid:\t%d\t%d\t%d\t%d\n" % (tuple(uids) + tuple(gids))
            + b"FDSize:\t64\nGroups:\t0 \nVmPeak:\t    1000 kB\nThreads:\t%d\nSigQ:\t0/1000\n" % threads
            + b"Cpus_allowed:\tf\nCpus_allowed_list:\t" + cpus_allowed_list
            + b"\nvoluntary_ctxt_switches:\t%d\nnonvoluntary_ctxt_switches:\t%d\n" % (vol, nonvol))


class FakeProc:
    def __init__(self, root, btime=1500000000):
        self.root = root
        if os.path.exists(root):
            shutil.rmtree(root)
        os.makedirs(root)
        self.set_btime(btime)

    def set_btime(self, btime):
        with open(os.path.join(self.root, "stat"), "wb") as f:
            f.write(b"cpu  10 0 10 100 0 0 0 0 0 0\ncpu0 10 0 10 100 0 0 0 0 0 0\nintr 5\nctxt 7\nbtime %d\nprocesses 3\n"
                    b"procs_running 1\nprocs_blocked 0\nsoftirq 9\n" % btime)

    def pdir(self, pid):
        return os.path.join(self.root, str(pid))

    def add(self, pid, comm=b"proc", **kw):
        d = self.pdir(pid)
        os.makedirs(d, exist_ok=True)
        skw = {k: kw[k] for k in ("state", "ppid", "starttime", "tty_nr", "utime", "stime", "cutime", "cstime",
                                  "processor", "blkio", "nfields", "num_threads") if k in kw}
        with open(os.path.join(d, "stat"), "wb") as f:
            f.write(stat_line(pid, comm, **skw))
        with open(os.path.join(d, "status"), "wb") as f:
            f.write(status_text(pid, comm, ppid=kw.get("ppid", 1)))
        with open(os.path.join(d, "cmdline"), "wb") as f:
            f.write(kw.get("cmdline", comm + b"\x00"))
        os.makedirs(os.path.join(d, "fd"), exist_ok=True)
        os.makedirs(os.path.join(d, "fdinfo"), exist_ok=True)
        os.makedirs(os.path.join(d, "task", str(pid)), exist_ok=True)
        return d

    def remove(self, pid):
        shutil.rmtree(self.pdir(pid), ignore_errors=True)

    def write(self, pid, name, data):
        p = os.path.join(self.pdir(pid), name)
        os.makedirs(os.path.dirname(p), exist_ok=True)
        with open(p, "wb") as f:
            f.write(data)
        return p


def attach(psutil, root):
    """Point the imported psutil at the fake tree."""
    psutil.PROCFS_PATH = root
    psutil._pslinux.BOOT_TIME = None
    try:
        psutil._pmap.clear()
        psutil._pids_reused.clear()
    except Exception:
        pass
