"""Gallina literal writers for generated case files."""


def z(n):
    n = int(n)
    return "(%d)" % n


def zs(l):
    return "[" + ";".join(str(int(x)) if x >= 0 else "(%d)" % x for x in l) + "]"


def by(b):
    """bytes literal as list Z"""
    if isinstance(b, str):
        b = b.encode("utf-8", "surrogateescape")
    return "[" + ";".join(str(x) for x in b) + "]"


def lst(items):
    return "[" + "; ".join(items) + "]"


def bo(x):
    return "true" if x else "false"


def opt(x, f):
    return "None" if x is None else "(Some %s)" % f(x)


def app(fn, *args):
    return "(" + fn + " " + " ".join(args) + ")"


def nat(n):
    return "(%d%%nat)" % n
