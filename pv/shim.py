"""Path-rewriting, access-counting, fault-injecting shim around the Python I/O entry
points psutil uses. Install it BEFORE `import psutil` when import-time probes matter
(cpu_freq, /proc/<pid>/io existence, ...).

    sh = Shim({"/sys": root + "/sys", "/dev": root + "/dev", "/proc": root + "/proc"})
    sh.install()
    sh.fault = lambda kind, path, idx: OSError(errno.ENOENT, "x", path) if idx == 3 else None
    ... ; sh.log  -> [(kind, original path)] ; sh.reset()
Only accesses whose (original) path passes `sh.watch(path)` are counted / faulted.
"""
import builtins
import glob
import io
import os


class Shim:
    def __init__(self, mapping=None):
        self.mapping = sorted((mapping or {}).items(), key=lambda kv: -len(kv[0]))
        self.log = []
        self.fault = None
        self.watch = lambda path: True
        self.installed = False
        self._orig = {}

    def reset(self):
        self.log = []
        self.fault = None

    def rewrite(self, path):
        if isinstance(path, int):
            return path
        p = os.fsdecode(path) if isinstance(path, (bytes, os.PathLike)) else path
        if not isinstance(p, str):
            return path
        for pre, real in self.mapping:
            if p == pre or p.startswith(pre + "/"):
                q = real + p[len(pre):]
                return os.fsencode(q) if isinstance(path, bytes) else q
        return path

    def _hit(self, kind, path):
        if isinstance(path, int):
            return
        p = os.fsdecode(path) if isinstance(path, (bytes, os.PathLike)) else path
        if not isinstance(p, str) or not self.watch(p):
            return
        idx = len(self.log)
        self.log.append((kind, p))
        if self.fault is not None:
            e = self.fault(kind, p, idx)
            if e is not None:
                raise e

    def _wrap(self, kind, fn):
        def w(path, *a, **kw):
            self._hit(kind, path)
            return fn(self.rewrite(path), *a, **kw)
        w.__name__ = getattr(fn, "__name__", kind)
        return w

    def install(self):
        if self.installed:
            return
        o = self._orig
        o["open"] = builtins.open
        o["io.open"] = io.open
        for n in ("listdir", "stat", "lstat", "readlink", "access", "scandir", "statvfs"):
            o[n] = getattr(os, n)
        w_open = self._wrap("open", o["open"])
        builtins.open = w_open
        io.open = w_open
        for n in ("stat", "lstat", "readlink", "access", "statvfs"):
            setattr(os, n, self._wrap(n, o[n]))

        def listdir(path=".", *a):
            self._hit("listdir", path)
            return o["listdir"](self.rewrite(path), *a)
        os.listdir = listdir

        def scandir(path=".", *a):
            self._hit("scandir", path)
            return o["scandir"](self.rewrite(path), *a)
        os.scandir = scandir
        # glob: the C-accelerated helpers look up os.scandir/os.lstat at call time (pure Python glob module)
        self.installed = True

    def uninstall(self):
        if not self.installed:
            return
        o = self._orig
        builtins.open = o["open"]
        io.open = o["io.open"]
        for n in ("listdir", "stat", "lstat", "readlink", "access", "scandir", "statvfs"):
            setattr(os, n, o[n])
        self.installed = False
