"""Parse Coq's printing of [jv] terms into the canonical JSON-able form:
   JZ n -> int ; JB [..] -> {"b": hex} ; JL [..] -> list ;
   JC "True"/"False"/"None" [] -> True/False/None ; JC tag args -> {"t": tag, "a": [args]}"""
import re

TOK = re.compile(r'\s*(?:(\(|\)|\[|\]|;)|"((?:[^"]|"")*)"|(-?\d+)|(%\w+)|([A-Za-z_][A-Za-z_0-9\'.]*))')


def tokenize(s):
    pos, out = 0, []
    n = len(s)
    while pos < n:
        m = TOK.match(s, pos)
        if not m:
            if s[pos:].strip() == "":
                break
            raise ValueError("jv tokenize error at %r" % s[pos:pos + 40])
        pos = m.end()
        if m.group(1):
            out.append(m.group(1))
        elif m.group(2) is not None:
            out.append(("s", m.group(2).replace('""', '"')))
        elif m.group(3):
            out.append(("n", int(m.group(3))))
        elif m.group(4):
            continue
        else:
            out.append(("i", m.group(5)))
    return out


class P:
    def __init__(self, toks):
        self.t = toks
        self.i = 0

    def peek(self):
        return self.t[self.i] if self.i < len(self.t) else None

    def next(self):
        x = self.t[self.i]
        self.i += 1
        return x

    def expect(self, x):
        y = self.next()
        if y != x:
            raise ValueError("expected %r got %r" % (x, y))

    def zval(self):
        t = self.next()
        if t == "(":
            v = self.zval()
            self.expect(")")
            return v
        if isinstance(t, tuple) and t[0] == "n":
            return t[1]
        raise ValueError("expected number got %r" % (t,))

    def lst(self, item):
        t = self.next()
        if t == "(":
            v = self.lst(item)
            self.expect(")")
            return v
        if t == ("i", "nil"):
            return []
        if t != "[":
            raise ValueError("expected [ got %r" % (t,))
        out = []
        if self.peek() == "]":
            self.next()
            return out
        while True:
            out.append(item())
            t = self.next()
            if t == "]":
                return out
            if t != ";":
                raise ValueError("expected ; got %r" % (t,))

    def value(self):
        t = self.next()
        if t == "(":
            v = self.value()
            self.expect(")")
            return v
        if t == ("i", "JZ"):
            return self.zval()
        if t == ("i", "JB"):
            return {"b": bytes(self.lst(self.zval)).hex()}
        if t == ("i", "JL"):
            return self.lst(self.value)
        if t == ("i", "JC"):
            tag = self.next()
            assert tag[0] == "s", tag
            args = self.lst(self.value)
            if not args and tag[1] in ("True", "False", "None"):
                return {"True": True, "False": False, "None": None}[tag[1]]
            return {"t": tag[1], "a": args}
        raise ValueError("unexpected token %r" % (t,))


def parse_value(s):
    p = P(tokenize(s))
    v = p.value()
    if p.peek() is not None:
        raise ValueError("trailing tokens")
    return v


def parse_output(out):
    """Split coqc output into the '= term : jv' answers."""
    res = []
    for m in re.finditer(r"^\s*= (.*?)\n\s*: jv\s*$", out, flags=re.S | re.M):
        res.append(parse_value(m.group(1)))
    return res
