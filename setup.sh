#!/bin/sh
# Offline build of the whole proof development (full .vo build, no -vos).
# -k: a property whose proofs do not build must not prevent the others from building;
# every check re-runs make for its own targets and reports a broken proof itself.
cd "$(dirname "$0")" || exit 1
./mkproject.sh || exit 1
timeout 3300 make -C coq -k -j16 >/var/tmp/pv_setup.log 2>&1
rc=$?
tail -5 /var/tmp/pv_setup.log
# the base library must build; anything else is reported by the individual checks
for f in Base/Prelude.vo Base/Bytes.vo Base/Dec.vo Base/Bits.vo; do
  [ -f "coq/$f" ] || { echo "setup: coq/$f missing"; exit 1; }
done
echo "setup: make exit status $rc (non-zero is tolerated; see the individual checks)"
exit 0
