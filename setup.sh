#!/bin/sh
# Offline build of the whole proof development (full .vo build, no -vos).
set -e
cd "$(dirname "$0")"
./mkproject.sh
timeout 3000 make -C coq -j16
