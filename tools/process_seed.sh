#!/bin/sh
# tools/process_seed.sh <id> <n> : confirm a seeded change (tools/verify_seed.sh ... full) and run the property's check
# against it (tools/mutant_test.sh), in parallel; log in /var/tmp/seedproc_<id>_<n>.log, one summary line on stdout.
ID=$1; N=$2; L=/var/tmp/seedproc_${ID}_${N}
( tools/verify_seed.sh $ID $N full > $L.verify 2>&1 ) &
V=$!
PV_NPROC=${PV_NPROC:-4} VERIF_SCRATCH_BASE=/var/tmp tools/mutant_test.sh $ID /tmp/seedout/$ID/$N/patch.diff > $L.mut 2>&1
wait $V
echo "$ID-$N verify: $(tail -1 $L.verify) | check: $(grep -o 'exit=[0-9]*' $L.mut | tail -1) $(grep '^VIOLATION' $L.mut | head -2 | tr '\n' ' ' | cut -c1-300)"
