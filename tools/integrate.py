#!/usr/bin/env python3
"""Merge notes/findings/*.json into known_findings.json (by property+key), regenerate MANIFEST.json,
validate MANIFEST and every evidence file against the schemas."""
import glob
import json
import os
import subprocess
import sys

V = os.path.dirname(os.path.dirname(os.path.abspath(__file__)))
kf = json.load(open(os.path.join(V, "known_findings.json")))
index = {(f["property"], f["key"]): i for i, f in enumerate(kf["findings"])}
for p in sorted(glob.glob(os.path.join(V, "notes", "findings", "*.json"))):
    try:
        items = json.load(open(p))
    except Exception as e:
        print("BAD", p, e)
        continue
    if isinstance(items, dict):
        items = items.get("findings", [items])
    for f in items:
        k = (f["property"], f["key"])
        if k in index:
            kf["findings"][index[k]] = f
        else:
            index[k] = len(kf["findings"])
            kf["findings"].append(f)
# an entry a property's findings file no longer lists was withdrawn there (e.g. a false alarm): drop it here too
have_file = {os.path.basename(p)[:-5] for p in glob.glob(os.path.join(V, "notes", "findings", "*.json"))}
listed = set()
for p in glob.glob(os.path.join(V, "notes", "findings", "*.json")):
    try:
        items = json.load(open(p))
    except Exception:
        continue
    if isinstance(items, dict):
        items = items.get("findings", [items])
    listed |= {(f["property"], f["key"]) for f in items}
before = len(kf["findings"])
kf["findings"] = [f for f in kf["findings"] if f["property"] not in have_file or (f["property"], f["key"]) in listed]
if len(kf["findings"]) != before:
    print("dropped %d withdrawn finding(s)" % (before - len(kf["findings"])))
json.dump(kf, open(os.path.join(V, "known_findings.json"), "w"), indent=1)
subprocess.run([sys.executable, os.path.join(V, "mkmanifest.py")], check=True)
chk = r'''
import json, glob, jsonschema
jsonschema.validate(json.load(open("%s/MANIFEST.json")), json.load(open("/root/.vp/MANIFEST.schema.json")))
sch = json.load(open("/root/.vp/EVIDENCE.schema.json"))
for p in sorted(glob.glob("%s/evidence/*.json")):
    try:
        jsonschema.validate(json.load(open(p)), sch); print("ok ", p)
    except Exception as e:
        print("BAD", p, str(e)[:200])
''' % (V, V)
subprocess.run(["python3-vt", "-c", chk])
