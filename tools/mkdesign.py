#!/usr/bin/env python3
"""Regenerate the generated parts of DESIGN.md (between <!-- GEN:x --> and <!-- /GEN:x --> markers):
fix commits, known findings, seeded changes, per-property as-built records (from notes/design/*.md)."""
import glob, json, os, re, subprocess
V = os.path.dirname(os.path.dirname(os.path.abspath(__file__)))
kf = json.load(open(V + "/known_findings.json"))["findings"]

def fixes():
    log = subprocess.run(["git", "-C", "/repo", "log", "--reverse", "--format=%h\t%s", "75f5043..HEAD"], stdout=subprocess.PIPE, text=True).stdout
    by = {}
    for f in kf:
        for c in re.split(r"[,\s]+", f.get("commit", "") or ""):
            if c:
                by.setdefault(c[:7], []).append(f["property"])
    rows = ["| commit | property | subject |", "|---|---|---|"]
    for ln in log.splitlines():
        h, s = ln.split("\t", 1)
        rows.append("| %s | %s | %s |" % (h, ", ".join(sorted(set(by.get(h[:7], [])))) or "?", s.replace("|", "\\|")))
    return "\n".join(rows)

def known():
    rows = ["| property | key | what fails / why not repaired |", "|---|---|---|"]
    for f in kf:
        if f["status"] == "known":
            rows.append("| %s | %s | %s |" % (f["property"], f["key"], f["what"].replace("|", "\\|").replace("\n", " ")))
    return "\n".join(rows)

def seeded():
    rows = ["| seeded change | property | what it does / needs | caught by the check |", "|---|---|---|---|"]
    for d in sorted(glob.glob(V + "/seeded/C*-*")):
        m = json.load(open(d + "/meta.json"))
        rows.append("| %s | %s | %s | %s — %s |" % (os.path.basename(d), m["property"], (m.get("summary", "") + " Needs: " + str(m.get("needs_to_manifest", ""))).replace("|", "\\|").replace("\n", " ")[:420],
                                                 m.get("caught_by_check"), m.get("note", "").replace("|", "\\|")))
    return "\n".join(rows)

def records():
    out = []
    for p in sorted(glob.glob(V + "/notes/design/C*.md")):
        txt = open(p).read().strip()
        txt = re.sub(r"^# ", "#### ", txt, flags=re.M)
        txt = re.sub(r"^## ", "##### ", txt, flags=re.M)
        out.append("### 12.%s as built\n\n%s\n" % (os.path.basename(p)[:-3], txt))
    return "\n".join(out)

s = open(V + "/DESIGN.md").read()
for name, fn in (("fixes", fixes), ("known", known), ("seeded", seeded), ("records", records)):
    a, b = "<!-- GEN:%s -->" % name, "<!-- /GEN:%s -->" % name
    if a in s:
        s = s[:s.index(a) + len(a)] + "\n" + fn() + "\n" + s[s.index(b):]
open(V + "/DESIGN.md", "w").write(s)
print("DESIGN.md regenerated")
