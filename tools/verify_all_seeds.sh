#!/bin/sh
# full-suite verification of every kept seed (3 at a time); results in /tmp/seedout/<id>/<n>/verify.json and seeded/<id>-<n>/meta.json
cd /verif
ls -d seeded/C*-* | sed 's#seeded/##' | while read d; do
  id=${d%-*}; n=${d#*-}
  if grep -q '"suite": "not run"' /tmp/seedout/$id/$n/verify.json 2>/dev/null || [ ! -f /tmp/seedout/$id/$n/verify.json ]; then echo "$id $n"; fi
done | xargs -P 3 -L 1 sh -c 'tools/verify_seed.sh $0 $1 full > /dev/null 2>&1; python3 - $0 $1 <<PY
import json,sys
i,n=sys.argv[1],sys.argv[2]
v=json.load(open("/tmp/seedout/%s/%s/verify.json"%(i,n)))
p="/verif/seeded/%s-%s/meta.json"%(i,n)
m=json.load(open(p)); m["verified_by_me"]=v; json.dump(m,open(p,"w"),indent=1)
print(i,n,v)
PY'
