#!/usr/bin/env python3
"""tools/keep_seed.py <id> <n> <caught: yes|no|after-strengthening> <note>
Copies a verified seeded change from /tmp/seedout/<id>/<n>/ to /verif/seeded/<id>-<n>/ with a merged meta.json."""
import glob, json, os, shutil, sys
pid, n, caught, note = sys.argv[1], sys.argv[2], sys.argv[3], sys.argv[4]
src = "/tmp/seedout/%s/%s" % (pid, n)
dst = "/verif/seeded/%s-%s" % (pid, n)
os.makedirs(dst, exist_ok=True)
shutil.copy(src + "/patch.diff", dst + "/patch.diff")
for d in glob.glob(src + "/demo*"):
    shutil.copy(d, dst)
meta = json.load(open(src + "/meta.json"))
ver = json.load(open(src + "/verify.json")) if os.path.exists(src + "/verify.json") else {}
meta.update({"property": pid, "verified_by_me": ver,
             "what_i_ran": "tools/verify_seed.sh %s %s full (demo on clean copy of /repo HEAD, patch, rebuild, demo again, full baseline suite vs stable_pass); tools/mutant_test.sh %s seeded/%s-%s/patch.diff" % (pid, n, pid, pid, n),
             "caught_by_check": caught, "note": note})
json.dump(meta, open(dst + "/meta.json", "w"), indent=1)
print("kept", dst)
