#!/bin/sh
# tools/regress_seeds.sh <id>... : re-run every kept seeded change of the listed properties against the current check
# (tools/mutant_test.sh on a patched copy of /repo HEAD); one line per seed on stdout: "<seed> caught|MISSED|ERROR(rc)"
cd /verif
for id in "$@"; do
  for d in seeded/$id-*/; do
    n=$(basename "$d")
    out=$(PV_NPROC=${PV_NPROC:-4} tools/mutant_test.sh $id $d/patch.diff 2>&1)
    rc=$(echo "$out" | grep -o 'exit=[0-9]*' | tail -1 | cut -d= -f2)
    if [ "$rc" = "1" ] && echo "$out" | grep -q '^VIOLATION'; then
      if echo "$out" | grep '^VIOLATION' | grep -vq 'no-failing-input-found'; then echo "$n caught"; else echo "$n caught(no-failing-input-found)"; fi
    elif [ "$rc" = "0" ]; then echo "$n MISSED"
    else echo "$n ERROR($rc) $(echo "$out" | tail -2 | tr '\n' ' ' | cut -c1-200)"; fi
  done
done
