#!/bin/sh
# tools/verify_seed.sh <id> <n> [full]
# Confirms a seeded change produced by an independent agent: (1) demo passes on the clean worktree,
# (2) patch applies and the tree builds, (3) demo fails with the patch, (4) [full] the 492 stable tests still pass.
# Writes /tmp/seedout/<id>/<n>/verify.json. Uses a private copy of /repo's HEAD (not /repo itself).
ID=$1; N=$2; FULL=$3
SRC=/tmp/seedout/$ID/$N
W=$(mktemp -d /var/tmp/pvseed.XXXXXX)
trap 'rm -rf "$W"' EXIT
rsync -a --exclude .git --exclude '*.so' --exclude build /repo/ "$W/"
cd "$W" || exit 2
/venv/bin/python setup.py build_ext --inplace -q >/dev/null 2>&1 || { echo "clean build failed"; exit 2; }
DEMO=$(ls $SRC/demo*.py | head -1)
run_demo() { ( cd "$W" && PYTHONPATH="$W" timeout 600 /venv/bin/python -m pytest -q -p no:cacheprovider "$DEMO" >/dev/null 2>&1 ) ; }
case "$DEMO" in
  *test*.py) run_demo; CLEAN=$? ;;
  *) ( cd "$W" && PYTHONPATH="$W" timeout 600 /venv/bin/python "$DEMO" >/dev/null 2>&1 ); CLEAN=$? ;;
esac
patch -p1 -s < "$SRC/patch.diff" || { echo "patch does not apply"; exit 2; }
/venv/bin/python setup.py build_ext --inplace -q >/dev/null 2>&1; BUILD=$?
case "$DEMO" in
  *test*.py) run_demo; PATCHED=$? ;;
  *) ( cd "$W" && PYTHONPATH="$W" timeout 600 /venv/bin/python "$DEMO" >/dev/null 2>&1 ); PATCHED=$? ;;
esac
SUITE="not run"
if [ "$FULL" = "full" ]; then
  PYTHONPATH="$W" /venv/bin/python -m pytest -ra -q -p no:cacheprovider --timeout=900 --continue-on-collection-errors --junitxml="$W/junit.xml" >"$W/pytest.log" 2>&1
  SUITE=$(/venv/bin/python - "$W/junit.xml" <<'PY'
import json, sys, xml.etree.ElementTree as ET
stable = set(json.load(open('/root/.vp/BASELINE.json'))['stable_pass'])
passed = set()
for tc in ET.parse(sys.argv[1]).getroot().iter('testcase'):
    if not any(ch.tag in ('failure', 'error', 'skipped') for ch in tc):
        passed.add(tc.get('classname') + '::' + tc.get('name'))
missing = sorted(stable - passed)
print("%d/%d stable tests pass%s" % (len(stable & passed), len(stable), ("; missing: " + ", ".join(missing[:6])) if missing else ""))
PY
)
fi
printf '{"demo_exit_clean": %s, "build_exit_patched": %s, "demo_exit_patched": %s, "suite": "%s"}\n' "$CLEAN" "$BUILD" "$PATCHED" "$SUITE" | tee "$SRC/verify.json"
