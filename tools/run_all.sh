#!/bin/sh
# tools/run_all.sh [tier] -- run every registered check sequentially; summary on stdout
TIER=${1:-quick}
cd /verif
for i in 01 02 03 04 05 06 07 08 09 10 11 12 13 14 15 16 17 18 19 20; do
  s=$(date +%s)
  out=$(./vcheck C$i $TIER 2>&1); rc=$?
  e=$(date +%s)
  echo "C$i rc=$rc $((e-s))s $(echo "$out" | grep -c '^KNOWN-FINDING') known; $(echo "$out" | grep '^VIOLATION' | head -2 | tr '\n' ' ')"
  [ $rc -ne 0 ] && echo "$out" | tail -5 | cut -c1-300
done
