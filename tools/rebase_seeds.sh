#!/bin/sh
# tools/rebase_seeds.sh : for every kept seed whose patch.diff no longer applies to /repo HEAD, try a 3-way
# re-application in a throw-away worktree; a clean result replaces patch.diff (the old one is kept as
# patch_original.diff, unless one exists already).  Conflicts are listed for manual handling.
set -u
WT=/var/tmp/rebase_wt.$$
git -C /repo worktree add -q --detach "$WT" HEAD || exit 2
trap 'git -C /repo worktree remove --force "$WT" 2>/dev/null; git -C /repo worktree prune' EXIT
for d in /verif/seeded/C*-*/; do
  n=$(basename "$d")
  git -C /repo apply --check "$d/patch.diff" 2>/dev/null && continue
  git -C "$WT" reset -q --hard HEAD; git -C "$WT" clean -qfd
  if (cd "$WT" && git apply --3way "$d/patch.diff" >/dev/null 2>&1) && ! grep -rq '^<<<<<<< ' "$WT/psutil" "$WT/setup.py" 2>/dev/null; then
    [ -f "$d/patch_original.diff" ] || cp "$d/patch.diff" "$d/patch_original.diff"
    (cd "$WT" && git diff HEAD) > "$d/patch.diff"
    echo "rebased  $n"
  else
    echo "CONFLICT $n"
  fi
done
