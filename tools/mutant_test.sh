#!/bin/sh
# tools/mutant_test.sh <property id> <patch file> [tier]  -- run a check against a patched COPY of /repo
set -e
PID=$1; PATCH=$(realpath "$2"); TIER=${3:-quick}
D=$(mktemp -d /var/tmp/pvmut.XXXXXX)
trap 'rm -rf "$D"' EXIT
rsync -a --exclude .git --exclude '*.so' --exclude build /repo/ "$D/"
( cd "$D" && patch -p1 -s < "$PATCH" )
cd "$(dirname "$0")/.."
set +e
VERIF_REPO="$D" PV_EVIDENCE_DIR="$D/evidence" ./vcheck "$PID" "$TIER"
echo "exit=$?"
