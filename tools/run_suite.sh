#!/bin/sh
# Run the repository's baseline suite on a scratch copy of /repo's working tree and
# compare with stable_pass of /root/.vp/BASELINE.json. Usage: tools/run_suite.sh [outfile]
set -e
OUT=${1:-/var/tmp/pv_suite_result.txt}
D=$(mktemp -d /var/tmp/pvsuite.XXXXXX)
trap 'rm -rf "$D"' EXIT
rsync -a --exclude .git --exclude '*.so' --exclude build /repo/ "$D/repo/"
cd "$D/repo"
/venv/bin/python setup.py build_ext --inplace -q >/dev/null 2>&1
PYTHONPATH="$D/repo" /venv/bin/python -m pytest -ra -q -p no:cacheprovider --timeout=900 --continue-on-collection-errors --junitxml="$D/junit.xml" >"$D/pytest.log" 2>&1 || true
/venv/bin/python - "$D/junit.xml" >"$OUT" <<'PY'
import json, sys, xml.etree.ElementTree as ET
base = json.load(open('/root/.vp/BASELINE.json'))
stable = set(base['stable_pass'])
passed = set()
for tc in ET.parse(sys.argv[1]).getroot().iter('testcase'):
    ok = not any(ch.tag in ('failure', 'error', 'skipped') for ch in tc)
    if ok:
        passed.add(tc.get('classname') + '::' + tc.get('name'))
missing = sorted(stable - passed)
print('stable_pass:', len(stable), 'passed now:', len(stable & passed), 'missing:', len(missing))
for m in missing:
    print('  MISSING', m)
PY
cat "$OUT"
