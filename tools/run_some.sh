#!/bin/sh
# tools/run_some.sh <tier> <id>... -- run the listed checks sequentially; summary on stdout
TIER=$1; shift
cd /verif
for id in "$@"; do
  s=$(date +%s)
  out=$(./vcheck $id $TIER 2>&1); rc=$?
  e=$(date +%s)
  echo "$id rc=$rc $((e-s))s $(echo "$out" | grep -c '^KNOWN-FINDING') known; $(echo "$out" | grep '^VIOLATION' | head -2 | tr '\n' ' ')"
  [ $rc -ne 0 ] && echo "$out" | tail -5 | cut -c1-300
done
