"""C04 helper: run threads through chosen psutil functions under a deterministic line-level schedule.

Each worker thread installs a sys.settrace tracer that stops at every 'line' event inside the target function's frames
(default: the process_iter generator of psutil/__init__.py) and waits for its turn; the controller hands out turns
following an explicit list of thread ids, optionally calls a hook (e.g. os.fork()) while the threads are parked, then
lets the threads finish one after the other.

A thread that was given a turn and does not reach its next stop within [grace] seconds is BLOCKED (typically on a lock
that another parked thread holds): that is not a harness error -- the scheduler treats it as not runnable and goes on
with the other threads; it becomes runnable again when it reaches a stop.  Threads that are still blocked when nobody
else can run are reported as ("hang",): an outcome of the implementation, to be judged by the caller.
"""
import sys
import threading
import time


class Deadlock(Exception):
    """the harness itself is stuck (a worker never started, a worker starved while runnable)"""


def run_two(fn, schedule, filename_suffix="psutil/__init__.py", funcname="process_iter", nthreads=2, timeout=10.0,
            grace=0.25, hang_after=1.5, hook=None):
    cond = threading.Condition()
    st = {"turn": None, "waiting": [False] * nthreads, "done": [False] * nthreads, "blocked": [False] * nthreads,
          "free": False}
    results = [None] * nthreads
    hook_result = [None]

    def sync(tid):
        with cond:
            if st["free"]:
                return
            st["waiting"][tid] = True
            st["blocked"][tid] = False
            cond.notify_all()
            while st["turn"] != tid and not st["free"]:
                if not cond.wait(timeout * 6):
                    raise Deadlock("worker %d starved" % tid)
            if st["turn"] == tid:
                st["turn"] = None
            st["waiting"][tid] = False
            cond.notify_all()

    def make_tracer(tid):
        def local(frame, event, arg):
            if event == "line":
                sync(tid)
            return local

        def tracer(frame, event, arg):
            co = frame.f_code
            if event == "call" and co.co_name == funcname and co.co_filename.endswith(filename_suffix):
                return local
            return None
        return tracer

    def worker(tid):
        sys.settrace(make_tracer(tid))
        try:
            results[tid] = ("ok", fn(tid))
        except BaseException as e:  # noqa
            results[tid] = ("exc", type(e).__name__, str(e)[:80])
        finally:
            sys.settrace(None)
            with cond:
                st["done"][tid] = True
                st["blocked"][tid] = False
                if st["turn"] == tid:
                    st["turn"] = None
                cond.notify_all()

    threads = [threading.Thread(target=worker, args=(t,), daemon=True) for t in range(nthreads)]
    for t in threads:
        t.start()

    def parked(t):
        return st["waiting"][t] or st["done"][t] or st["blocked"][t]

    def settle(limit):
        """wait until every thread is parked, finished or known to be blocked; False on timeout"""
        end = time.monotonic() + limit
        while not all(parked(t) for t in range(nthreads)):
            left = end - time.monotonic()
            if left <= 0:
                return False
            cond.wait(min(left, 0.05))
        return True

    def give_turn(tid):
        """let thread tid run one line; if it does not come back within [grace] it is blocked"""
        st["turn"] = tid
        cond.notify_all()
        end = time.monotonic() + grace
        # first: the turn must be taken (the thread is parked in sync(), so this is immediate)
        while st["turn"] is not None and not st["done"][tid]:
            if not cond.wait(0.05) and time.monotonic() > end + timeout:
                raise Deadlock("turn not taken")
        # then: it runs to its next stop, finishes, or blocks
        while not (st["waiting"][tid] or st["done"][tid]):
            left = end - time.monotonic()
            if left <= 0:
                st["blocked"][tid] = True
                return
            cond.wait(min(left, 0.05))

    with cond:
        if not settle(timeout):
            raise Deadlock("threads did not start")
        for tid in schedule:
            if all(st["done"]):
                break
            if st["done"][tid] or st["blocked"][tid] or not st["waiting"][tid]:
                continue
            give_turn(tid)
    if hook is not None:
        hook_result[0] = hook()
    with cond:
        # drain: run whoever is runnable, in thread order, until all are done or the rest is blocked for good
        idle_since = None
        while not all(st["done"]):
            runnable = [t for t in range(nthreads) if st["waiting"][t] and not st["done"][t]]
            if runnable:
                idle_since = None
                give_turn(runnable[0])
                continue
            # nobody is at a stop: the others are blocked (or still running towards a stop)
            if idle_since is None:
                idle_since = time.monotonic()
            if time.monotonic() - idle_since > hang_after:
                break
            cond.wait(0.05)
        for t in range(nthreads):
            if not st["done"][t]:
                results[t] = ("hang",)
        st["free"] = True          # let stragglers run on untraced if they ever get unblocked
        cond.notify_all()
    for t in threads:
        if results[threads.index(t)] != ("hang",):
            t.join(timeout)
    if hook is not None:
        return results, hook_result[0]
    return results
