"""C04 helper: run two threads through process_iter() under a deterministic line-level schedule.

Each worker thread installs a sys.settrace tracer that stops at every 'line' event inside the
process_iter generator frame (psutil/__init__.py) and waits for its turn; the controller hands out
turns following an explicit list of thread ids, then lets the threads finish one after the other.
"""
import sys
import threading


class Deadlock(Exception):
    pass


def run_two(fn, schedule, filename_suffix="psutil/__init__.py", funcname="process_iter", nthreads=2, timeout=10.0):
    cond = threading.Condition()
    state = {"turn": None, "waiting": [False] * nthreads, "done": [False] * nthreads, "free": False}
    results = [None] * nthreads

    def sync(tid):
        with cond:
            if state["free"]:
                return
            state["waiting"][tid] = True
            cond.notify_all()
            while state["turn"] != tid and not state["free"]:
                if not cond.wait(timeout):
                    raise Deadlock("worker %d starved" % tid)
            state["turn"] = None
            state["waiting"][tid] = False

    def make_tracer(tid):
        def local(frame, event, arg):
            if event == "line":
                sync(tid)
            return local

        def tracer(frame, event, arg):
            co = frame.f_code
            if event == "call" and co.co_name == funcname and co.co_filename.endswith(filename_suffix):
                return local
            return None
        return tracer

    def worker(tid):
        sys.settrace(make_tracer(tid))
        try:
            results[tid] = ("ok", fn(tid))
        except BaseException as e:  # noqa
            results[tid] = ("exc", type(e).__name__, str(e)[:80])
        finally:
            sys.settrace(None)
            with cond:
                state["done"][tid] = True
                if state["turn"] == tid:
                    state["turn"] = None
                cond.notify_all()

    threads = [threading.Thread(target=worker, args=(t,), daemon=True) for t in range(nthreads)]
    for t in threads:
        t.start()

    def settled():
        return all(state["waiting"][t] or state["done"][t] for t in range(nthreads))

    with cond:
        for tid in list(schedule) + [None]:
            while not settled():
                if not cond.wait(timeout):
                    raise Deadlock("threads did not settle")
            if all(state["done"]):
                break
            if tid is None:
                break
            if state["done"][tid]:
                continue
            state["turn"] = tid
            cond.notify_all()
            while state["turn"] is not None and not state["done"][tid]:
                if not cond.wait(timeout):
                    raise Deadlock("turn not taken")
        # schedule exhausted: finish the threads one after the other
        for tid in range(nthreads):
            while not state["done"][tid]:
                while not settled():
                    if not cond.wait(timeout):
                        raise Deadlock("threads did not settle (drain)")
                if state["done"][tid]:
                    break
                state["turn"] = tid
                cond.notify_all()
                while state["turn"] is not None and not state["done"][tid]:
                    if not cond.wait(timeout):
                        raise Deadlock("turn not taken (drain)")
    for t in threads:
        t.join(timeout)
    return results
