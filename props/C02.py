"""C02 -- Process ==, hash() and is_running() follow the process, not the PID."""
from props import _proc_common as PC
from props._proc_common import coq_struct, coq_term, impl_run, impl_setup  # noqa: F401  (interface of pv.core)

ID = "C02"
COQ_REQUIRE = PC.COQ_REQUIRE
COQ_DIRS = PC.COQ_DIRS
RULE = ("histories of kernel events (spawn/exit->zombie/reap/PID reuse/clock steps of -100000..10^9 s) and psutil calls over PIDs "
        "{0,1,2,3,7,2^31-1}, start ticks from 21 values (bases 0..2^40, 10^12, each +0/+1/+2) with PID reuse at adjacent ticks (p=0.6), process names with 0-3 blanks/parentheses/15 bytes, thread-count changes, drawn from a weighted grammar with motifs 'clock step, "
        "boot_time(), second object for the same process, ==/hash/is_running' and 'process ends, queries, PID reused, "
        "is_running/==/hash between old and new object'; copies of Process objects (copy.copy / copy.deepcopy / pickle round trip / pickle dumped while alive and loaded after the PID was recycled; what the tree under test supports is probed) made from live and from stale originals, then ==/hash/is_running/signals/setters on the copy; wait()/wait_procs() through the real wait_pid with the PID invisible to os.kill/os.waitpid in the caller's namespace (foreign procfs) followed by is_running/==/hash on that and on fresh objects; objects built while /proc/<pid>/stat is unreadable (EACCES; identity (pid, None)) with hash() before/after the file becomes readable and is_running() is called, PID reuse in between, ==/hash against fresh objects both ways; process_iter() generators suspended before a recycled PID whose cached object is then found stale (binding of every held object checked after every event); two PIDs spawned with the same start tick, == against non-Process operands (int = pid, tuple = _ident, object(), None, str, float), psutil.Popen objects without identity later compared with the owner of their PID; objects also come from process_iter() and psutil.Popen; calls also inside oneshot() blocks; process-wide who-am-I state: every 6th generated history is run again by an observer whose own os.getpid() is the most used table PID of that history (os.getpid patched for the case; every other Process(pid) on it in the call form Process(); class +ownpid), plus a systematic block of 350 histories (never sampled): Process()/Process(getpid()) for the own number x warm-up (none/is_running/hash/create_time+boot_time+ppid/process_iter) x entry alive/zombie/reaped/exit+reaped x construction attempted while the entry is missing x number recycled at the adjacent/a distant tick/not, fresh handles in both call forms, ==/hash/is_running both ways, aliasing on and off, own number 3 and 7 (the PID psutil was imported under); 84 of them continued after a REAL os.fork() in the child (os.getpid() = table PID 2 = child of the observer, or the real PID), which reports through a pipe. Class = most specific feature "
        "reached (eq-same-pid-other-proc, isrun-reused, clock, eq-same-proc, ...). Non-trivial = some ==/hash/is_running on an "
        "object was executed; distinct = distinct canonical history.")
TRUSTED = PC.TRUSTED
ASSUMPTIONS = PC.ASSUMPTIONS
EXHAUSTIVE = {}
SPEC_KINDS = ("isrun", "eq", "hasheq", "eqother", "bind", "waitprocs")
N = {"quick": 780, "thorough": 14000, "search": 2500}


def gen_tables(impl_dir, out_dir):
    """no table of its own: probes which object protocols (copy/deepcopy/pickle) the tree under test supports"""
    PC.probe_copy_support(impl_dir)
    return None


def gen_cases(rng, tier):
    from pv import core
    cases = [PC.gen_history(rng, rng.choice([6, 12, 20, 30, 45]), "c02") for _ in range(N[tier])]
    core.assign_pyflags(cases, rng, modes=(("-O",), ("-O",), ("-OO",)), frac=0.12)
    # wave 8: process-wide "who am I" state.  Every 6th generated history (every shape of the grammar, deterministic stride, not
    # sampled) is run a second time by an observer whose own os.getpid() is the most used PID of that history, every other
    # Process(pid) on it in the call form Process(); then the systematic block (aliasing on/off, real os.fork()).
    twins = [PC.alias_own_pid(c) for c in cases[::(6 if tier == "quick" else 3)]]
    cases += [t for t in twins if t is not None]
    return cases + PC.own_pid_block()


def judge(case, coq, impl):
    return PC.judge_history(case, coq, impl, SPEC_KINDS, "==/hash/is_running answer")


MANIFEST = {
    "text": "Theorems (Coq, over ALL well-formed histories of spawn/exit/reap/PID-reuse events, clock steps and interleaved psutil calls "
            "incl. boot_time(), create_time(), process_iter(), is_running() on any object, any length, objects created at any point): "
            "a == b and hash(a) == hash(b) hold exactly when both objects were created for the same process start (same incarnation, "
            "hence same PID); hash is stable; is_running() is True exactly while that incarnation is in the process table (zombie "
            "included) and, once False, False ever after; for EVERY history (also with unreadable stat files, objects without identity): the identity of an object never changes, hash agrees with ==, is_running() never returns to True; different PIDs never compare equal (also with equal start ticks); == against a "
            "non-Process operand is False; Process() without argument (os.getpid() = a number of the table psutil reads; the only use of the caller's PID) raises NoSuchProcess when the table has no such entry and is otherwise bound to the current owner of that number, is_running() following the table; a psutil.Popen built for a child already gone is bound to no process and never running. The model (coq/Proc/Model.v) is tied to the code by running both on generated "
            "histories over a fake /proc whose btime line is stepped.",
    "note": "Trusted: Coq kernel + vm_compute; hand-written model coq/Proc/Model.v (tied by the correspondence run only); ghost "
            "incarnations in coq/Proc/Spec.v; harness (fake /proc); identity float start/CLK_TCK injective for ticks < 2^52; CPython "
            "tuple hash collision-free on the sampled identities; distinct start ticks per PID.",
}
