"""C13 -- process memory figures are consistent with the kernel's per-mapping accounting."""
import errno
import json
import os
from fractions import Fraction

from pv import gallina as G
from pv.canon import B, Exc, T, Val, outcome, unB

ID = "C13"
COQ_REQUIRE = "C13.Run"
SHARD = 40
RULE = ("listings of 46 KB - 4.3 MiB generated inside Gallina (n copies of three templates, per-index figures, 32 KiB / 1 MiB offsets aligned on each summed line kind: before it, before its predecessor, inside, at its end) judged for every source of memory_full_info, inside oneshot() and against the rows of memory_maps; "
        "5 live cases first (real smaps / smaps_rollup / statm of a helper with chosen mappings: printers vs real bytes, model = psutil on the snapshot, psutil over the real /proc); "
        "statm records of seven page counts (0 .. 2^52) x page size {real, 4096, 16384, 65536}; smaps listings of 0..25 mappings "
        "drawn from a grammar (hex ranges, perms, 35 path shapes incl. blanks inside and at the end/colons/' (deleted)'/UTF-8/Unicode blanks/figure-like names, repeated "
        "paths, anonymous, deleted files whose marked name exists / is absent for an assortment of errnos (ENAMETOOLONG from real 246..255-byte names "
        "and > PATH_MAX paths, ELOOP, EIO, EOVERFLOW, ENOTDIR, ESTALE ... injected into os.stat) / is denied (EACCES, EPERM)), each with the ten figure lines in kernel order "
        "plus a per-case kernel profile of optional lines (KernelPageSize, Pss_Dirty, KSM, LazyFree, *Hugetlb, SwapPss, Locked, "
        "THPeligible, ProtectionKey, VmFlags), values up to 2^45 kB; the roll-up computed from the same list (or deliberately "
        "kernel-rounded in Pss or inconsistent), old-kernel line sets (figures printed by no mapping), non-uniform line sets (model only), names with "
        "newlines (shown as \\012), present / ENOENT / ESRCH at open / ESRCH at read / EACCES, HAS_PROC_SMAPS_ROLLUP on/off; memory_percent for "
        "every field name and unknown names with total memory cached or read; histories [virtual_memory / MemTotal rewritten / memory_percent] over a "
        "fake /proc/meminfo; names containing \\r \\x0b \\x0c \\x1c-\\x1f \\x85 U+0085 U+2028/9; plus a malformed stream (dropped, duplicated, "
        "truncated, foreign lines, empty VmFlags, missing figures, file errors, zombie/gone). Non-trivial = at least one mapping "
        "or a non-empty file; distinct = distinct canonical case hash.")
TRUSTED = ["kernel printers k_smaps / k_rollup / k_statm of coq/C13/Spec.v: compared byte for byte with the running kernel's files of a helper process on every run (props/_c13_live.py)",
           "correspondence harness props/C13.py + pv/ (fake /proc tree; builtins.open fault injection; os.stat answers per errno for "
           "path_exists_strict, or the real file system for over-long names; psutil._pslinux.PAGESIZE / HAS_PROC_SMAPS_ROLLUP / psutil._TOTAL_PHYMEM / psutil.virtual_memory set per case)",
           "formats of /proc/<pid>/statm, smaps, smaps_rollup transcribed from proc(5) and fs/proc/task_mmu.c in coq/C13/Spec.v",
           "CPython re engine agrees with the three hand-written scanners of coq/C13/Model.v (exercised on adversarial lines)"]
ASSUMPTIONS = ["CPython semantics of bytes.split/strip/startswith, str.strip, int, re.findall on the three patterns are modelled, not verified",
               "float arithmetic of memory_percent is compared with the exact ratio within 2^-48 relative",
               "a newline in a mapped file name is printed by the kernel as \\012 and returned so (the kernel's escaping is not injective: observation)",
               "names begin with a non-blank byte (d_path output or pseudo-names); a leading ASCII blank is indistinguishable from the column padding",
               "a roll-up that is neither the sum of the listing nor a kernel-rounded one (Pss off by >= number of mappings kB) is compared with the model only"]
EXHAUSTIVE = {"quick": "handles block (wave 8): copy.copy / copy.deepcopy x taken inside / outside an open oneshot() block x memory_full_info source (no roll-up support, ENOENT, ESRCH, roll-up) x kernel change yes / no = 32 histories, each asking memory_info, memory_full_info, memory_maps(grouped=False/True) of the copy, the original and a fresh Process outside every block, then inside and after the copy's own block; memory_percent: all 10 field names and 12 unknown names on every generated percent base (files + total memory)",
              "thorough": "same, 12x the random cases"}

FIGS = {"Rss": "FRss", "Size": "FSize", "Pss": "FPss", "Shared_Clean": "FSharedClean", "Shared_Dirty": "FSharedDirty",
        "Private_Clean": "FPrivateClean", "Private_Dirty": "FPrivateDirty", "Referenced": "FReferenced",
        "Anonymous": "FAnonymous", "Swap": "FSwap", "Private_Hugetlb": "FPrivateHugetlb"}
ROW_FIGS = ["Rss", "Size", "Pss", "Shared_Clean", "Shared_Dirty", "Private_Clean", "Private_Dirty", "Referenced", "Anonymous", "Swap"]
ROW_ATTRS = ["rss", "size", "pss", "shared_clean", "shared_dirty", "private_clean", "private_dirty", "referenced", "anonymous", "swap"]
PMEM = ["rss", "vms", "shared", "text", "lib", "data", "dirty"]
PFULL = PMEM + ["uss", "pss", "swap"]
# kernel order of the lines of one mapping; (name, kind) kind: fig | kb | num | flags ; optional ones carry a profile key
ORDER = [("Size", "fig", None), ("KernelPageSize", "kb", "kps"), ("MMUPageSize", "kb", "kps"), ("Rss", "fig", None), ("Pss", "fig", None),
         ("Pss_Dirty", "kb", "pssd"), ("Shared_Clean", "fig", None), ("Shared_Dirty", "fig", None), ("Private_Clean", "fig", None),
         ("Private_Dirty", "fig", None), ("Referenced", "fig", None), ("Anonymous", "fig", None), ("KSM", "kb", "ksm"),
         ("LazyFree", "kb", "lazy"), ("AnonHugePages", "kb", "thp"), ("ShmemPmdMapped", "kb", "thp"), ("FilePmdMapped", "kb", "thp"),
         ("Shared_Hugetlb", "kb", "huge"), ("Private_Hugetlb", "fig", "huge"), ("Swap", "fig", None), ("SwapPss", "kb", "swappss"),
         ("Locked", "kb", "locked"), ("THPeligible", "num", "thpe"), ("ProtectionKey", "num", "pkey"), ("VmFlags", "flags", "vmflags")]
PROFILE_KEYS = ["kps", "pssd", "ksm", "lazy", "thp", "huge", "swappss", "locked", "thpe", "pkey", "vmflags"]
DECOY = [0, 4, 12, 64, 100, 2048, 77777, 2 ** 33 + 8]   # values of the lines psutil must ignore
VALS = [0, 0, 4, 8, 12, 132, 2048, 2 ** 20, 2 ** 31, 2 ** 32 + 4, 2 ** 45, 10 ** 13 + 7]
PATHS = [b"/usr/lib/x86_64-linux-gnu/libc.so.6", b"/usr/bin/python3.12", b"[heap]", b"[stack]", b"[vdso]", b"[anon:my name]",
         b"/tmp/a b/c d.so", b"/tmp/x:y:z", b"/dev/shm/foo", b"/memfd:jit", b"/tmp/Private_Dirty: 5 kB", b"/tmp/Pss: 7",
         b"/tmp/caf\xc3\xa9", b"/tmp/\xff\xfe", b"/SYSV00000000", b"anon_inode:[io_uring]", b"/tmp/tab\there", b"/tmp/a (deleted) b",
         b"/tmp/x (deleted)", b"/tmp/two  blanks", b"/tmp/Swap:", b"/tmp/e\xe2\x80\x83m", b"/opt/VmFlags: rd", b"/a",
         b"/tmp/n\nl", b"/tmp/two\n\nlines\n", b"/tmp/back\\012slash", b"(unreachable)/x y"]
# bytes at which bytes.splitlines() / str.splitlines() break but the kernel prints raw (it escapes only \n)
BREAK_PATHS = [b"/srv/up/report\r2024.so", b"/tmp/cr\r", b"/tmp/crlf\r\nx", b"/tmp/vt\x0bx", b"/tmp/ff\x0cx y", b"/tmp/fs\x1cx", b"/tmp/gs\x1dx",
               b"/tmp/rs\x1ex", b"/tmp/us\x1f", b"/tmp/raw\x85nel", b"/tmp/nel\xc2\x85x", b"/tmp/ls\xe2\x80\xa8ps\xe2\x80\xa9x", b"/tmp/a\rb\x0bc\x0cd\x1ce\x85f"]
EDGE_PATHS = [b"/tmp/trail ", b"/tmp/trail\t", b"/tmp/nbsp\xc2\xa0", b"/tmp/fs\x1c", b"/tmp/em\xe2\x80\x83", b"/tmp/nel\xc2\x85",
              b"/tmp/idsp\xe3\x80\x80", b"/tmp/two  ", b"/tmp/ogham\xe1\x9a\x80", b"/tmp/mmsp\xe2\x81\x9f", b"/tmp/ls\xe2\x80\xa8"]
FLAGS = ["rd", "wr", "ex", "sh", "mr", "mw", "me", "ms", "gd", "pf", "dw", "lo", "io", "sr", "rr", "dc", "de", "ac", "nr", "ht", "sf", "nl", "ar", "wf", "dd", "sd", "mm", "hg", "nh", "mg", "um", "uw"]
DELETED = b" (deleted)"
# names that are not fields: plain unknown ones, and attributes / methods / dunders of the namedtuple
BAD_NAMES = ["", "RSS", "rss ", "private", "size", "pss_dirty", "swap\x00", "vms\n", "uss_", "total", "percent", "café",
             "count", "index", "_fields", "_asdict", "_make", "_replace", "_field_defaults", "__class__", "__len__", "__doc__",
             "__getitem__", "__dict__", "__slots__", "__add__", "rss.real", "0", "-1"]


def _page():
    return os.sysconf("SC_PAGE_SIZE")


# ------------------------------------------------------------------ generators
def _hexs(b):
    return b.hex()


def _lines(rng, profile, figs, per_mapping_jitter):
    out = []
    for name, kind, key in ORDER:
        if key is not None and not profile.get(key):
            continue
        if name in profile.get("drop", ()):
            continue
        if per_mapping_jitter and kind != "fig" and rng.random() < 0.25:
            continue
        if name == "Private_Hugetlb" and per_mapping_jitter and rng.random() < 0.3:
            continue
        if kind == "fig":
            v = figs[name]
            pad = max(0, 16 - len(name) - 1 + max(0, 8 - len(str(v))) - 1) if rng.random() < 0.8 else rng.choice([0, 1, 3])
            out.append(["F", name, pad, str(v)])
        elif kind == "kb":
            v = rng.choice(DECOY)
            out.append(["O", name, max(0, 16 - len(name) - 1 + 8 - len(str(v)) - 1), str(v), True])
        elif kind == "num":
            v = rng.choice([0, 1])
            out.append(["O", name, max(0, 16 - len(name) - 1 + 8 - len(str(v)) - 1), str(v), False])
        else:
            out.append(["V", rng.sample(FLAGS, rng.randint(1, 7))])
    return out


def _mapping(rng, profile, pool, jitter, addr):
    size = rng.choice([1, 2, 33, 256, 2 ** 20]) * 4096
    figs = {n: rng.choice(VALS) for n in FIGS}
    path = b"" if rng.random() < 0.25 else rng.choice(pool)
    deleted = bool(path.startswith(b"/") and rng.random() < 0.2)
    return {"addr": "%08x-%08x" % (addr, addr + size), "perms": rng.choice(["r--p", "r-xp", "rw-p", "---p", "rw-s", "rwxp"]),
            "offset": "%08x" % rng.choice([0, 0x2000, 0x1ff000]), "dev": rng.choice(["00:00", "fe:00", "08:01", "103:05"]),
            "inode": str(rng.choice([0, 320173, 2 ** 32 + 5])), "pad": rng.choice([0, 1, 5, 26]), "path": _hexs(path),
            "deleted": deleted, "lines": _lines(rng, profile, figs, jitter)}, addr + size + rng.choice([0, 4096, 2 ** 30])


def _kname(p):
    """the kernel writes a newline in a name as \\012 (and escapes nothing else)"""
    return p.replace(b"\n", b"\\012")


def _shown(m):
    p = _kname(bytes.fromhex(m["path"]))
    return p + DELETED if m["deleted"] else p


def _ex_for(rng, ms, ambiguous):
    """files that exist for the caller; unambiguous unless asked otherwise"""
    ex = set()
    for m in ms:
        p = bytes.fromhex(m["path"])
        if not p:
            continue
        if m["deleted"]:
            if ambiguous and rng.random() < 0.5:
                ex.add(_shown(m))
        elif _shown(m).endswith(DELETED):
            if not (ambiguous and rng.random() < 0.5):
                ex.add(_shown(m))
    # a file that exists must look the same for every mapping showing that name
    return sorted(_hexs(x) for x in ex)


def _mappings(rng, n, edge=False):
    full_profile = rng.random() < 0.4     # a current kernel: every line present
    profile = {k: full_profile or rng.random() < 0.7 for k in PROFILE_KEYS}
    if not full_profile and rng.random() < 0.2:     # an old kernel: these figures on no mapping
        profile["drop"] = rng.sample(["Anonymous", "Swap", "Referenced", "Pss", "Shared_Dirty"], rng.randint(1, 3))
    pool = rng.sample(PATHS, rng.randint(1, 6))
    if rng.random() < 0.3:
        pool = pool[:3] + rng.sample(BREAK_PATHS, rng.randint(1, 3))
    if edge:
        pool = pool[:2] + rng.sample(EDGE_PATHS, rng.randint(1, 3))
    jitter = rng.random() < 0.3
    addr = rng.choice([0x400000, 0x55faa4233000, 0x7f0000000000])
    ms = []
    twins = rng.random() < 0.35       # later mappings repeat an earlier one's path AND figure lines
    for _ in range(n):
        m, addr = _mapping(rng, profile, pool, jitter, addr)
        if twins and ms and rng.random() < 0.6:
            src = rng.choice(ms)
            m["path"], m["deleted"] = src["path"], src["deleted"]
            m["lines"] = [list(l) for l in src["lines"]]
            if rng.random() < 0.3:      # same size of region, other perms
                m["perms"] = src["perms"]
        ms.append(m)
    return ms


def _fig_of(m, name):
    for l in m["lines"]:
        if l[0] == "F" and l[1] == name:
            return int(l[3])
    return 0


def _rollup(rng, ms, consistent=True):
    """consistent: True = sums of the listing; "rounded" = Pss as a real kernel rounds it (sum + 0..n-1); False = off"""
    tot = {n: sum(_fig_of(m, n) for m in ms) for n in FIGS}
    if consistent == "rounded":
        tot["Pss"] += rng.randint(0, max(0, len(ms) - 1))
    elif not consistent:
        tot[rng.choice(["Pss", "Swap", "Private_Clean"])] += rng.choice([len(ms) + 1, len(ms) + 7, 200])
    lines = []
    modern = rng.random() < 0.8
    dec = lambda name, pad: ["O", name, pad, str(rng.choice(DECOY)), True]
    for name in ["Rss", "Pss"]:
        lines.append(["F", name, max(0, 22 - len(name) - len(str(tot[name]))), str(tot[name])])
    if modern:
        for name in ["Pss_Dirty", "Pss_Anon", "Pss_File", "Pss_Shmem"]:
            lines.append(dec(name, 8))
    for name in ["Shared_Clean", "Shared_Dirty", "Private_Clean", "Private_Dirty", "Referenced", "Anonymous"]:
        lines.append(["F", name, max(0, 22 - len(name) - len(str(tot[name]))), str(tot[name])])
    if modern:
        for name in ["KSM", "LazyFree", "AnonHugePages", "ShmemPmdMapped", "FilePmdMapped", "Shared_Hugetlb"]:
            lines.append(dec(name, 5))
    if modern or tot["Private_Hugetlb"]:
        lines.append(["F", "Private_Hugetlb", 2, str(tot["Private_Hugetlb"])])
    lines.append(["F", "Swap", 10, str(tot["Swap"])])
    if modern or rng.random() < 0.5:
        lines.append(dec("SwapPss", 8))
        lines.append(dec("Locked", 8))
    lo = ms[0]["addr"].split("-")[0] if ms else "00400000"
    hi = ms[-1]["addr"].split("-")[1] if ms else "7ffffffff000"
    hdr = ("%s-%s ---p 00000000 00:00 0" % (lo, hi)).encode() + b" " * 26 + b"[rollup]"
    return {"hdr": _hexs(hdr), "lines": lines}


def _statm(rng):
    big = rng.random() < 0.2
    v = lambda: rng.choice([0, 1, 5, 123, 660, 2 ** 20, 2 ** 31, 2 ** 40]) if not big else rng.randint(0, 2 ** 52)
    return [str(v()), str(v()), str(v()), str(v()), rng.choice(["0", "0", "7"]), str(v()), rng.choice(["0", "0", "3"])]


def _pagesize(rng):
    return rng.choice([_page()] * 3 + [4096, 16384, 65536])


# what the caller's os.stat answers for a name ending in " (deleted)" (case field "probe": {hex name: action}):
#   "exists" | an errno name = "not there" for that reason | "eacces"/"eperm" = PermissionError | "real" = the real os.stat
#   (names whose last component exceeds NAME_MAX or that are longer than PATH_MAX fail with ENAMETOOLONG on their own)
ABSENT_ERRNOS = ["ENAMETOOLONG", "ELOOP", "EIO", "EOVERFLOW", "ENOTDIR", "ENOENT", "ESTALE", "ENOMEM", "ENXIO"]
LONG_PATHS = [b"/tmp/" + b"n" * 246, b"/tmp/" + b"n" * 250, b"/tmp/dir/" + b"\xc3\xa9" * 126 + b"xyz", b"/tmp/" + b"m" * 255,
              b"/" + b"/".join([b"d" * 200] * 21), b"/tmp/lnk/lnk/" + b"x" * 248]


def _probe_for(rng, ms, denied=False):
    """probe outcomes for the marked names of a listing: mostly 'not there' for assorted errnos"""
    pr = {}
    for m in ms:
        p = bytes.fromhex(m["path"])
        if not p or not _shown(m).endswith(DELETED):
            continue
        if m["deleted"]:
            k = rng.random()
            if p in LONG_PATHS:
                pr[_hexs(_shown(m))] = rng.choice(["real", "real", "ENAMETOOLONG"])
            elif denied and k < 0.5:
                pr[_hexs(_shown(m))] = rng.choice(["eacces", "eperm"])
            elif k < 0.6:
                pr[_hexs(_shown(m))] = rng.choice(ABSENT_ERRNOS)
    return pr


def _split_probe(case):
    """-> (names that exist, names answered with a permission error) for the Coq term"""
    ex = [bytes.fromhex(x) for x in case.get("ex", [])]
    den = []
    for h, a in sorted(case.get("probe", {}).items()):
        if a == "exists":
            ex.append(bytes.fromhex(h))
        elif a in ("eacces", "eperm"):
            den.append(bytes.fromhex(h))
    return ex, den


def _g_probe(case):
    ex, den = _split_probe(case)
    return "%s %s" % (G.lst([G.by(x) for x in ex]), G.lst([G.by(x) for x in den]))


RMODES = ["ok", "ok", "ok", "enoent", "esrch_open", "esrch_read"]
RMODE_NUM = {"ok": 0, "enoent": 1, "esrch_open": 2, "esrch_read": 2, "eacces": 3}


HEAVY = [False]   # large listings (12 / 25 mappings) only outside the quick tier


def _nmaps(rng):
    if HEAVY[0] and rng.random() < 0.04:
        return rng.choice([12, 25])
    return rng.choice([0, 1, 1, 1, 2, 2, 3, 3, 4, 6] if HEAVY[0] else [0, 1, 1, 1, 2, 2, 2, 3, 4])


def _full_case(rng, kind="full"):
    ms = _mappings(rng, _nmaps(rng) if kind == "full" else rng.choice([0, 1, 1, 2]), edge=rng.random() < 0.1)
    cons = rng.choice([True] * 6 + ["rounded"] * 3 + [False])
    c = {"kind": kind, "pagesize": _pagesize(rng), "has_rollup": rng.random() < 0.8, "rmode": rng.choice(RMODES + (["eacces"] if rng.random() < 0.2 else [])),
         "ex": _ex_for(rng, ms, False), "rollup": _rollup(rng, ms, cons), "ms": ms, "statm": _statm(rng)}
    src = "rollup" if (c["has_rollup"] and c["rmode"] == "ok") else ("denied" if c["has_rollup"] and c["rmode"] == "eacces" else
                                                                 ("fallback" if c["has_rollup"] else "smaps"))
    c["cls"] = "%s-%s%s" % (kind, src, "" if cons is True or src != "rollup" else "-rounded" if cons == "rounded" else "-inconsistent") if ms else "trivial"
    return c


def _text_line(l):
    if l[0] == "F":
        return l[1].encode() + b":" + b" " * (l[2] + 1) + l[3].encode() + b" kB"
    if l[0] == "O":
        return l[1].encode() + b":" + b" " * (l[2] + 1) + l[3].encode() + (b" kB" if l[4] else b"")
    return b"VmFlags:" + b"".join(b" " + f.encode() for f in l[1]) + b" "


def _text_block_lines(m):
    p = bytes.fromhex(m["path"])
    hdr = b" ".join(x.encode() for x in [m["addr"], m["perms"], m["offset"], m["dev"], m["inode"]])
    hdr += (b" " + b" " * m["pad"] + _shown(m)) if p else b" "   # _shown: newline of a name as \012
    return [hdr] + [_text_line(l) for l in m["lines"]]


def _text_smaps(ms):
    return b"".join(ln + b"\n" for m in ms for ln in _text_block_lines(m))


GARBAGE = [b"", b"   ", b"garbage", b"Private_Foo:      7 kB", b"Pss:", b"Pss:\t9 kB", b"Private_Clean:", b"Swap: x kB", b"VmFlags: ",
           b"VmFlags:", b"VmFlags: 12 rd", b"Name: value", b"Rss: -4 kB", b"Rss: 1_0 kB", b"Private: here: 9: 8 :7", b"Private_x:",
           b"00400000-00401000 r-xp", b"00400000-00401000 r-xp 0 0 0 a b c d e f g", b"Pss: 5 kB\r", b"Swap:  +3 kB", b"key:\x0b5",
           b"Privateer 9: 33", b" Pss: 5 kB", b"Pss_Anon:  5 kB", b"SwapPss:  6 kB", b"x:", b": 5"]


def _mutate(rng, ms):
    lines = [ln for m in ms for ln in _text_block_lines(m)]
    for _ in range(rng.randint(1, 3)):
        k = rng.random()
        if not lines:
            lines = [rng.choice(GARBAGE)]
        elif k < 0.2:
            del lines[rng.randrange(len(lines))]
        elif k < 0.35:
            i = rng.randrange(len(lines))
            lines.insert(i, lines[i])
        elif k < 0.7:
            lines.insert(rng.randint(0, len(lines)), rng.choice(GARBAGE))
        elif k < 0.8:
            lines = lines[:rng.randint(0, len(lines))]
        elif k < 0.9:
            i = rng.randrange(len(lines))
            lines[i] = lines[i][:rng.randint(0, len(lines[i]))]
        else:
            # a later mapping loses one of the figures an earlier one has
            idx = [i for i, ln in enumerate(lines) if ln.split(b":")[0] in (b"Swap", b"Anonymous", b"Referenced", b"Pss")]
            if idx:
                del lines[idx[-1]]
    sep = b"\n"
    data = sep.join(lines) + rng.choice([b"\n", b"\n", b"", b"\n\n", b" \n"])
    return data


# ------------------------------------------------------------------ big listings (mirror of Run.big_ms; checked by length + checksum)
_BIG_FIGS = {"Size": (7, 2000), "Rss": (5, 1000), "Pss": (3, 977), "Shared_Clean": (13, 300), "Shared_Dirty": (17, 10),
             "Private_Clean": (19, 400), "Private_Dirty": (23, 333), "Referenced": (5, 1000), "Anonymous": (23, 333), "Swap": (31, 41)}


def _big_lines(i, seed):
    g = lambda a, m: ((i * a + seed) % m) * 4
    f = lambda name, v: (name, v, True)
    return [f("Size", g(7, 2000) + 4), f("KernelPageSize", 4), f("MMUPageSize", 4), f("Rss", g(5, 1000)), f("Pss", g(3, 977)),
            f("Pss_Dirty", g(11, 50)), f("Shared_Clean", g(13, 300)), f("Shared_Dirty", g(17, 10)), f("Private_Clean", g(19, 400)),
            f("Private_Dirty", g(23, 333)), f("Referenced", g(5, 1000)), f("Anonymous", g(23, 333)), f("KSM", 0), f("LazyFree", g(29, 7)),
            f("AnonHugePages", 0), f("ShmemPmdMapped", 0), f("FilePmdMapped", 0), f("Shared_Hugetlb", 0),
            f("Private_Hugetlb", 2048 if i % 97 == 0 else 0), f("Swap", g(31, 41)), f("SwapPss", g(37, 13)), f("Locked", 0),
            ("THPeligible", i % 2, False)]


def _big_block(i, seed, shift):
    """-> list of (line kind, bytes with the newline)"""
    start = 139637976727552 + i * 1048576
    k = i % 3
    toks = [b"%012x-%012x" % (start, start + 4096), [b"r-xp", b"rw-p", b"r--s"][k], b"%08x" % (i % 16 * 4096),
            b"00:00" if k == 1 else b"fe:00", b"0" if k == 1 else b"%d" % (1000 + i)]
    path = b"/usr/lib/libbig.so.%d" % (i % 7) if k == 0 else b"" if k == 1 else b"/srv/data file:%d" % (i % 5)
    pad = shift if i == 0 else 2
    hdr = b" ".join(toks) + ((b" " + b" " * pad + path) if path else b" ")
    out = [("hdr", hdr + b"\n")]
    for name, v, kb in _big_lines(i, seed):
        sv = b"%d" % v
        kp = max(0, max(0, 16 - (len(name) + 1)) + max(0, 8 - len(sv)) - 1)
        out.append((name, name.encode() + b":" + b" " * (kp + 1) + sv + (b" kB" if kb else b"") + b"\n"))
    out.append(("VmFlags", b"VmFlags: rd mr mw me \n"))
    return out


def _big_bytes(n, seed, shift):
    return b"".join(ln for i in range(n) for _, ln in _big_block(i, seed, shift))


def _big_shift(n, seed, boundary, kind, where):
    """header padding of the first mapping such that [boundary] falls just before / inside / at the end of a [kind] line"""
    base = 2
    off = 0
    last = None
    for i in range(n):
        for name, ln in _big_block(i, seed, base):
            if name == kind:
                target = off if where == "before" else off + 7 if where == "inside" else off + len(ln) - 1
                if target > boundary:
                    # the previous [kind] line lies before the boundary: pad the first header by the difference
                    return base + (boundary - last)
                last = target
            off += len(ln)
    raise ValueError("listing shorter than the boundary")


def _adler(b):
    s1 = 1 + sum(b)
    # sum of the running sums: sum_{i} (1 + sum_{j<=i} b_j) = n + sum_j b_j * (n - j)
    n = len(b)
    import itertools
    s2 = n + sum(c * (n - j) for j, c in enumerate(b))
    return s1, s2


_SUMMED = ["Pss", "Private_Clean", "Private_Dirty", "Private_Hugetlb", "Swap"]
_PREV = {"Pss": "Rss", "Private_Clean": "Shared_Dirty", "Private_Dirty": "Private_Clean", "Private_Hugetlb": "Shared_Hugetlb", "Swap": "Private_Hugetlb"}


def _big_cases(tier):
    """(n mappings, seed, boundary, line kind, where, run the model too).  1 MiB is a piece boundary for every power-of-two piece
    size from 32 KiB up; 'before K' makes K the first line of a piece cut exactly there, 'before prev(K)' makes K the first line
    of a piece cut there and extended to the end of the line, 'inside' / 'end' cut a line in two / before its newline."""
    M = 1048576
    N1 = 1460       # just over 1 MiB
    specs = [(N1, 11, M, "Pss", "before", False), (N1, 12, M, _PREV["Private_Dirty"], "before", False),
             (N1, 14, M, "Private_Hugetlb", "end", False), (420, 16, 32768, "Swap", "before", True)]
    if tier == "thorough":
        specs += [(N1, 13, M, "Swap", "inside", False), (N1, 15, M, _PREV["Pss"], "before", False)]
    # the same alignments at 32 KiB on small files (cheap)
    for j, k in enumerate(_SUMMED):
        specs += [(64, 30 + j, 32768, k, "before", True), (64, 40 + j, 32768, _PREV[k], "before", False), (64, 50 + j, 32768, k, "inside", False)]
    if tier == "thorough":
        for j, k in enumerate(_SUMMED):
            specs += [(1600, 60 + j, M, k, "before", False), (1600, 70 + j, M, _PREV[k], "before", False), (1600, 80 + j, M, k, "end", False)]
        specs += [(6000, 21, M, "Pss", "inside", False), (6000, 22, 3 * M, _PREV["Private_Hugetlb"], "before", False),
                  (3000, 23, 2 * M, "Swap", "before", False), (1600, 24, M, "Pss", "before", True)]
    out = []
    for n, seed, boundary, kind, where, with_model in specs:
        shift = _big_shift(n, seed, boundary, kind, where)
        out.append({"kind": "big", "cls": "big-listing" if n >= 1000 else "big-listing-32k", "pagesize": _page(), "n": n, "seed": seed, "shift": shift,
                    "statm": ["700", "300", "100", "5", "0", "90", "0"], "with_model": with_model, "align": [boundary, kind, where]})
    return out


def _live_cases():
    """Snapshots of REAL /proc files of the running kernel, parsed into the records Spec's printers take."""
    from props import _c13_live as L
    out = []
    child = L.Child()
    try:
        smaps, rollup, statm = child.snapshot()
        nl = [os.fsencode(child.files) + b"/n\\012l.bin"]
        lit = os.fsencode(child.files) + b"/lit (deleted)"
        ms = L.parse_smaps(smaps, newline_names=nl)
        rl = L.parse_rollup(rollup)
        bad = L.check_rollup_sums(ms, rl)
        if bad:
            raise RuntimeError("C13 live: the kernel's roll-up is not the (rounded) sum of its listing: " + "; ".join(bad))
        out.append({"kind": "live", "cls": "live-snapshot", "pagesize": _page(), "ex": [_hexs(lit)], "ms": ms, "rollup": rl,
                    "statm": L.parse_statm(statm), "real": [smaps.hex(), rollup.hex(), statm.hex()],
                    "dir": _hexs(os.fsencode(child.files))})
    finally:
        child.close()
    # statm / smaps_rollup of other real processes (this one, its parent, init): printers only need the text
    for pid in [os.getpid(), os.getppid(), 1]:
        try:
            with open("/proc/%d/statm" % pid, "rb") as f:
                statm = f.read()
        except OSError:
            continue
        out.append({"kind": "live_statm", "cls": "live-statm", "pagesize": _page(), "statm": L.parse_statm(statm), "real": statm.hex()})
    out.append({"kind": "live_direct", "cls": "live-direct"})
    return out


def gen_cases(rng, tier):
    n = {"quick": 26, "thorough": 600, "search": 100}[tier]
    HEAVY[0] = tier == "thorough"
    cases = [] if tier == "search" else _live_cases()
    big = [] if tier == "search" else _big_cases(tier)
    # ---- handles: copies / deep copies taken inside or outside oneshot() blocks, kernel changes (wave 8; always the full block)
    if tier != "search":
        import sys
        from props import _c13_handles as H
        cases += H.systematic(sys.modules[__name__], rng)
        for _ in range(6 if tier == "quick" else 120):
            cases.append(H.random_history(sys.modules[__name__], rng))
    # ---- statm
    for _ in range(n):
        cases.append({"kind": "statm", "cls": "statm", "pagesize": _pagesize(rng), "statm": _statm(rng)})
    for content in [b"", b"\n", b"1 2 3 4 5 6\n", b"1 2 3 4 5 6 7 8 9\n", b"1 2 3 x 5 6 7\n", b"1 2 3 4 5 6 7", b" 1\t2  3 4 5 6 7 \n",
                    b"1 2 3\n4 5 6 7\n", b"-1 +2 3 4 5 6 7\n", b"1_0 2 3 4 5 6 7\n", b"1 2 3 4 5 6 7\n8 9\n", b"1 2 3 4 5 6 0x7\n"]:
        cases.append({"kind": "statm_raw", "cls": "statm-raw", "pagesize": _pagesize(rng), "content": content.hex(),
                      "mode": "ok", "ps": 0})
    for mode, ps in [("enoent", 0), ("enoent", 2), ("enoent", 1), ("esrch_open", 0), ("esrch_open", 1), ("eacces", 0), ("esrch_read", 0)]:
        cases.append({"kind": "statm_raw", "cls": "statm-err", "pagesize": _page(), "content": b"1 2 3 4 5 6 7\n".hex(), "mode": mode, "ps": ps})
    # ---- memory_full_info
    for _ in range(3 * n):
        cases.append(_full_case(rng))
    # ---- memory_maps
    for i in range(4 * n):
        edge = rng.random() < 0.12
        amb = rng.random() < 0.08
        ms = _mappings(rng, _nmaps(rng), edge=edge)
        if len(ms) >= 2 and rng.random() < 0.06:
            victim = rng.choice(ms[1:])
            figs = [l for l in victim["lines"] if l[0] == "F" and l[1] != "Private_Hugetlb"]
            if len(figs) > 1:
                victim["lines"].remove(rng.choice(figs))
        kprobe = rng.random()
        if ms and kprobe < 0.14:       # a deleted file with a long name: the marked name exceeds NAME_MAX / PATH_MAX
            victim = rng.choice(ms)
            victim["path"], victim["deleted"] = _hexs(rng.choice(LONG_PATHS[:4] if tier != "thorough" or rng.random() < 0.8 else LONG_PATHS)), True
            if len(ms) > 1 and rng.random() < 0.5:
                ms[0]["path"], ms[0]["deleted"] = victim["path"], True
        c = {"kind": "maps", "ms": ms, "ex": _ex_for(rng, ms, amb)}
        if kprobe < 0.45:
            c["probe"] = _probe_for(rng, ms, denied=(0.33 <= kprobe))
            c["ex"] = [x for x in c["ex"] if x not in c["probe"]]
        paths = [m["path"] for m in ms]
        c["cls"] = "trivial" if not ms else ("maps-probe-denied" if _denied_class(c) else "maps-probe-errno" if c.get("probe") else
                                             "maps-nonuniform-lines" if not _uniform(ms) else "maps-linebreak-bytes" if _break_class(ms) else "maps-newline-name" if any(b"\n" in bytes.fromhex(m["path"]) for m in ms) else
                                             "maps-old-kernel" if any(_missing(m) for m in ms) else "maps-identical-rows" if _twin_class(ms) else "maps-edge-blank" if _edge_class(c) else "maps-ambiguous-deleted" if amb else
                                             "maps-repeated-paths" if len(set(paths)) < len(paths) else "maps")
        cases.append(c)
    # ---- the existence probe answers EACCES / EPERM for an unlinked file's marked name (repaired by b718f0c)
    for _ in range(2 if tier != "thorough" else 20):
        ms = _mappings(rng, rng.choice([1, 2, 3]))
        victim = rng.choice(ms)
        victim["path"], victim["deleted"] = _hexs(rng.choice([b"/home/u/private/lib.so", b"/root/.cache/x y", b"/srv/locked/a:b"])), True
        c = {"kind": "maps", "ms": ms, "ex": _ex_for(rng, ms, False)}
        c["probe"] = {_hexs(_shown(victim)): rng.choice(["eacces", "eperm"])}
        c["ex"] = [x for x in c["ex"] if x not in c["probe"]]
        c["cls"] = "maps-probe-denied" if _uniform(ms) else "maps-nonuniform-lines"
        cases.append(c)
    # ---- malformed smaps / errors (model only)
    for _ in range(2 * n):
        ms = _mappings(rng, rng.choice([1, 2, 3]), edge=rng.random() < 0.2)
        data = _mutate(rng, ms)
        cases.append({"kind": "maps_raw", "cls": "maps-raw", "ps": 0, "ex": _ex_for(rng, ms, True), "mode": "ok", "content": data.hex()})
        if rng.random() < (0.6 if tier == "thorough" else 0.35):
            cases.append({"kind": "full_raw", "cls": "full-raw", "ps": 0, "pagesize": _page(), "has_rollup": rng.random() < 0.5,
                          "rmode": rng.choice(RMODES), "rollup": _mutate(rng, []).hex() if rng.random() < 0.5 else
                          (b"00400000-7fff00000000 ---p 00000000 00:00 0 [rollup]\n" + _mutate(rng, ms)).hex(),
                          "smode": "ok", "smaps": data.hex(), "tmode": "ok", "statm": b"10 20 30 40 0 50 0\n".hex()})
    for mode in ["enoent", "esrch_open", "esrch_read", "eacces"]:
        for ps in (0, 1, 2):
            cases.append({"kind": "maps_raw", "cls": "maps-err", "ps": ps, "ex": [], "mode": mode, "content": ""})
            cases.append({"kind": "full_raw", "cls": "full-err", "ps": ps, "pagesize": _page(), "has_rollup": True, "rmode": "enoent",
                          "rollup": "", "smode": mode, "smaps": "", "tmode": "ok", "statm": b"1 2 3 4 5 6 7\n".hex()})
            cases.append({"kind": "full_raw", "cls": "full-err", "ps": ps, "pagesize": _page(), "has_rollup": True, "rmode": "ok",
                          "rollup": b"x\nPss: 5 kB\n".hex(), "smode": "ok", "smaps": "", "tmode": mode, "statm": ""})
    for ps in (0, 1, 2):
        cases.append({"kind": "maps_raw", "cls": "maps-empty", "ps": ps, "ex": [], "mode": "ok", "content": rng.choice([b"", b"\n", b"  \n"]).hex()})
    # ---- memory_percent
    for _ in range(max(2, n // 12)):
        base = _full_case(rng, "percent")
        base["rmode"] = rng.choice(["ok", "ok", "enoent"])
        names = PFULL + BAD_NAMES
        for nm in names:
            c = dict(base)
            c["memtype"] = nm
            c["total"] = rng.choice([1, 4096, 8 * 2 ** 30, 2 ** 40 + 12345, 3 * 2 ** 44])
            c["cached"] = rng.random() < 0.5
            c["cls"] = "percent-" + ("field" if nm in PFULL else "unknown")
            cases.append(c)
        c = dict(base)
        c.update(memtype="rss", total=rng.choice([0, -5]), cached=False, cls="percent-nonpositive-total")
        cases.append(c)
    # the denominator over time: virtual_memory() calls, MemTotal changes, memory_percent calls in one interpreter
    for j in range(max(6, n // 3)):
        base = _full_case(rng, "percent")
        t = rng.choice([8 * 2 ** 20, 2 ** 20, 16 * 2 ** 20 + 4, 3 * 2 ** 30])      # kB
        ops = [["pct", rng.choice(PFULL)]] if rng.random() < 0.3 else []
        for _ in range(rng.choice([2, 2, 3])):
            t2 = max(1, rng.choice([t * 2, t // 2, t + 4, t - 4, t * 3 // 4]))
            ops += ([["vm"]] if rng.random() < 0.8 else []) + [["set", t2]] + ([["vm"]] if rng.random() < 0.7 else [])
            ops += [["pct", rng.choice(PFULL + ["bogus"])] for _ in range(rng.choice([1, 1, 2]))]
        if j == 0:
            ops = [["vm"], ["set", t // 2], ["vm"], ["pct", "rss"], ["set", t * 4], ["vm"], ["pct", "pss"], ["pct", "vms"]]
        cases.append({"kind": "percent_hist", "cls": "percent-history", "pagesize": base["pagesize"], "ex": base["ex"], "ms": base["ms"],
                      "statm": base["statm"], "total0": t, "ops": ops})
    # the name is validated first: unknown name x unreadable files / vanished process / zombie
    ok_statm, ok_smaps = b"10 20 30 40 0 50 0\n".hex(), _text_smaps(_mappings(rng, 1)).hex()
    states = [(0, "eacces", "eacces", "eacces"), (0, "ok", "eacces", "ok"), (2, "enoent", "enoent", "enoent"), (0, "enoent", "enoent", "ok"),
              (1, "esrch_open", "esrch_read", "esrch_open"), (2, "ok", "ok", "ok"), (0, "ok", "ok", "eacces"), (0, "esrch_read", "esrch_open", "ok")]
    for ps, rmode, smode, tmode in states:
        for nm in rng.sample(BAD_NAMES, 4 if tier != "thorough" else 12) + rng.sample(PFULL, 2):
            cases.append({"kind": "percent_raw", "cls": "percent-err-" + ("unknown" if nm not in PFULL else "field"), "ps": ps,
                          "pagesize": _page(), "has_rollup": rng.random() < 0.7, "rmode": rmode, "rollup": b"x\nPss: 5 kB\n".hex(),
                          "smode": smode, "smaps": ok_smaps, "tmode": tmode, "statm": ok_statm, "memtype": nm,
                          "total": 8 * 2 ** 30, "cached": rng.random() < 0.5})
    # the big listings cost seconds each under vm_compute: one per shard of the Coq evaluation (the corpus cases come first)
    ncorpus = len([f for f in os.listdir(os.path.join(os.path.dirname(os.path.dirname(os.path.abspath(__file__))), "corpus", ID)) if f.endswith(".json")])
    heavy = [c for c in big if c["n"] >= 400]
    for j, c in enumerate(heavy):
        pos = max(0, (j + 1) * SHARD - ncorpus - 1)
        cases.insert(min(pos, len(cases)), c)
    return cases + [c for c in big if c["n"] < 400]


_BREAKS = [b"\r", b"\x0b", b"\x0c", b"\x1c", b"\x1d", b"\x1e", b"\x85", b"\xe2\x80\xa8", b"\xe2\x80\xa9"]


def _break_class(ms):
    return any(any(b in bytes.fromhex(m["path"]) for b in _BREAKS) for m in ms)


def _denied_class(case):
    """an unlinked file (readable marker) whose existence probe answers EACCES / EPERM"""
    pr = case.get("probe", {})
    return any(m["deleted"] and pr.get(_hexs(_shown(m))) in ("eacces", "eperm") for m in case.get("ms", []))


def _figset(m):
    return frozenset(l[1] for l in m["lines"] if l[0] == "F" and l[1] in ROW_FIGS)


def _uniform(ms):
    return len({_figset(m) for m in ms}) <= 1


def _missing(m):
    return len(_figset(m)) < len(ROW_FIGS)


def _twin_class(ms):
    seen = set()
    for m in ms:
        k = (m["path"], m["deleted"], json.dumps([l for l in m["lines"] if l[0] == "F"]))
        if k in seen:
            return True
        seen.add(k)
    return False


def _py_edge_blank(p):
    s = p.decode("utf-8", "surrogateescape")
    return s.strip() != s


def _edge_class(case):
    return any(m["path"] and _py_edge_blank(_shown(m)) for m in case.get("ms", []))


# ------------------------------------------------------------------ generated tables
def gen_tables(impl_dir, out_dir):
    """Dump the record layouts of the CURRENT source (psutil._pslinux namedtuples) as Gallina
    literals into coq/Gen/C13_Tables.v; Properties/C13.v proves them equal to the documented
    layouts, so a reordered / renamed field breaks a proof.  Fails closed when a table is gone."""
    import subprocess
    code = ("import json, psutil._pslinux as L; "
            "print(json.dumps({n: list(getattr(L, n)._fields) for n in ('pmem', 'pfullmem', 'pmmap_grouped', 'pmmap_ext')}))")
    env = dict(os.environ)
    env["PYTHONPATH"] = impl_dir
    env["PYTHONDONTWRITEBYTECODE"] = "1"
    r = subprocess.run(["/venv/bin/python", "-c", code], env=env, cwd=impl_dir, stdout=subprocess.PIPE,
                       stderr=subprocess.PIPE, text=True, timeout=120)
    if r.returncode != 0:
        raise RuntimeError("C13 gen_tables: cannot read the record layouts:\n" + r.stderr[-1500:])
    t = json.loads(r.stdout)
    out = ["(* GENERATED by props/C13.py (gen_tables) from psutil/_pslinux.py of the tree under check -- do not edit. *)",
           "From PV Require Import Base.Bytes.", ""]
    for n in ("pmem", "pfullmem", "pmmap_grouped", "pmmap_ext"):
        out.append("Definition gen_%s_fields : list bytes :=\n  [%s]." % (n, ";\n   ".join('bs "%s"' % f for f in t[n])))
    txt = "\n".join(out) + "\n"
    path = os.path.join(out_dir, "C13_Tables.v")
    os.makedirs(out_dir, exist_ok=True)
    if not os.path.exists(path) or open(path).read() != txt:
        with open(path, "w") as f:
            f.write(txt)


# ------------------------------------------------------------------ Coq terms
def _g_line(l):
    if l[0] == "F":
        return "(LFig %s %s %s)" % (FIGS[l[1]], G.nat(l[2]), G.by(l[3]))
    if l[0] == "O":
        return "(LOther %s %s %s %s)" % (G.by(l[1]), G.nat(l[2]), G.by(l[3]), G.bo(l[4]))
    return "(LFlags %s)" % G.lst([G.by(f) for f in l[1]])


def _g_mapping(m):
    return "(Build_mapping %s %s %s %s %s %s %s %s %s)" % (
        G.by(m["addr"]), G.by(m["perms"]), G.by(m["offset"]), G.by(m["dev"]), G.by(m["inode"]), G.nat(m["pad"]),
        G.by(bytes.fromhex(m["path"])), G.bo(m["deleted"]), G.lst([_g_line(l) for l in m["lines"]]))


def _g_rollup(r):
    return "(Build_rollup %s %s)" % (G.by(bytes.fromhex(r["hdr"])), G.lst([_g_line(l) for l in r["lines"]]))


def _g_statm(s):
    return "(Build_statm %s)" % " ".join(G.by(x) for x in s)


def _g_ex(ex):
    return G.lst([G.by(bytes.fromhex(x)) for x in ex])


def _hx(h):
    return G.by(bytes.fromhex(h))


def coq_term(case):
    k = case["kind"]
    if k == "statm":
        return "run_statm %s %s" % (G.z(case["pagesize"]), _g_statm(case["statm"]))
    if k == "statm_raw":
        return "run_statm_raw %s %s %s %s" % (G.z(case["ps"]), G.z(case["pagesize"]), G.z(RMODE_NUM[case["mode"]]), _hx(case["content"]))
    if k == "full":
        return "run_full %s %s %s %s %s %s %s" % (
            G.z(case["pagesize"]), G.bo(case["has_rollup"]), G.z(RMODE_NUM[case["rmode"]]), _g_ex(case["ex"]),
            _g_rollup(case["rollup"]), G.lst([_g_mapping(m) for m in case["ms"]]), _g_statm(case["statm"]))
    if k == "full_raw":
        return "run_full_raw %s %s %s %s %s %s %s %s %s" % (
            G.z(case["ps"]), G.z(case["pagesize"]), G.bo(case["has_rollup"]), G.z(RMODE_NUM[case["rmode"]]), _hx(case["rollup"]),
            G.z(RMODE_NUM[case["smode"]]), _hx(case["smaps"]), G.z(RMODE_NUM[case["tmode"]]), _hx(case["statm"]))
    if k == "maps":
        return "run_maps %s %s" % (_g_probe(case), G.lst([_g_mapping(m) for m in case["ms"]]))
    if k == "maps_raw":
        return "run_maps_raw %s %s %s %s" % (G.z(case["ps"]), _g_probe(case), G.z(RMODE_NUM[case["mode"]]), _hx(case["content"]))
    if k == "big":
        return "run_big %s %s %s %s %s %s" % (G.z(case["pagesize"]), G.nat(case["n"]), G.z(case["seed"]), G.nat(case["shift"]),
                                              _g_statm(case["statm"]), G.bo(case["with_model"]))
    if k == "live":
        return "run_live %s %s %s %s %s" % (G.z(case["pagesize"]), _g_ex(case["ex"]), _g_rollup(case["rollup"]),
                                            G.lst([_g_mapping(m) for m in case["ms"]]), _g_statm(case["statm"]))
    if k == "live_statm":
        return "run_statm %s %s" % (G.z(case["pagesize"]), _g_statm(case["statm"]))
    if k == "live_direct":
        return "JL []"
    if k == "handles":
        import sys
        from props import _c13_handles as H
        return H.coq_term(sys.modules[__name__], case)
    if k == "percent_hist":
        ops = []
        for o in case["ops"]:
            ops.append("HVM" if o[0] == "vm" else "(HSet %s)" % G.z(o[1] * 1024) if o[0] == "set" else "(HPct %s)" % G.by(o[1]))
        return "run_percent_hist %s %s %s %s %s %s" % (G.z(case["pagesize"]), _g_ex(case["ex"]), G.lst([_g_mapping(m) for m in case["ms"]]),
                                                      _g_statm(case["statm"]), G.z(case["total0"] * 1024), G.lst(ops))
    if k == "percent_raw":
        return "run_percent_raw %s %s %s %s %s %s %s %s %s %s %s" % (
            G.z(case["ps"]), G.z(case["pagesize"]), G.bo(case["has_rollup"]), G.z(RMODE_NUM[case["rmode"]]), _hx(case["rollup"]),
            G.z(RMODE_NUM[case["smode"]]), _hx(case["smaps"]), G.z(RMODE_NUM[case["tmode"]]), _hx(case["statm"]),
            G.by(case["memtype"]), G.z(case["total"]))
    if k == "percent":
        return "run_percent %s %s %s %s %s %s %s %s %s" % (
            G.z(case["pagesize"]), G.bo(case["has_rollup"]), G.z(RMODE_NUM[case["rmode"]]), _g_ex(case["ex"]),
            _g_rollup(case["rollup"]), G.lst([_g_mapping(m) for m in case["ms"]]), _g_statm(case["statm"]),
            G.by(case["memtype"]), G.z(case["total"]))
    raise ValueError(k)


_HEXINT = __import__("re").compile(r"^-?0x[0-9a-fA-F]+$")


def _decode(x):
    """inverse of Run.jz / Run.jpack: JC "0x1f" [] -> 31 ; JC "x<hex>" [] -> {"b": hex}"""
    if isinstance(x, list):
        return [_decode(y) for y in x]
    if isinstance(x, dict) and "t" in x:
        t, a = x["t"], x["a"]
        if not a:
            if _HEXINT.match(t):
                return int(t, 16)
            if t.startswith("x") and len(t) % 2 == 1 and all(ch in "0123456789abcdef" for ch in t[1:]):
                return {"b": t[1:]}
        a = [_decode(y) for y in a]
        if t == "X" and all(isinstance(y, dict) and "b" in y for y in a):
            return {"b": "".join(y["b"] for y in a)}
        return {"t": t, "a": a}
    return x


def coq_struct(case, raw):
    raw = _decode(raw)
    k = case["kind"]
    if k == "statm":
        return {"printed": raw[0], "model": raw[1], "spec": raw[2]}
    if k in ("statm_raw", "full_raw"):
        return {"model": raw[0], "spec": None}
    if k in ("full", "percent"):
        return {"printed": raw[:3], "model": raw[3], "spec": raw[4]}
    if k == "maps":
        return {"printed": raw[0], "model": [raw[1], raw[2]], "spec": None if raw[3] is None else [raw[3], raw[4]]}
    if k == "maps_raw":
        return {"model": [raw[0], raw[1]], "spec": None}
    if k == "percent_raw":
        return {"model": raw[0], "spec": raw[1]}
    if k == "percent_hist":
        return {"printed": raw[:2], "model": raw[2], "spec": raw[3]}
    if k == "handles":
        return {"printed": raw[0], "model": raw[1], "spec": raw[2]}
    if k == "big":
        return {"printed": raw[5], "len": raw[0], "cksum": [raw[1], raw[2]], "model": raw[3], "spec": raw[4]}
    if k == "live":
        return {"printed": raw[:3], "model": raw[3], "spec": raw[4], "hyps": raw[5]}
    if k == "live_statm":
        return {"printed": raw[0], "model": raw[1], "spec": raw[2]}
    if k == "live_direct":
        return {"model": None, "spec": LIVE_EXPECT}
    raise ValueError(k)


# ------------------------------------------------------------------ judging
# what psutil must report about the helper's chosen mappings over the REAL /proc: (own name, perms, size in bytes / page size)
def _live_expect():
    from props import _c13_live as L
    rows = [[B(name.replace(b"\n", b"\\012")), perms, pages] for name, perms, pages, _ in L.CHOSEN]
    rows.append([B(L.MEMFD[0]), L.MEMFD[1], L.MEMFD[2]])
    return Val(sorted(rows, key=lambda r: r[0]["b"]))


LIVE_EXPECT = _live_expect()


def finding_key(case, coq):
    # memory_maps-path-edge-blank was repaired by /repo commit c15178c, memory_maps-probe-permission by b718f0c:
    # no open finding class
    return None


def _is_val(x):
    return isinstance(x, dict) and x.get("t") == "Val"


def _sorted_grouped(o):
    if _is_val(o):
        return Val(sorted(o["a"][0], key=lambda r: r[0]["b"]))
    return o


def _ratio_close(a, b):
    """a, b: canonical outcomes holding [num, den]"""
    if _is_val(a) and _is_val(b):
        x = Fraction(a["a"][0][0], a["a"][0][1])
        y = Fraction(b["a"][0][0], b["a"][0][1])
        return abs(x - y) <= Fraction(1, 2 ** 48) * max(1, abs(y))
    return a == b


def judge(case, coq, impl):
    from pv.core import Verdict, default_judge
    k = case["kind"]
    if isinstance(impl, dict) and impl.get("t") == "Skip":
        return Verdict("skip", str(impl.get("a")))
    if k == "maps":
        spec, model = coq["spec"], coq["model"]
        if spec is not None:
            if impl[0] != spec[0]:
                return Verdict("violation", "memory_maps(grouped=False) differs from the kernel's mapping list")
            if _sorted_grouped(impl[1]) != _sorted_grouped(spec[1]):
                return Verdict("violation", "memory_maps(grouped=True) is not the per-path sum of the mappings")
        if impl != model:
            return Verdict("corr", "impl != model")
        return Verdict("ok")
    if k == "big":
        spec, model = coq["spec"], coq["model"]
        if spec is None:
            raise RuntimeError("C13 big: the generated listing is outside the specification's domain")
        want_full, want_rows, hugetlb = spec
        names = ["smaps as the source (no smaps_rollup support)", "smaps_rollup ENOENT", "smaps_rollup ESRCH at open", "smaps_rollup ESRCH at read",
                 "inside oneshot()", "smaps_rollup as the source"]
        for nm, got in zip(names, impl[:6]):
            if got != want_full:
                return Verdict("violation", "big listing (%d mappings): memory_full_info with %s is not the sum over all mappings" % (case["n"], nm))
        if impl[6] != Val(want_rows):
            return Verdict("violation", "big listing: the rows of memory_maps(grouped=False) do not add up to the kernel's accounting")
        if model is not None and impl[0] != model:
            return Verdict("corr", "impl != model on the big listing")
        return Verdict("ok")
    if k == "live":
        spec, model = coq["spec"], coq["model"]
        if spec is None:
            # the running kernel's files must be inside the domain of the theorems: a spec problem, not a verdict
            raise RuntimeError("C13 live: the real snapshot is outside the specification's domain "
                               "(wf_kernel+statm, wf_rollup, consistent, rounded, uniform_figs) = %r" % (coq.get("hyps"),))
        names = ["memory_full_info via smaps_rollup", "memory_full_info via smaps", "memory_maps(grouped=False)", "memory_maps(grouped=True)"]
        for i, nm in enumerate(names):
            a, b = (impl[i], spec[i]) if i < 3 else (_sorted_grouped(impl[i]), _sorted_grouped(spec[i]))
            if a != b:
                return Verdict("violation", "live kernel snapshot: %s differs from the kernel's accounting" % nm)
        if impl != model:
            return Verdict("corr", "impl != model on the live snapshot")
        return Verdict("ok")
    if k == "live_direct":
        if impl != coq["spec"]:
            return Verdict("violation", "over the real /proc, the chosen mappings of a real child are not reported as mapped")
        return Verdict("ok")
    if k == "handles":
        import sys
        from props import _c13_handles as H
        return H.judge(sys.modules[__name__], case, coq, impl)
    if k == "percent_hist":
        spec, model = coq["spec"], coq["model"]
        same = lambda a, b: isinstance(a, list) and isinstance(b, list) and len(a) == len(b) and all(_ratio_close(x, y) for x, y in zip(a, b))
        if spec is not None and not same(impl, spec):
            return Verdict("violation", "memory_percent does not divide by the total reported by the last virtual_memory() call")
        if not same(impl, model):
            return Verdict("corr", "impl != model")
        return Verdict("ok")
    if k in ("percent", "percent_raw"):
        spec, model = coq["spec"], coq["model"]
        if spec is not None and not _ratio_close(impl, spec):
            return Verdict("violation", "memory_percent differs from 100*field/total (or accepts/rejects the wrong names)")
        if not _ratio_close(impl, model):
            return Verdict("corr", "impl != model")
        return Verdict("ok")
    return default_judge(None, case, coq, impl)


# ------------------------------------------------------------------ implementation side
MEMINFO = (b"MemTotal:       %d kB\nMemFree:          100 kB\nMemAvailable:     200 kB\nBuffers:           10 kB\nCached:            20 kB\n"
           b"SwapCached:         0 kB\nActive:            30 kB\nInactive:          40 kB\nActive(anon):      10 kB\nInactive(anon):    10 kB\n"
           b"Active(file):      20 kB\nInactive(file):    30 kB\nUnevictable:        0 kB\nMlocked:            0 kB\nSwapTotal:          0 kB\n"
           b"SwapFree:           0 kB\nDirty:              0 kB\nWriteback:          0 kB\nAnonPages:         20 kB\nMapped:            10 kB\n"
           b"Shmem:              4 kB\nKReclaimable:       8 kB\nSlab:              16 kB\nSReclaimable:       8 kB\nSUnreclaim:         8 kB\n")


class _Raiser:
    """a file that fails when read (ESRCH at read time, as smaps_rollup does)"""

    def __init__(self, exc):
        self.exc = exc

    def __enter__(self):
        return self

    def __exit__(self, *a):
        return False

    def __iter__(self):
        raise self.exc

    def read(self, *a):
        raise self.exc

    def readline(self, *a):
        raise self.exc

    def close(self):
        pass


def impl_setup(env):
    """HAS_PROC_SMAPS / HAS_PROC_SMAPS_ROLLUP are probed on /proc/<own pid>/ at import: make both probes succeed
    whatever the kernel of this machine offers (the flag is then set per case)."""
    import sys
    from pv.shim import Shim
    assert "psutil" not in sys.modules
    d = os.path.join(env["work"], "probe")
    os.makedirs(d, exist_ok=True)
    m = {}
    for n in ("smaps", "smaps_rollup"):
        p = os.path.join(d, n)
        open(p, "wb").close()
        m["/proc/%d/%s" % (os.getpid(), n)] = p
    sh = Shim(m)
    sh.install()
    try:
        import psutil  # noqa
        from psutil import _pslinux
        assert _pslinux.HAS_PROC_SMAPS and _pslinux.HAS_PROC_SMAPS_ROLLUP
    finally:
        sh.uninstall()


def _mem_conv(names):
    def conv(r):
        by_name = [getattr(r, n) for n in names]
        if list(r) != by_name or list(r._fields) != names:
            return T("FieldLayout", list(r._fields), list(r))
        return by_name
    return conv


def _rows_conv(rows):
    out = []
    for r in rows:
        nums = [getattr(r, a) for a in ROW_ATTRS]
        if list(r._fields) != ["addr", "perms", "path"] + ROW_ATTRS or list(r[3:]) != nums:
            return T("FieldLayout", list(r._fields))
        out.append([B(r.addr), B(r.perms), B(r.path), nums])
    return out


def _grouped_conv(rows):
    out = []
    for r in rows:
        nums = [getattr(r, a) for a in ROW_ATTRS]
        if list(r._fields) != ["path"] + ROW_ATTRS or list(r[1:]) != nums:
            return T("FieldLayout", list(r._fields))
        out.append([B(r.path), nums])
    return out


def _impl_live_direct(env):
    """psutil over the REAL /proc of a real child whose mappings are known"""
    import psutil
    from psutil import _pslinux
    from props import _c13_live as L
    old = psutil.PROCFS_PATH
    child = L.Child(base=env["work"])
    try:
        psutil.PROCFS_PATH = "/proc"
        _pslinux.HAS_PROC_SMAPS_ROLLUP = True
        p = psutil.Process(child.pid)
        base = os.fsencode(child.files) + b"/"
        page = _page()
        want = {name.replace(b"\n", b"\\012") for name, _, _, _ in L.CHOSEN}

        def conv(rows):
            out = []
            for r in rows:
                b = os.fsencode(r.path)
                if b.startswith(base) and b[len(base):] in want:
                    out.append([B(b[len(base):]), r.perms, r.size // page])
                elif b == L.MEMFD[0]:
                    out.append([B(b), r.perms, r.size // page])
            return sorted(out, key=lambda r: r[0]["b"])
        res = outcome(lambda: p.memory_maps(grouped=False), conv)
        # the three views agree with each other and with statm on the paused child
        statm = [int(x) for x in child.read("statm").split()]
        try:
            mi, mfi = p.memory_info(), p.memory_full_info()
            rows = p.memory_maps(grouped=False)
            grouped = p.memory_maps(grouped=True)
        except Exception as e:       # an answer of psutil (judged), not a failure of the harness
            from pv.canon import exc_name
            return T("LiveMismatch", "psutil raised over the real /proc", exc_name(e))
        if (mi.rss, mi.vms, mi.shared) != (statm[1] * page, statm[0] * page, statm[2] * page):
            return T("LiveMismatch", "memory_info vs statm", list(mi), statm)
        if sum(r.rss for r in rows) != sum(g.rss for g in grouped) or sum(r.pss for r in rows) != sum(g.pss for g in grouped):
            return T("LiveMismatch", "grouped rows do not add up to the ungrouped rows")
        if mfi.uss != sum(r.private_clean + r.private_dirty for r in rows) or mfi.swap != sum(r.swap for r in rows):
            return T("LiveMismatch", "uss / swap of memory_full_info vs the rows", list(mfi))
        if not (0 <= mfi.pss - sum(r.pss for r in rows) < 1024 * max(1, len(rows))):
            return T("LiveMismatch", "pss of memory_full_info vs the rows", mfi.pss, sum(r.pss for r in rows))
        return res
    finally:
        psutil.PROCFS_PATH = old
        child.close()


def _check_printed(what, printed, real):
    if printed != real:
        pl, rl = printed.split(b"\n"), real.split(b"\n")
        for i, (a, b) in enumerate(zip(pl, rl)):
            if a != b:
                raise RuntimeError("C13 live: %s line %d: the kernel prints %r, the specification's printer %r" % (what, i + 1, b, a))
        raise RuntimeError("C13 live: %s: the kernel prints %d lines, the specification's printer %d" % (what, len(rl), len(pl)))


def _impl_big(case, coq, env):
    import builtins
    import psutil
    from psutil import _pslinux
    from pv import fakeproc
    data = _big_bytes(case["n"], case["seed"], case["shift"])
    if len(data) != coq["len"] or list(_adler(data)) != coq["cksum"]:
        raise RuntimeError("C13 big: the harness's bytes differ from Spec.k_smaps (big_ms): %d bytes / %r vs %r / %r"
                           % (len(data), _adler(data), coq["len"], coq["cksum"]))
    b, kind, where = case["align"]
    probe = data[b:b + 24]
    at = {"before": data[b - 1:b] == b"\n" and probe.startswith(kind.encode() + b":"),
          "inside": data.rfind(b"\n", 0, b) + 1 + 7 == b and data[b - 7:].startswith(kind.encode()[:7]),
          "end": data[b:b + 1] == b"\n" and data[data.rfind(b"\n", 0, b) + 1:b].startswith(kind.encode() + b":")}[where]
    if not at:
        raise RuntimeError("C13 big: offset %d is not %s a %s line: %r" % (b, where, kind, data[b - 30:b + 30]))
    root = os.path.join(env["work"], "proc")
    fp = fakeproc.FakeProc(root)
    fakeproc.attach(psutil, root)
    pid = 4343
    fp.add(pid)
    p = psutil.Process(pid)
    fp.write(pid, "smaps", data)
    fp.write(pid, "statm", unB(coq["printed"]))
    # a roll-up whose lines are the sums of the listing's lines
    tot = collections_counter = {}
    for i in range(case["n"]):
        for name, v, kb in _big_lines(i, case["seed"]):
            tot[name] = tot.get(name, 0) + v
    rollup = b"7f0000000000-7fffffffffff ---p 00000000 00:00 0                          [rollup]\n" + b"".join(
        b"%s:%s%d kB\n" % (nm.encode(), b" " * max(1, 24 - len(nm) - 1 - len(str(tot[nm]))), tot[nm])
        for nm in ["Rss", "Pss", "Pss_Dirty", "Shared_Clean", "Shared_Dirty", "Private_Clean", "Private_Dirty", "Referenced", "Anonymous",
                   "KSM", "LazyFree", "AnonHugePages", "ShmemPmdMapped", "FilePmdMapped", "Shared_Hugetlb", "Private_Hugetlb", "Swap", "SwapPss", "Locked"])
    rpath = os.path.join(root, str(pid), "smaps_rollup")
    real_open = builtins.open
    mode = [None]

    def fake_open(file, *a, **kw):
        if file == rpath and mode[0] == "esrch_open":
            raise ProcessLookupError(errno.ESRCH, "No such process", file)
        if file == rpath and mode[0] == "esrch_read":
            return _Raiser(ProcessLookupError(errno.ESRCH, "No such process"))
        return real_open(file, *a, **kw)
    saved = (_pslinux.PAGESIZE, _pslinux.HAS_PROC_SMAPS_ROLLUP)
    builtins.open = fake_open
    conv = _mem_conv(PFULL)
    out = []
    try:
        _pslinux.PAGESIZE = case["pagesize"]
        _pslinux.HAS_PROC_SMAPS_ROLLUP = False
        out.append(outcome(p.memory_full_info, conv))                      # no roll-up support
        _pslinux.HAS_PROC_SMAPS_ROLLUP = True
        out.append(outcome(p.memory_full_info, conv))                      # ENOENT (file absent)
        fp.write(pid, "smaps_rollup", rollup)
        for m in ("esrch_open", "esrch_read"):
            mode[0] = m
            out.append(outcome(p.memory_full_info, conv))
        mode[0] = None
        os.remove(rpath)
        pp = psutil.Process(pid)
        with pp.oneshot():
            outcome(lambda: pp.memory_maps(grouped=False))                 # fills the oneshot cache of the smaps file
            out.append(outcome(pp.memory_full_info, conv))
        fp.write(pid, "smaps_rollup", rollup)
        out.append(outcome(p.memory_full_info, conv))                      # the roll-up as the source
        out.append(outcome(lambda: p.memory_maps(grouped=False),
                           lambda rows: [sum(r.private_clean + r.private_dirty for r in rows), sum(r.pss for r in rows),
                                         sum(r.swap for r in rows), len(rows)]))
        return out
    finally:
        builtins.open = real_open
        _pslinux.PAGESIZE, _pslinux.HAS_PROC_SMAPS_ROLLUP = saved


def impl_run(case, coq, env):
    if case["kind"] == "live_direct":
        return _impl_live_direct(env)
    if case["kind"] == "big":
        return _impl_big(case, coq, env)
    if case["kind"] == "handles":
        import sys
        from props import _c13_handles as H
        return H.impl_run(sys.modules[__name__], case, coq, env)
    if case["kind"] == "live":
        for what, pr, real in zip(("smaps", "smaps_rollup", "statm"), coq["printed"], case["real"]):
            _check_printed(what, unB(pr), bytes.fromhex(real))
    if case["kind"] == "live_statm":
        _check_printed("statm", unB(coq["printed"]), bytes.fromhex(case["real"]))
    return _impl_run(case, coq, env)


def _impl_run(case, coq, env):
    import builtins
    import psutil
    from psutil import _pslinux
    from pv import fakeproc
    if _pslinux.ENCODING.lower().replace("-", "") != "utf8":
        return T("Skip", "filesystem encoding is not utf-8")
    k = case["kind"]
    root = os.path.join(env["work"], "proc")
    fp = fakeproc.FakeProc(root)
    fakeproc.attach(psutil, root)
    pid = 4343
    ps = case.get("ps", 0)
    fp.add(pid, state=b"Z" if ps == 1 else b"S")
    p = psutil.Process(pid)
    if ps == 2:
        os.remove(os.path.join(root, str(pid), "stat"))
    files = {}   # name -> (mode, content)
    if k in ("statm", "live_statm"):
        files["statm"] = ("ok", unB(coq["printed"]))
    elif k == "live":
        files["smaps"] = ("ok", bytes.fromhex(case["real"][0]))
        files["smaps_rollup"] = ("ok", bytes.fromhex(case["real"][1]))
        files["statm"] = ("ok", bytes.fromhex(case["real"][2]))
    elif k == "statm_raw":
        files["statm"] = (case["mode"], bytes.fromhex(case["content"]))
    elif k in ("full", "percent"):
        files["smaps"] = ("ok", unB(coq["printed"][0]))
        files["smaps_rollup"] = (case["rmode"], unB(coq["printed"][1]))
        files["statm"] = ("ok", unB(coq["printed"][2]))
    elif k in ("full_raw", "percent_raw"):
        files["smaps"] = (case["smode"], bytes.fromhex(case["smaps"]))
        files["smaps_rollup"] = (case["rmode"], bytes.fromhex(case["rollup"]))
        files["statm"] = (case["tmode"], bytes.fromhex(case["statm"]))
    elif k == "percent_hist":
        files["smaps"] = ("ok", unB(coq["printed"][0]))
        files["smaps_rollup"] = ("enoent", b"")
        files["statm"] = ("ok", unB(coq["printed"][1]))
    elif k == "maps":
        files["smaps"] = ("ok", unB(coq["printed"]))
    elif k == "maps_raw":
        files["smaps"] = (case["mode"], bytes.fromhex(case["content"]))
    faults = {}
    for name, (mode, content) in files.items():
        path = os.path.join(root, str(pid), name)
        if mode != "enoent":
            fp.write(pid, name, content)
        if mode not in ("ok", "enoent"):
            faults[path] = mode
    ex = {bytes.fromhex(x) for x in case.get("ex", [])}
    probe = {bytes.fromhex(h): a for h, a in case.get("probe", {}).items()}
    real_open, real_stat = builtins.open, os.stat

    def fake_open(file, *a, **kw):
        mode = faults.get(file) if isinstance(file, str) else None
        if mode == "esrch_open":
            raise ProcessLookupError(errno.ESRCH, "No such process", file)
        if mode == "eacces":
            raise PermissionError(errno.EACCES, "Permission denied", file)
        if mode == "esrch_read":
            return _Raiser(ProcessLookupError(errno.ESRCH, "No such process"))
        return real_open(file, *a, **kw)

    def fake_stat(path, *a, **kw):
        if isinstance(path, (str, bytes)):
            b = os.fsencode(path)
            if b.endswith(DELETED) and not b.startswith(os.fsencode(env["work"])):
                act = probe.get(b, "exists" if b in ex else "ENOENT")
                if act == "exists":
                    return real_stat("/")
                if act == "real":          # e.g. a last component > NAME_MAX: the real file system answers
                    return real_stat(path, *a, **kw)
                if act in ("eacces", "eperm"):
                    raise PermissionError(errno.EACCES if act == "eacces" else errno.EPERM, os.strerror(errno.EACCES), path)
                code = getattr(errno, act)
                raise OSError(code, os.strerror(code), path)
        return real_stat(path, *a, **kw)

    saved = {"PAGESIZE": _pslinux.PAGESIZE, "ROLLUP": _pslinux.HAS_PROC_SMAPS_ROLLUP, "TOTAL": psutil._TOTAL_PHYMEM,
             "vm": psutil.virtual_memory}
    builtins.open = fake_open
    os.stat = fake_stat
    try:
        if "pagesize" in case:
            _pslinux.PAGESIZE = case["pagesize"]
        if "has_rollup" in case:
            _pslinux.HAS_PROC_SMAPS_ROLLUP = bool(case["has_rollup"])
        if k in ("statm", "statm_raw", "live_statm"):
            return outcome(p.memory_info, _mem_conv(PMEM))
        if k == "live":
            out = []
            for flag in (True, False):
                _pslinux.HAS_PROC_SMAPS_ROLLUP = flag
                out.append(outcome(p.memory_full_info, _mem_conv(PFULL)))
            out.append(outcome(lambda: p.memory_maps(grouped=False), _rows_conv))
            out.append(outcome(lambda: p.memory_maps(grouped=True), _grouped_conv))
            return out
        if k in ("full", "full_raw"):
            return outcome(p.memory_full_info, _mem_conv(PFULL))
        if k in ("maps", "maps_raw"):
            return [outcome(lambda: p.memory_maps(grouped=False), _rows_conv),
                    outcome(lambda: p.memory_maps(grouped=True), _grouped_conv)]
        if k == "percent_hist":
            # a fresh interpreter: nothing cached yet; the REAL psutil.virtual_memory() over the fake /proc/meminfo
            psutil._TOTAL_PHYMEM = None
            _pslinux.HAS_PROC_SMAPS_ROLLUP = False
            meminfo = os.path.join(root, "meminfo")

            def set_total(kb):
                with real_open(meminfo, "wb") as f:
                    f.write(MEMINFO % kb)

            def conv(x):
                fr = Fraction(x)
                return [fr.numerator, fr.denominator]
            set_total(case["total0"])
            out = []
            for o in case["ops"]:
                if o[0] == "vm":
                    psutil.virtual_memory()
                elif o[0] == "set":
                    set_total(o[1])
                else:
                    out.append(outcome(lambda: p.memory_percent(o[1]), conv))
            return out
        if k in ("percent", "percent_raw"):
            total = case["total"]
            class _VM:
                pass
            vm = _VM()
            vm.total = total
            psutil.virtual_memory = lambda: vm
            psutil._TOTAL_PHYMEM = total if case["cached"] else None

            def conv(x):
                fr = Fraction(x)
                return [fr.numerator, fr.denominator]
            return outcome(lambda: p.memory_percent(case["memtype"]), conv)
        raise ValueError(k)
    finally:
        builtins.open = real_open
        os.stat = real_stat
        _pslinux.PAGESIZE = saved["PAGESIZE"]
        _pslinux.HAS_PROC_SMAPS_ROLLUP = saved["ROLLUP"]
        psutil._TOTAL_PHYMEM = saved["TOTAL"]
        psutil.virtual_memory = saved["vm"]


MANIFEST = {
    "text": "Theorems (Coq, 34, no axioms): for every statm record memory_info is the seven page counts times the page size as pmem(rss, vms, shared, text, lib, "
            "data, dirty); the four namedtuple layouts of the code (dumped into coq/Gen/C13_Tables.v on every run) are the documented ones used by model "
            "and spec; for every kernel-formatted smaps listing (any number of mappings, any line set incl. all non-figure lines with arbitrary values, "
            "any path bytes) uss/pss/swap are the sums of the private/proportional/swapped kB over all mappings x 1024; a roll-up whose lines are the "
            "sums of the listing's lines gives the same record, as does the ENOENT/ESRCH fallback, and a kernel-rounded roll-up differs in pss only, by "
            "less than one kB per mapping; memory_maps(grouped=False) is one row per mapping with its own address, permissions, path as the kernel "
            "shows it ('[anon]' if none, ' (deleted)' marker removed, newline as \\012) and ten figures for every listing whose line set is the same "
            "on every mapping (the never-cleared dict is refuted by a witness otherwise) and for every answer of the os.stat probe of a marked name "
            "(there / not there for whatever errno / permission denied: one row per record, in order; the behaviour before commit b718f0c is refuted); the grouped view has one row per distinct path, each "
            "field the sum over that path's mappings; memory_percent is 100*field/total for exactly the ten field names and ValueError for every "
            "other name (attribute-like names included) whatever the process state, and over every history of virtual_memory() calls and MemTotal changes "
            "the denominator is the total reported by the last virtual_memory() call; over every history of oneshot() blocks, copy.copy / copy.deepcopy, fresh "
            "Process objects, kernel changes and accessor calls on any handle (coq/C13/Handles.v) a call made while no block is open answers from the kernel state "
            "at call time (C13_handles_outside_blocks / _history / _memory). The path decoding used before commit c15178c is kept as "
            "clean_path_legacy and refuted by a witness. The model is tied to the code by running both on generated kernel files and on a "
            "malformed stream through the public API over a fake /proc.",
    "note": "Trusted: Coq kernel + vm_compute; hand-written model coq/C13/Model.v incl. the three regex scanners (tied by the correspondence run only); "
            "kernel formats in coq/C13/Spec.v; harness (fake /proc, builtins.open/os.stat patches, module constants set per case); CPython builtins "
            "and float division. Proof covers the model, sampling covers model-vs-code.",
}
