"""C20 translator: probes the platform modules of the psutil under test over the stub native
layer (props/_c20_stub.py) and dumps what it sees as JSON; `emit_coq` turns that JSON into
coq/Gen/C20_Tables.v.  Run as a subprocess with PYTHONPATH = <impl_dir>:<verif>:
    python -m props._c20_probe <impl_dir> <workdir> <out.json>
Nothing is read from the AST: slot maps are the module attributes, slot usage is decoded from
the distinct sentinels the stub puts in every slot, ladders are the observed outcomes."""
import json
import os
import re
import socket
import sys

from props import _c20_stub as S

COQ_PLAT = dict(freebsd="FreeBSD", openbsd="OpenBSD", netbsd="NetBSD", macos="MacOS", sunos="SunOS", aix="AIX",
                windows="Windows")
MAPS = dict(freebsd=["kinfo_proc_map"], openbsd=["kinfo_proc_map"], netbsd=["kinfo_proc_map"],
            macos=["kinfo_proc_map", "pidtaskinfo_map"], sunos=["proc_info_map"], aix=["proc_info_map"],
            windows=["pinfo_map"])
STATES = ["alive", "zombie", "gone"]
SKIP_METHODS = {("aix", "open_files")}       # drives /usr/bin/procfiles through subprocess: no native call
# primary native call whose permission failure selects the documented slower route
FALLBACK = {("windows", "cpu_times"): "proc_times", ("windows", "create_time"): "proc_times",
            ("windows", "memory_info"): "proc_memory_info", ("windows", "io_counters"): "proc_io_counters",
            ("windows", "num_handles"): "proc_num_handles", ("sunos", "uids"): "proc_cred", ("sunos", "gids"): "proc_cred"}
TRAIL = re.compile(r"^(?:/dev/tty|/f|/g|C:/\\f|C:/\\g|C:/\\m|arg|nm|K|V|p|n)(-?\d+)$")


def errs_of(plat):
    return S.WIN_ERRS if plat == "windows" else S.POSIX_ERRS


def cond_list(plat):
    """Same order as Spec.conds."""
    order = ["ESRCH", "ENOENT", "EPERM", "EACCES", "EIO", "EINVAL", "WACCESS", "WPRIV", "WPARTIAL", "WINVAL"]
    out = []
    for e in order:
        if e not in errs_of(plat):
            continue
        for st in STATES:
            for pid0 in (False, True):
                out.append((e, st, pid0))
    return out


def status_codes(layer):
    """[(native constant name, psutil status text)] of the module's PROC_STATUSES, by constant name."""
    ps = getattr(layer.mod, "PROC_STATUSES", None)
    if ps is None:
        return []
    out = []
    for name, val in sorted(layer.consts.items()):
        if val in ps and name.startswith("S") and not name.startswith("STATUS"):
            out.append([name, str(ps[val])])
    if len(out) != len(ps):
        raise RuntimeError("C20 probe: cannot name every key of %s.PROC_STATUSES (%r vs %r)" % (layer.plat, out, ps))
    return out


def methods_of(layer):
    ms = [m for m in layer.methods() if (layer.plat, m) not in SKIP_METHODS]
    if "rlimit" in ms:
        ms.append("rlimit_set")
    return ms


# ------------------------------------------------------------------ value canonicalisation / decoding
def canon_scalar(v):
    """int | None | {'s': text}"""
    if v is None:
        return None
    if isinstance(v, bool):
        return int(v)
    if isinstance(v, int):
        return int(v)
    if isinstance(v, float):
        return int(v) if v == int(v) else {"s": repr(v)}
    if isinstance(v, str):
        m = TRAIL.match(v)
        if m:
            return int(m.group(1))
        return {"s": v}
    return {"s": repr(v)[:60]}


def canon_value(r):
    """-> {'shape','type','fields': [[name, canon_scalar]]}"""
    if isinstance(r, tuple) and hasattr(r, "_fields"):
        return {"shape": "Tuple", "type": type(r).__name__, "fields": [[f, canon_scalar(getattr(r, f))] for f in r._fields]}
    if isinstance(r, list) and r and isinstance(r[0], tuple) and hasattr(r[0], "_fields"):
        first = r[0]
        return {"shape": "ListOf", "type": type(first).__name__,
                "fields": [[f, canon_scalar(getattr(first, f))] for f in first._fields]}
    if isinstance(r, list) and r and all(isinstance(x, str) for x in r):       # cmdline
        return {"shape": "Tuple", "type": "list", "fields": [[str(i), canon_scalar(x)] for i, x in enumerate(r)]}
    if isinstance(r, dict) and r:                                              # environ
        k = sorted(r)[0]
        return {"shape": "Tuple", "type": "dict", "fields": [["key", canon_scalar(k)], ["value", canon_scalar(r[k])]]}
    if isinstance(r, list) and r and isinstance(r[0], tuple):                  # memory_maps: plain tuples
        return {"shape": "ListOf", "type": "tuple", "fields": [[str(i), canon_scalar(x)] for i, x in enumerate(r[0])]}
    if isinstance(r, (list, dict, tuple, set)):
        return {"shape": "Scalar", "type": "", "fields": [["", {"s": "<%s>" % type(r).__name__}]]}
    return {"shape": "Scalar", "type": "", "fields": [["", canon_scalar(r)]]}


def sentinel_table(plat):
    t = {}
    for fn, n, st in S.RECORDS[plat]:
        for i in range(n):
            t[S.BASE[fn] + i] = (fn, i)
    for fn in S.SCALARS + ["ppid_map"]:
        t[S.BASE[fn]] = (fn, 0)
    for i in range(6):
        if i < 3:
            t[S.BASE["proc_threads"] + i] = ("proc_threads", i)
    for fn in S.ROWFNS:
        for i in range(7):
            t[S.BASE[fn] + i] = (fn, i)
    t[S.BASE["proc_name_and_args"] + 10] = ("proc_name_and_args", 1)
    t[S.BASE["proc_name_and_args"] + 11] = ("proc_name_and_args", 1)
    for i in range(2):
        t[S.BASE["query_process_thread"] + i] = ("query_process_thread", i)
    t[S.BASE["os.listdir"]] = ("os.listdir", 0)
    t[S.BASE["os.readlink"]] = ("os.readlink", 0)
    for i in range(2):
        t[S.BASE["proc_open_files"] + i] = ("proc_open_files", i)
        t[S.BASE["proc_getrlimit"] + i] = ("proc_getrlimit", i)
    return t


def decode(plat, v):
    """canonical scalar -> src  ['Slot', fn, idx, mul] | ['Const', z] | ['None'] | ['Unknown']"""
    if v is None:
        return ["None"]
    if isinstance(v, dict):
        return ["Unknown"]
    t = sentinel_table(plat)
    if v in t:
        return ["Slot", t[v][0], t[v][1], 1]
    for mul in (1024, 4096):
        if v % mul == 0 and v // mul in t:
            fn, i = t[v // mul]
            return ["Slot", fn, i, mul]
    if -2 <= v <= 64:
        return ["Const", v]
    return ["Unknown"]


# ------------------------------------------------------------------ probes
def probe_usage(layer, meth, variant=""):
    plat = layer.plat
    kw = {}
    if variant == "fallback":
        kw = dict(site=FALLBACK[(plat, meth)], err="WACCESS" if plat == "windows" else "EACCES")
    kind, r = layer.run(meth, **kw)
    if kind != "val":
        return None
    cv = canon_value(r)
    fields = [[n, decode(plat, v)] for n, v in cv["fields"]]
    # which slots of the one-shot records influence the result (perturbation)
    deps = []
    base = json.dumps(cv, sort_keys=True)
    for fn, n, st in S.RECORDS[plat]:
        if fn not in layer.world.calls:
            continue
        for i in range(n):
            # alternative values of slot i: another number, "no tty" (-1, Solaris PRNODEV), another status code
            alts = [layer.const("SRUN")] if i == st else \
                [S.BASE[fn] + i + 50, S.NOTTY] + ([layer.const("PRNODEV")] if plat == "sunos" else [])
            changed = False
            for alt in alts:
                vals = [S.BASE[fn] + j for j in range(n)]
                if st is not None:
                    vals[st] = layer.const("SSTOP")
                vals[i] = alt
                k2, r2 = layer.run(meth, records={fn: vals}, **kw)
                if k2 != "val" or json.dumps(canon_value(r2), sort_keys=True) != base:
                    changed = True
                    break
            if changed:
                deps.append([fn, i])
    # row natives (strings, enums, address pairs): which slots does each output field follow?
    for fn in S.ROWFNS:
        if fn not in layer.world.calls:
            continue
        kbase, rbase = layer.run(meth, **kw)
        n = len(layer.row(fn))
        follows = [[] for _ in fields]
        for i in range(n):
            k2, r2 = layer.run(meth, rowalt={fn: i}, **kw)
            if k2 != "val":
                continue
            cv2 = canon_value(r2)
            if cv2["shape"] != cv["shape"] or len(cv2["fields"]) != len(fields):
                continue
            for j, ((_n1, v1), (_n2, v2)) in enumerate(zip(cv["fields"], cv2["fields"])):
                if json.dumps(v1, sort_keys=True) != json.dumps(v2, sort_keys=True):
                    follows[j].append(i)
        for j, (nm, src) in enumerate(fields):
            if src[0] in ("Unknown", "Const") and follows[j]:
                fields[j] = [nm, ["Fun", fn, follows[j]]]
    falsy_bad = falsy_probe(layer, meth, kw, cv, fields)
    return {"plat": plat, "meth": meth, "variant": variant, "shape": cv["shape"], "type": cv["type"],
            "fields": fields, "deps": deps, "falsy_bad": falsy_bad}


FALSY = (0, -1)


def record_with(plat, fn, idx, val):
    """records override putting val into slot idx of int-record function fn (other slots: the sentinels)."""
    for f, n, st in S.RECORDS[plat]:
        if f == fn:
            v = [S.BASE[fn] + j for j in range(n)]
            v[idx] = val
            return {fn: v}
    if fn == "proc_threads":
        v = [S.BASE[fn] + j for j in range(6)]
    elif fn == "proc_open_files":
        v = [S.BASE[fn] + j for j in range(2)]
    else:
        v = [S.BASE[fn]]
    v[idx] = val
    return {fn: v}


def falsy_probe(layer, meth, kw, cv, fields):
    """For every field that is a copy of a native int slot: put 0 / -1 there; the field must come back as that value."""
    plat = layer.plat
    bad = []
    for j, (nm, src) in enumerate(fields):
        if src[0] != "Slot":
            continue
        fn, idx, mul = src[1], src[2], src[3]
        for val in FALSY:
            if meth == "terminal" and val == S.NOTTY:
                continue                      # -1 is the stub's "no controlling terminal" number
            if fn in S.INT_FNS:
                extra = {"records": record_with(plat, fn, idx, val)}
            elif fn in S.ROWFNS and isinstance(layer.row(fn)[idx], int):
                extra = {"rowset": {fn: {idx: val}}}
            else:
                continue
            k2, r2 = layer.run(meth, **dict(kw, **extra))
            ok = False
            if k2 == "val":
                cv2 = canon_value(r2)
                ok = (cv2["shape"] == cv["shape"] and cv2["type"] == cv["type"] and len(cv2["fields"]) == len(fields)
                      and cv2["fields"][j][1] == val * mul)
            if not ok:
                bad.append([nm, val])
    return bad


def discover_sites(layer, meth, pid):
    kind, r = layer.run(meth, pid=pid)
    seen = []
    for c in layer.world.calls:
        if c not in seen:
            seen.append(c)
    return seen


def ladder_outcome(layer, meth, site, err, state, pid):
    kind, r = layer.run(meth, pid=pid, state=state, site=site, err=err)
    return S.classify(layer, kind, r)


def out_code(o, pid):
    """canonical outcome -> ['X', res, pid_ok, name_ok] | ['NotFired'] | ['Other']"""
    t = o["t"]
    if t in ("NoSuchProcess", "ZombieProcess", "AccessDenied"):
        res = {"NoSuchProcess": "RNoSuch", "ZombieProcess": "RZombie", "AccessDenied": "RDenied"}[t]
        name = o["a"][1]
        return ["X", res, o["a"][0] == pid, name is not None and bytes.fromhex(name["b"]) == b"nm"]
    if t == "Raw":
        return ["X", "RRaw", True, True]
    if t == "RawProbe":
        return ["X", "RRawProbe", True, True]
    if t == "Val":
        return ["X", "RVal", True, True]
    if t == "TimeoutExpired":
        name = o["a"][1]
        return ["X", "RTimeout", o["a"][0] == pid, name is not None and bytes.fromhex(name["b"]) == b"nm"]
    if t == "NotFired":
        return ["NotFired"]
    return ["Other"]


PAIRS = {"windows": [("memory_info", "proc_memory_info", "proc_info"), ("memory_full_info", "proc_memory_info", "proc_info"),
                     ("create_time", "proc_times", "proc_info"), ("cpu_times", "proc_times", "proc_info"),
                     ("io_counters", "proc_io_counters", "proc_info"), ("num_handles", "proc_num_handles", "proc_info"),
                     ("cmdline", "proc_cmdline[peb]", "proc_cmdline[nopeb]")],
         "sunos": [("uids", "proc_cred", "proc_basic_info"), ("gids", "proc_cred", "proc_basic_info")]}
RETRY = [("cmdline", "proc_cmdline"), ("environ", "proc_environ"), ("cwd", "proc_cwd")]
RETRY_K = [1, 32, 33]
ERR_ORDER = ["ESRCH", "ENOENT", "EPERM", "EACCES", "EIO", "EINVAL", "WACCESS", "WPRIV", "WPARTIAL", "WINVAL"]


def pair_cond_list(plat):
    """Same order as Spec.pair_conds."""
    es = [e for e in ERR_ORDER if e in errs_of(plat)]
    return [(e1, e2, st, z) for e1 in es for e2 in es for st in STATES for z in (False, True)]


def probe_cond_list(plat):
    """Same order as Spec.probe_conds."""
    es = [e for e in ERR_ORDER if e in errs_of(plat)]
    return [(e1, e2, z) for e1 in es for e2 in es for z in (False, True)]


def probefault_outcome(layer, meth, site, e1, e2, pid):
    kind, r = layer.run(meth, pid=pid, state="alive", site=site, err=e1, probe_err=e2)
    return S.classify(layer, kind, r)


def pair_outcome(layer, meth, s1, s2, e1, e2, state, pid):
    kind, r = layer.run(meth, pid=pid, state=state, faults={s1: [(None, e1)], s2: [(None, e2)]})
    return S.classify(layer, kind, r)


def retry_outcome(layer, meth, site, k, then, state="alive", pid=7):
    kind, r = layer.run(meth, pid=pid, state=state, faults={site: [(k, "WPARTIAL"), (None, then)]})
    return S.classify(layer, kind, r)


def wait_outcome(layer, scen, state, pid=7):
    faults = {} if scen == "WPlain" else {"proc_wait": [(None, {"WNativeTimeout": "WTIMEOUT", "WAbandoned": "WABANDONED"}[scen])]}
    kind, r = layer.run("wait", pid=pid, state=state, faults=faults)
    return S.classify(layer, kind, r, need_fired=False)


# ---- front-end histories: [name(), then a failing method] through <frontend copy>.Process over the stub layer
# front-end method -> (platform method, native call it fails at) per platform
FE_METHODS = {
    "cmdline": {"freebsd": "proc_cmdline", "openbsd": "proc_cmdline", "netbsd": "proc_cmdline", "macos": "proc_cmdline",
                "sunos": "proc_name_and_args", "aix": "proc_args"},
    "cwd": {"freebsd": "proc_cwd", "openbsd": "proc_cwd", "netbsd": "proc_cwd", "macos": "proc_cwd",
            "sunos": "os.readlink", "aix": "os.readlink"},
    "threads": {"freebsd": "proc_threads", "openbsd": "proc_threads", "netbsd": "proc_threads", "macos": "proc_threads",
                "sunos": "os.listdir", "aix": "proc_threads"},
    "num_fds": {"freebsd": "proc_num_fds", "openbsd": "proc_num_fds", "netbsd": "proc_num_fds", "macos": "proc_num_fds",
                "sunos": "os.listdir", "aix": "os.listdir"},
    "environ": {p: "proc_environ" for p in ("freebsd", "openbsd", "netbsd", "macos", "sunos", "aix")},
    "nice": {"freebsd": "getpriority", "openbsd": "getpriority", "netbsd": "getpriority", "macos": "getpriority", "aix": "getpriority"},
    "wait": {p: "os.waitpid" for p in ("freebsd", "openbsd", "netbsd", "macos", "sunos", "aix")},
}
FE_PLAT_METH = {"nice": "nice_get"}
FE_NAMES = [  # (kernel name, cmdline[0])
    ("bash", "/bin/bash"),                                        # short: never extended
    ("gnome-keyring-d", "/usr/bin/gnome-keyring-daemon"),         # 15 bytes, cmdline basename extends it
    ("gnome-keyring-d", "/usr/bin/python3"),                      # 15 bytes, cmdline does not match
    ("exactly15bytes_", "exactly15bytes_"),                       # 15 bytes, nothing to add
    ("a-sixteen-b-name", "/opt/a-sixteen-b-name-and-more"),       # > 15 (platforms without truncation), extended
    ("kworker/0:1", "relative/kworker/0:1"),
]


def fe_history(fe, kname, cmd0, name_mode, meth, site, err, state, pid=7):
    """name_mode: 'call' | 'skip' | 'fail'.  Returns [returned name or None, outcome] where outcome is
    T(class, pid, name) for a psutil exception, T('Raw'), T('Val') or T('Other', cls)."""
    from pv.canon import B, T
    pkg, w = fe.mod, fe.world
    w.reset(pid=pid, state="alive")
    w.kname, w.cmd0 = kname, cmd0
    proc = pkg.Process(pid)
    returned = None
    if name_mode == "call":
        returned = proc.name()
    elif name_mode == "fail":
        w.faults = {"*": [(None, "EPERM")]}
        try:
            proc.name()
            returned = "<name() did not fail>"
        except pkg.Error:
            pass
        w.faults = {}
    w.state = state
    w.faults = {site: [(None, err)]} if site is not None else {}
    w.ncalls, w.fired, w.raised = {}, 0, []
    args = (0,) if meth == "wait" else ()
    try:
        getattr(proc, meth)(*args)
        out = T("Val")
    except pkg.Error as e:
        nm = getattr(e, "name", None)
        out = T(type(e).__name__, e.pid if isinstance(e.pid, int) else -1, B(nm) if isinstance(nm, str) else None)
    except OSError as e:
        out = T("Raw") if any(e is x for x in w.raised) else T("Other", B(type(e).__name__))
    except Exception as e:  # noqa
        out = T("Other", B(type(e).__name__))
    return [None if returned is None else B(returned), out]


FE_GRID = [("cmdline", "ESRCH", "gone"), ("cmdline", "EPERM", "alive"), ("cwd", "ESRCH", "zombie"), ("threads", "EACCES", "alive"),
           ("num_fds", "ESRCH", "gone"), ("environ", "EPERM", "alive"), ("nice", "ESRCH", "gone"), ("wait", None, "alive")]


def fe_rows(fe, plat, names=None, grid=None):
    rows = []
    for kn, c0 in (names or FE_NAMES):
        for mode in ("call", "skip", "fail"):
            for meth, err, st in (grid or FE_GRID):
                site = FE_METHODS[meth].get(plat)
                if site is None:
                    continue
                if meth == "wait":
                    site = None
                r = fe_history(fe, kn, c0, mode, meth, site, err, st)
                rows.append({"plat": plat, "kname": kn, "cmd0": c0, "mode": mode, "meth": FE_PLAT_METH.get(meth, meth),
                             "femeth": meth, "site": site or "", "err": err or "ESRCH", "state": st, "returned": r[0], "out": r[1]})
    return rows


NIC_PROBES = [
    # fam (0 inet, 1 inet6, 2 link, 3 other), addr text, mask text or None, broadcast in
    (0, "192.168.1.7", "255.255.255.0", None), (0, "10.1.2.3", "255.0.0.0", None), (0, "10.1.2.3", "255.255.255.255", None),
    (0, "10.1.2.3", "0.0.0.0", None), (0, "172.16.5.9", "255.255.240.0", None), (0, "172.16.5.9", None, None),
    (0, "172.16.5.9", "255.0.255.0", None), (0, "172.16.5.9", "0.0.0.255", None), (0, "1.2.3.4", "255.255.255.0", "9.9.9.9"),
    (1, "fe80::1", "ffff:ffff:ffff:ffff::", None), (1, "2001:db8::5", "ffff:ffff::", None), (1, "::1", None, None),
    (0, "192.168.1.7", "24", None), (0, "10.9.8.7", "0", None), (0, "10.9.8.7", "33", None),
    (1, "fe80::1", "64", None), (1, "2001:db8::5", "128", None), (1, "2001:db8::5", "0", None), (1, "2001:db8::5", "129", None),
    (2, "aa:bb:cc:dd:ee:ff", None, None), (2, "aa:bb", None, None), (2, "aa", None, None), (2, "aa:bb:cc:dd:ee", None, None),
]


def ip_int(fam, text):
    import ipaddress
    if text is None:
        return None
    return int(ipaddress.IPv4Address(text)) if fam == 0 else int(ipaddress.IPv6Address(text))


def run_nic(fe, fam, addr, mask, bcast):
    """Drive <frontend>.net_if_addrs() over one raw row; returns [addr_out, bcast_out(int|None|{'s'})]."""
    pkg = fe.mod
    plat = fe.plat
    if fam == 2:
        rawfam = -1 if plat == "windows" else pkg._psplatform.AF_LINK
        if plat == "windows":
            addr = addr.replace(":", "-")
    else:
        rawfam = {0: socket.AF_INET.value, 1: socket.AF_INET6.value, 3: 99}[fam]
    fe.world.records["net_if_addrs"] = [("eth0", rawfam, addr, mask, bcast, None)]
    nt = pkg.net_if_addrs()["eth0"][0]
    b = nt.broadcast
    if b is not None:
        try:
            b = ip_int(fam if fam in (0, 1) else 0, b)
        except Exception:
            b = {"s": str(b)}
    return [nt.address, b, nt.family == pkg.AF_LINK, nt.netmask]


def probe_all(impl_dir, workdir):
    out = {"slot_maps": [], "usage": [], "ladder": [], "sites": {}, "names": [], "nic": [], "methods": {},
           "status": [], "sladder": [], "pairs": [], "retry": [], "wait": [], "sysfields": [], "allfail": [], "probe": [], "fename": []}
    for plat in S.PLATS:
        layer = S.Layer(plat, impl_dir)
        for m in MAPS[plat]:
            d = getattr(layer.mod, m)
            out["slot_maps"].append([plat, m, [[k, int(v)] for k, v in d.items()]])
        ms = methods_of(layer)
        codes = status_codes(layer)
        if codes:
            out["status"].append({"plat": plat, "codes": codes})
        out["methods"][plat] = ms
        out["sites"][plat] = {}
        for meth in ms:
            u = probe_usage(layer, meth)
            if u is not None:
                out["usage"].append(u)
            if (plat, meth) in FALLBACK:
                u = probe_usage(layer, meth, "fallback")
                if u is not None:
                    out["usage"].append(u)
            s7, s0 = discover_sites(layer, meth, 7), discover_sites(layer, meth, 0)
            sites = s7 + [x for x in s0 if x not in s7]
            out["sites"][plat][meth] = {"7": s7, "0": s0}
            for site in sites:
                outs = []
                for (e, st, pid0) in cond_list(plat):
                    pid = 0 if pid0 else 7
                    outs.append(out_code(ladder_outcome(layer, meth, site, e, st, pid), pid))
                out["ladder"].append({"plat": plat, "meth": meth, "site": site, "outs": outs})
                if plat != "windows":      # double fault: the call fails with e1, every follow-up probe with e2
                    po = [out_code(probefault_outcome(layer, meth, site, e1, e2, 0 if z else 7), 0 if z else 7)
                          for (e1, e2, z) in probe_cond_list(plat)]
                    out["probe"].append({"plat": plat, "meth": meth, "site": site, "outs": po})
                # ESRCH for a PID listed with each native status code of PROC_STATUSES
                for code, _text in codes:
                    so = [out_code(ladder_outcome(layer, meth, site, "ESRCH", "code:" + code, pid), pid) for pid in (7, 0)]
                    out["sladder"].append({"plat": plat, "meth": meth, "site": site, "code": code, "outs": so})
        # every native call of the method fails with the same error (the really gone / off-limits process)
        for meth in ms:
            sites = out["sites"][plat][meth]
            first = (sites["7"] or sites["0"] or [None])[0]
            if first is None:
                continue
            outs = []
            for (e, st, pid0) in cond_list(plat):
                pid = 0 if pid0 else 7
                kind, r = layer.run(meth, pid=pid, state=st, faults={"*": [(None, e)]})
                outs.append(out_code(S.classify(layer, kind, r), pid))
            out["allfail"].append({"plat": plat, "meth": meth, "site": first, "outs": outs})
        # system-wide functions of the platform module that build process-related tuples
        if plat != "macos":
            u = probe_usage(layer, "sys:net_connections")
            if u is not None:
                out["usage"].append(u)
        for meth, s1, s2 in PAIRS.get(plat, []):
            outs = [out_code(pair_outcome(layer, meth, s1, s2, e1, e2, st, 0 if z else 7), 0 if z else 7)
                    for (e1, e2, st, z) in pair_cond_list(plat)]
            out["pairs"].append({"plat": plat, "meth": meth, "site1": s1, "site2": s2, "outs": outs})
        if plat == "windows":
            for meth, site in RETRY + [("exe", "proc_exe")]:
                for k in RETRY_K:
                    for then in [None] + [e for e in errs_of(plat) if e != "WPARTIAL"]:
                        out["retry"].append({"meth": meth, "site": site, "k": k, "then": then,
                                             "out": out_code(retry_outcome(layer, meth, site, k, then), 7)})
        for st in STATES:
            out["wait"].append({"plat": plat, "scen": "WPlain", "state": st, "out": out_code(wait_outcome(layer, "WPlain", st), 7)})
            if plat == "windows":
                for scen in ("WNativeTimeout", "WAbandoned"):
                    out["wait"].append({"plat": plat, "scen": scen, "state": st, "out": out_code(wait_outcome(layer, scen, st), 7)})
        fe = S.load_frontend(plat, impl_dir, workdir)
        pkg = fe.mod
        out["names"].append({"plat": plat, "all": sorted(set(pkg.__all__)),
                             "dir": sorted(n for n in dir(pkg) if not n.startswith("_") or n in pkg.__all__),
                             "methods": sorted(n for n in dir(pkg.Process) if not n.startswith("_")),
                             "unresolved": sorted(n for n in set(pkg.__all__) if not hasattr(pkg, n))})
        if plat != "windows":
            out["fename"].extend(fe_rows(fe, plat))
        plat_mod, common = pkg._psplatform, pkg._common
        for fn, cls in (("cpu_times", plat_mod.scputimes), ("virtual_memory", plat_mod.svmem), ("swap_memory", common.sswap),
                        ("disk_io_counters", getattr(plat_mod, "sdiskio", common.sdiskio)), ("net_io_counters", common.snetio)):
            if not callable(getattr(pkg, fn, None)):
                raise RuntimeError("C20 probe: front end of %s has no %s()" % (plat, fn))
            out["sysfields"].append({"plat": plat, "fn": fn, "type": cls.__name__, "fields": list(cls._fields)})
        for fam, addr, mask, bc in NIC_PROBES:
            r = run_nic(fe, fam, addr, mask, bc)
            out["nic"].append({"plat": plat, "fam": fam, "addr": addr, "mask": mask, "bcast": bc, "out": r})
    return out


# ------------------------------------------------------------------ Coq emitter
def qs(s):
    return '"%s"' % s.replace('"', '""')


def zlit(n):
    return "(%d)" % n if n < 0 else "%d" % n


def src_coq(s):
    if s[0] == "Slot":
        return "(SSlot %s %s %s)" % (qs(s[1]), zlit(s[2]), zlit(s[3]))
    if s[0] == "Const":
        return "(SConst %s)" % zlit(s[1])
    if s[0] == "None":
        return "SNone"
    if s[0] == "Fun":
        return "(SFun %s [%s])" % (qs(s[1]), "; ".join(zlit(i) for i in s[2]))
    return "SUnknown"


def by(s):
    return "[" + ";".join(str(b) for b in s.encode()) + "]"


def opt(v):
    return "None" if v is None else "(Some %s)" % zlit(v)


def mask_coq(fam, mask):
    if mask is None or fam not in (0, 1):
        return "MNone"
    if mask.isdigit():
        return "(MPrefix %d)" % int(mask)
    return "(MAddr %s)" % zlit(ip_int(fam, mask))


def nic_in_coq(plat, fam, addr, mask, bcast):
    a = addr.replace(":", "-") if (fam == 2 and plat == "windows") else addr
    return "(Build_nicrow %d %s %s %s %s)" % (fam, by(a), zlit(ip_int(fam, addr) if fam in (0, 1) else 0),
                                              mask_coq(fam, mask),
                                              opt(ip_int(fam, bcast) if fam in (0, 1) else None))


def _outs_coq(outs):
    r = []
    for o in outs:
        if o[0] == "X":
            r.append("GX %s %s %s" % (o[1], "true" if o[2] else "false", "true" if o[3] else "false"))
        elif o[0] == "NotFired":
            r.append("GNotFired")
        else:
            r.append("GOther")
    return "; ".join(r)


def emit_coq(data):
    st_coq = {"alive": "Alive", "zombie": "Zombie", "gone": "Gone"}
    L = ["(* GENERATED by props/_c20_probe.py from the psutil under test -- do not edit. *)",
         "From PV Require Import C20.Model.", "Local Open Scope string_scope.", ""]
    L.append("Definition slot_maps : list smap := [")
    L.append(";\n".join("  Build_smap %s %s [%s]" % (COQ_PLAT[p], qs(m), "; ".join("(%s, %s)" % (qs(k), zlit(v)) for k, v in sl))
                        for p, m, sl in data["slot_maps"]))
    L.append("].\n")
    L.append("Definition usage_rows : list urow := [")
    rows = []
    for u in data["usage"]:
        rows.append("  Build_urow %s %s %s %s %s [%s] [%s] [%s]" % (
            COQ_PLAT[u["plat"]], qs(u["meth"]), qs(u["variant"]), u["shape"], qs(u["type"]),
            "; ".join("(%s, %s)" % (qs(n), src_coq(s)) for n, s in u["fields"]),
            "; ".join("(%s, %s)" % (qs(fn), zlit(i)) for fn, i in u["deps"]),
            "; ".join("(%s, %s)" % (qs(n), zlit(v)) for n, v in u["falsy_bad"])))
    L.append(";\n".join(rows))
    L.append("].\n")
    L.append("Definition ladder_blocks : list lblock := [")
    rows = []
    for b in data["ladder"]:
        outs = []
        for o in b["outs"]:
            if o[0] == "X":
                outs.append("GX %s %s %s" % (o[1], "true" if o[2] else "false", "true" if o[3] else "false"))
            elif o[0] == "NotFired":
                outs.append("GNotFired")
            else:
                outs.append("GOther")
        rows.append("  Build_lblock %s %s %s [%s]" % (COQ_PLAT[b["plat"]], qs(b["meth"]), qs(b["site"]), "; ".join(outs)))
    L.append(";\n".join(rows))
    L.append("].\n")
    L.append("Definition all_blocks : list lblock := [")
    L.append(";\n".join("  Build_lblock %s %s %s [%s]" % (COQ_PLAT[b["plat"]], qs(b["meth"]), qs(b["site"]), _outs_coq(b["outs"]))
                        for b in data["allfail"]))
    L.append("].\n")
    L.append("Definition probe_blocks : list lblock := [")
    L.append(";\n".join("  Build_lblock %s %s %s [%s]" % (COQ_PLAT[b["plat"]], qs(b["meth"]), qs(b["site"]), _outs_coq(b["outs"]))
                        for b in data["probe"]))
    L.append("].\n")
    def optby(x):
        return "None" if x is None else "(Some %s)" % by(bytes.fromhex(x["b"]).decode("utf-8", "surrogateescape"))
    cls_map = {"NoSuchProcess": "RNoSuch", "ZombieProcess": "RZombie", "AccessDenied": "RDenied", "TimeoutExpired": "RTimeout",
               "Raw": "RRaw", "Val": "RVal"}
    L.append("Definition fename_rows : list frow := [")
    rows = []
    for r in data["fename"]:
        o = r["out"]
        if o["t"] not in cls_map:
            raise RuntimeError("C20 probe: front-end history ended with %r" % (o,))
        carried = o["t"] in ("NoSuchProcess", "ZombieProcess", "AccessDenied", "TimeoutExpired")
        rows.append("  Build_frow %s %s %s %d %s %s %s %s %s %s %s %s" % (
            COQ_PLAT[r["plat"]], by(r["kname"]), by(r["cmd0"]), {"call": 0, "skip": 1, "fail": 2}[r["mode"]], qs(r["meth"]), qs(r["site"]),
            r["err"], st_coq[r["state"]], optby(r["returned"]), cls_map[o["t"]],
            "true" if (not carried or o["a"][0] == 7) else "false", optby(o["a"][1]) if carried else "None"))
    L.append(";\n".join(rows))
    L.append("].\n")
    L.append("Definition status_rows : list srow := [")
    L.append(";\n".join("  Build_srow %s [%s]" % (COQ_PLAT[r["plat"]], "; ".join("(%s, %s)" % (qs(c), qs(t)) for c, t in r["codes"]))
                        for r in data["status"]))
    L.append("].\n")
    L.append("Definition status_blocks : list sblock := [")
    L.append(";\n".join("  Build_sblock %s %s %s %s [%s]" % (COQ_PLAT[b["plat"]], qs(b["meth"]), qs(b["site"]), qs(b["code"]),
                                                              _outs_coq(b["outs"])) for b in data["sladder"]))
    L.append("].\n")
    L.append("Definition pair_blocks : list pblock := [")
    L.append(";\n".join("  Build_pblock %s %s %s %s [%s]" % (COQ_PLAT[b["plat"]], qs(b["meth"]), qs(b["site1"]), qs(b["site2"]),
                                                              _outs_coq(b["outs"])) for b in data["pairs"]))
    L.append("].\n")
    L.append("Definition retry_rows : list rrow := [")
    L.append(";\n".join("  Build_rrow %s %s %d %s (%s)" % (qs(r["meth"]), qs(r["site"]), r["k"],
                                                            "None" if r["then"] is None else "(Some %s)" % r["then"],
                                                            _outs_coq([r["out"]])) for r in data["retry"]))
    L.append("].\n")
    L.append("Definition wait_rows : list wrow := [")
    L.append(";\n".join("  Build_wrow %s %s %s (%s)" % (COQ_PLAT[r["plat"]], r["scen"], st_coq[r["state"]], _outs_coq([r["out"]]))
                        for r in data["wait"]))
    L.append("].\n")
    L.append("Definition sysfield_rows : list sfrow := [")
    L.append(";\n".join("  Build_sfrow %s %s %s [%s]" % (COQ_PLAT[r["plat"]], qs(r["fn"]), qs(r["type"]), "; ".join(qs(f) for f in r["fields"]))
                        for r in data["sysfields"]))
    L.append("].\n")
    L.append("Definition names_rows : list names := [")
    L.append(";\n".join("  Build_names %s [%s] [%s] [%s]" % (
        COQ_PLAT[n["plat"]], "; ".join(qs(x) for x in n["all"]), "; ".join(qs(x) for x in n["dir"]),
        "; ".join(qs(x) for x in n["methods"])) for n in data["names"]))
    L.append("].\n")
    L.append("Definition nic_rows : list nicprobe := [")
    rows = []
    for r in data["nic"]:
        o = r["out"]
        b = o[1]
        if isinstance(b, dict):
            b = -1
        rows.append("  Build_nicprobe %s %s %s %s" % (COQ_PLAT[r["plat"]],
                                                     nic_in_coq(r["plat"], r["fam"], r["addr"], r["mask"], r["bcast"]),
                                                     by(o[0]), opt(b)))
    L.append(";\n".join(rows))
    L.append("].")
    return "\n".join(L) + "\n"


if __name__ == "__main__":
    impl_dir, workdir, outp = sys.argv[1:4]
    os.makedirs(workdir, exist_ok=True)
    d = probe_all(impl_dir, workdir)
    with open(outp, "w") as f:
        json.dump(d, f)
