"""C13 -- histories over several handles of one process: oneshot() blocks, copy.copy / copy.deepcopy taken inside or
outside a block, fresh Process(pid) objects, kernel-state changes, memory accessors (coq/C13/Handles.v).

Case: {"kind": "handles", "pagesize", "states": [{"has_rollup","rmode","rollup","ex","ms","statm"}, ...], "ops": [...]}
ops:  ["enter", h] ["exit", h] ["copy", h] ["new"] ["set", i] ["call", h, q]          -- modelled (Handles.cop)
      ["deep", h]                                                                   -- modelled as TypeError, no handle
      ["dcall", d, q] ["denter", d] ["dexit", d]      -- on the d-th deepcopy, executed only if that deepcopy returned an
                                                         object (the model has none); judged against the specification only
q: "info" = memory_info, "full" = memory_full_info, "rows" = memory_maps(grouped=False), "grouped" = memory_maps(grouped=True)
"""
import copy as _copy

QS = ["info", "full", "rows", "grouped"]
RM = ["nosupport", "enoent", "esrch_open", "esrch_read", "ok"]
SYS_RM = ["nosupport", "enoent", "esrch_open", "ok"]     # esrch_read only in the random histories


def quiet_trace(ops):
    """for every call / dcall op in order: (is a deep handle, handle, q, state index, no block open anywhere)"""
    depth, ddepth, st, out = {}, {}, 0, []
    for o in ops:
        k = o[0]
        if k == "enter":
            depth[o[1]] = depth.get(o[1], 0) + 1
        elif k == "exit":
            depth[o[1]] = max(0, depth.get(o[1], 0) - 1)
        elif k == "denter":
            ddepth[o[1]] = ddepth.get(o[1], 0) + 1
        elif k == "dexit":
            ddepth[o[1]] = max(0, ddepth.get(o[1], 0) - 1)
        elif k == "set":
            st = o[1]
        elif k in ("call", "dcall"):
            q = not any(depth.values()) and not any(ddepth.values())
            out.append((k == "dcall", o[1], o[2], st, q))
    return out


def _state(C, rng, ms, rmode, statm):
    return {"has_rollup": rmode != "nosupport", "rmode": "enoent" if rmode == "nosupport" else rmode,
            "rollup": C._rollup(rng, ms, True), "ms": ms, "statm": statm}


def _uniform_mappings(C, rng, n):
    """n mappings with the line set of a current kernel on each (the class memory_maps is specified for)"""
    profile = {k: True for k in C.PROFILE_KEYS}
    pool = rng.sample(C.PATHS, rng.randint(2, 5))
    addr, ms = rng.choice([0x400000, 0x55faa4233000, 0x7f0000000000]), []
    for _ in range(n):
        m, addr = C._mapping(rng, profile, pool, False, addr)
        ms.append(m)
    if n >= 2 and rng.random() < 0.5:      # a repeated path: the grouped view has to add the rows up
        ms[-1]["path"], ms[-1]["deleted"] = ms[0]["path"], ms[0]["deleted"]
    return ms


def _two_states(C, rng, rmode, change):
    """state 0 and state 1 = state 0 after a mapping was added / removed / resized and statm changed (or identical)"""
    allms = _uniform_mappings(C, rng, 2)
    how = rng.choice(["added", "removed", "resized"]) if change else "same"
    if how == "added":
        ms0, ms1 = allms[:-1], allms
    elif how == "removed":
        ms0, ms1 = allms, allms[1:]
    elif how == "resized":
        ms0 = allms
        ms1 = _copy.deepcopy(allms)
        for l in ms1[-1]["lines"]:
            if l[0] == "F":
                l[3] = str(int(l[3]) + rng.choice([4, 8, 1024]))
    else:
        ms0 = ms1 = allms
    t0 = C._statm(rng)
    t1 = list(t0)
    if change:
        for i in (0, 1, 2, 5):
            t1[i] = str(int(t1[i]) + rng.choice([1, 3, 250]))
    ex = C._ex_for(rng, allms, False)
    sts = [_state(C, rng, ms0, rmode, t0), _state(C, rng, ms1, rmode, t1)]
    for s in sts:
        s["ex"] = ex
    return sts, how


def _all(kind, h):
    return [[kind, h, q] for q in QS]


def systematic(C, rng):
    """copy kind x taken inside / outside the block x source of memory_full_info x kernel change yes / no; every history
    queries all four accessors on the copy, the original and a fresh Process(pid) outside every block, then lets the copy
    run its own block, then changes the kernel back"""
    out = []
    for ck in ("copy", "deep"):
        for where in ("inside", "outside"):
            for rmode in SYS_RM:
                for change in (True, False):
                    sts, how = _two_states(C, rng, rmode, change)
                    tgt = (lambda q: ["call", 1, q]) if ck == "copy" else (lambda q: ["dcall", 0, q])
                    ent, ext = (["enter", 1], ["exit", 1]) if ck == "copy" else (["denter", 0], ["dexit", 0])
                    warm = _all("call", 0)
                    rng.shuffle(warm)
                    ops = []
                    if where == "outside":
                        ops.append([ck, 0])
                    ops += [["enter", 0]] + warm
                    if where == "inside":
                        ops.append([ck, 0])
                    ops += [["call", 0, "rows"], ["exit", 0], ["set", 1]]
                    ops += [tgt(q) for q in QS] + [["call", 0, "full"], ["call", 0, "grouped"], ["new"], ["call", 2 if ck == "copy" else 1, "rows"]]
                    ops += [ent] + [tgt(q) for q in ("full", "rows")] + [["set", 0]] + [tgt("info")] + [ext]
                    ops += [tgt(q) for q in QS] + [["call", 0, rng.choice(QS)]]
                    out.append({"kind": "handles", "cls": "handles-%s-%s-%s-%s" % (ck, where, rmode, "change" if change else "same"),
                                "pagesize": C._page(), "states": sts, "ops": ops, "how": how})
    return out


def random_history(C, rng):
    rmode = rng.choice(RM)
    sts, how = _two_states(C, rng, rmode, True)
    nh, nd, ops, open_, dopen = 1, 0, [], [], []
    for _ in range(rng.randint(8, 16)):
        r = rng.random()
        h = rng.randrange(nh)
        if r < 0.14 and len(open_) < 3:
            ops.append(["enter", h])
            open_.append(h)
        elif r < 0.28 and open_:
            ops.append(["exit", open_.pop()])
        elif r < 0.38:
            ops.append(["copy", h])
            nh += 1
        elif r < 0.46:
            ops.append(["deep", h])
            nd += 1
        elif r < 0.50:
            ops.append(["new"])
            nh += 1
        elif r < 0.62:
            ops.append(["set", rng.choice([0, 1])])
        elif r < 0.70 and nd:
            ops.append(["dcall", rng.randrange(nd), rng.choice(QS)])
        else:
            ops.append(["call", h, rng.choice(QS)])
    while open_:
        ops.append(["exit", open_.pop()])
    ops.append(["set", rng.choice([0, 1])])
    for h in range(nh):
        ops += [["call", h, q] for q in rng.sample(QS, 1 if nh > 3 else 2)]
    for d in range(nd):
        ops += [["dcall", d, q] for q in rng.sample(QS, 2)]
    return {"kind": "handles", "cls": "handles-random", "pagesize": C._page(), "states": sts, "ops": ops, "how": how}


# ------------------------------------------------------------------ Gallina
def coq_term(C, case):
    G = C.G
    sts = []
    for s in case["states"]:
        sts.append("(%s, %s, %s, %s, %s, %s)" % (G.bo(s["has_rollup"]), G.z(C.RMODE_NUM[s["rmode"]]), C._g_rollup(s["rollup"]), C._g_ex(s["ex"]),
                                                 G.lst([C._g_mapping(m) for m in s["ms"]]), C._g_statm(s["statm"])))
    ops = []
    for o in case["ops"]:
        k = o[0]
        if k in ("enter", "exit", "copy", "deep"):
            ops.append("(%s nat %s)" % ({"enter": "OEnter", "exit": "OExit", "copy": "OCopy", "deep": "ODeep"}[k], G.nat(o[1])))
        elif k == "new":
            ops.append("(ONew nat)")
        elif k == "set":
            ops.append("(OSetK nat %s)" % G.nat(o[1]))
        elif k == "call":
            ops.append("(OCall nat %s %s)" % (G.nat(o[1]), "QInfo" if o[2] == "info" else "(QAcc %s)" % G.nat(QS.index(o[2]) - 1)))
    return "run_handles %s %s %s" % (G.z(case["pagesize"]), G.lst(sts), G.lst(ops))


# ------------------------------------------------------------------ implementation
def impl_run(C, case, coq, env):
    import builtins
    import errno
    import os
    import psutil
    from psutil import _pslinux
    from pv import fakeproc
    from pv.canon import T, outcome, unB
    root = os.path.join(env["work"], "proc")
    fp = fakeproc.FakeProc(root)
    fakeproc.attach(psutil, root)
    pid = 4343
    fp.add(pid)
    rpath = os.path.join(root, str(pid), "smaps_rollup")
    ex = {bytes.fromhex(x) for s in case["states"] for x in s["ex"]}
    real_open, real_stat = builtins.open, os.stat
    fault = [None]

    def fake_open(file, *a, **kw):
        if file == rpath and fault[0] == "esrch_open":
            raise ProcessLookupError(errno.ESRCH, "No such process", file)
        if file == rpath and fault[0] == "esrch_read":
            return C._Raiser(ProcessLookupError(errno.ESRCH, "No such process"))
        return real_open(file, *a, **kw)

    def fake_stat(path, *a, **kw):
        if isinstance(path, (str, bytes)):
            b = os.fsencode(path)
            if b.endswith(C.DELETED) and not b.startswith(os.fsencode(env["work"])):
                if b in ex:
                    return real_stat("/")
                raise FileNotFoundError(errno.ENOENT, os.strerror(errno.ENOENT), path)
        return real_stat(path, *a, **kw)

    def set_state(i):
        s, pr = case["states"][i], coq["printed"][i]
        fault[0] = None
        fp.write(pid, "smaps", unB(pr[0]))
        fp.write(pid, "statm", unB(pr[1]))
        if s["rmode"] == "enoent":
            if os.path.exists(rpath):
                os.remove(rpath)
        else:
            fp.write(pid, "smaps_rollup", unB(pr[2]))
        fault[0] = s["rmode"] if s["rmode"].startswith("esrch") else None
        _pslinux.HAS_PROC_SMAPS_ROLLUP = bool(s["has_rollup"])

    def ask(p, q):
        if q == "info":
            return outcome(p.memory_info, C._mem_conv(C.PMEM))
        if q == "full":
            return outcome(p.memory_full_info, C._mem_conv(C.PFULL))
        if q == "rows":
            return outcome(lambda: p.memory_maps(grouped=False), C._rows_conv)
        return outcome(lambda: p.memory_maps(grouped=True), lambda rows: (lambda g: sorted(g, key=lambda r: r[0]["b"]) if isinstance(g, list) else g)(C._grouped_conv(rows)))

    saved = (_pslinux.PAGESIZE, _pslinux.HAS_PROC_SMAPS_ROLLUP)
    builtins.open = fake_open
    os.stat = fake_stat
    handles, deeps, stacks, dstacks = [], [], {}, {}
    calls, dres, dcalls, errs = [], [], [], []
    try:
        _pslinux.PAGESIZE = case["pagesize"]
        set_state(0)
        handles.append(psutil.Process(pid))
        for o in case["ops"]:
            k = o[0]
            if k == "enter":
                cm = handles[o[1]].oneshot()
                cm.__enter__()
                stacks.setdefault(o[1], []).append(cm)
            elif k == "exit":
                if stacks.get(o[1]):
                    stacks[o[1]].pop().__exit__(None, None, None)
            elif k == "copy":
                handles.append(_copy.copy(handles[o[1]]))
            elif k == "deep":
                try:
                    deeps.append(_copy.deepcopy(handles[o[1]]))
                    dres.append(T("Val", "object"))
                except TypeError:
                    deeps.append(None)
                    dres.append(T("Exc", T("TypeError")))
            elif k == "new":
                handles.append(psutil.Process(pid))
            elif k == "set":
                set_state(o[1])
            elif k == "call":
                calls.append(ask(handles[o[1]], o[2]))
            elif k == "dcall":
                dcalls.append(None if deeps[o[1]] is None else ask(deeps[o[1]], o[2]))
            elif k == "denter":
                if deeps[o[1]] is not None:
                    cm = deeps[o[1]].oneshot()
                    cm.__enter__()
                    dstacks.setdefault(o[1], []).append(cm)
            elif k == "dexit":
                if dstacks.get(o[1]):
                    dstacks[o[1]].pop().__exit__(None, None, None)
        return [calls, dres, dcalls]
    finally:
        for st in list(stacks.values()) + list(dstacks.values()):
            while st:
                try:
                    st.pop().__exit__(None, None, None)
                except Exception:  # noqa
                    pass
        builtins.open = real_open
        os.stat = real_stat
        _pslinux.PAGESIZE, _pslinux.HAS_PROC_SMAPS_ROLLUP = saved


# ------------------------------------------------------------------ judge
NAMES = {"info": "memory_info()", "full": "memory_full_info()", "rows": "memory_maps(grouped=False)", "grouped": "memory_maps(grouped=True)"}


def _norm(q, o):
    if q == "grouped" and isinstance(o, dict) and o.get("t") == "Val":
        return {"t": "Val", "a": [sorted(o["a"][0], key=lambda r: r[0]["b"])]}
    return o


def judge(C, case, coq, impl):
    from pv.core import Verdict
    calls, dres, dcalls = impl
    tr = quiet_trace(case["ops"])
    spec, model = coq["spec"], coq["model"]
    ci = di = 0
    mism = None
    for deep, h, q, st, quiet in tr:
        if deep:
            got = dcalls[di]
            di += 1
            who = "deepcopy #%d" % h
        else:
            got = calls[ci]
            if mism is None and _norm(q, got) != _norm(q, model[ci]):
                mism = "call %d (handle %d %s): impl != model" % (ci, h, q)
            ci += 1
            who = "handle %d" % h
        if got is None or not quiet:
            continue
        want = spec[st][QS.index(q)]
        if want is not None and _norm(q, got) != _norm(q, want):
            return Verdict("violation", "%s of %s, called outside every oneshot() block, does not reflect the kernel's current records "
                                        "(state %d, %s)" % (NAMES[q], who, st, case.get("how")))
    if mism:
        return Verdict("corr", mism)
    if any(d != {"t": "Exc", "a": [{"t": "TypeError", "a": []}]} for d in dres):
        return Verdict("corr", "copy.deepcopy(Process) returned an object; the model says TypeError")
    return Verdict("ok")
