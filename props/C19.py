"""C19 -- sensors, battery, CPU frequency/count, cpu_stats, boot time mirror the kernel's tables."""
import os
import re

from pv import gallina as G
from pv.canon import B, Exc, T, Val, outcome, unB

from props import _c19_gen as GEN
from props._c19_gen import battery_files, cpufreq_sysfs, effective_plat, sorted_fan_chips, sorted_temp_chips, sorted_zones

ID = "C19"
COQ_REQUIRE = "C19.Run"
SHARD = 120
RULE = ("layouts of /sys/class/hwmon (0-4 chips x 0-5 temp/fan sensors, direct or device/ nesting, every subset of "
        "input/max/crit/label/name present, absent, failing at open() (PermissionError) or opening fine and failing in read() with "
        "EIO/ENXIO/ENODATA/ENODEV/EBUSY, non-numeric inputs and thresholds, negative and zero values), "
        "/sys/class/thermal (zones with 0-4 trip points), /sys/class/power_supply (0-3 batteries, alternative energy_/charge_ "
        "and power_/current_ names, capacity, status, AC0/AC adapters, missing directory), cpufreq policies (both nestings, "
        "offline CPUs, cpuinfo-sourced current frequency, both import-time implementations), /proc/cpuinfo (x86 blocks, ARM "
        "blocks with and without the old 'Processor' header, dropped/duplicated lines) and /proc/stat printed from records, "
        "coretemp platform chips, mixed fan nesting, plus a raw stream of malformed file contents compared with the model only. A case is non-trivial when "
        "at least one sensor/battery/CPU/line exists; distinct = distinct canonical case hash.")
TRUSTED = ["correspondence harness props/C19.py + props/_c19_gen.py + pv/ (fake /sys and /proc trees behind pv.shim, "
           "PermissionError injection at open(), file objects whose read()/readline()/iteration raise OSError(errno), os.sysconf patch, importlib.reload of psutil._pslinux to re-run the import-time "
           "choice of cpu_freq implementation)",
           "glob.glob, sorted(set(basenames)), numeric sort of cpufreq policies: computed by the harness, not modelled",
           "sysfs/procfs formats transcribed from the kernel ABI documents in coq/C19/Spec.v",
           "props/_c19_tr.py (ast translator of sensors_battery; fail-closed) and the interpreters of coq/C19/PyGen.v"]
ASSUMPTIONS = ["floats are modelled as exact rationals; the implementation's doubles are accepted within 2^-48 relative error; "
               "int(float) truncations (battery seconds, cpuinfo-sourced kHz) are accepted one unit off when the exact value is "
               "within 1e-9 of an integer",
               "CPython float()/int()/str.strip()/bytes.lower() are modelled for ASCII text; names and labels are ASCII without "
               "control characters; numbers have fewer than 300 digits",
               "set-iteration order of thermal trip points is an oracle: generated zones carry at most one 'critical' and one "
               "'high' trip point, the theorem covers every order"]
EXHAUSTIVE = {"quick": "one temperature sensor: all 4^3 states (present / absent / open() fails / read() fails) of max,crit,label with a "
                       "readable input, plus the 3 non-readable input states, x name in {present, absent, read() fails} x {C,F} "
                       "(402 layouts); one fan: all 4^3 states of input,label,name; every file of every walker failing in read() "
                       "with each of EIO, ENXIO, ENODATA, ENODEV, EBUSY, one at a time (125 layouts)",
              "thorough": "all 4^4 x 4 (name) x {C,F} single-sensor layouts x 3 value classes (zero, positive, negative), "
                          "all 4^3 single-fan layouts, all 2^6 x 3 battery file subsets, the 125 read-error layouts"}


def gen_cases(rng, tier):
    return GEN.gen_cases(rng, tier)


# ------------------------------------------------------------------ Gallina writers
def g_text(x):
    if x[0] == "P":
        return "(Present %s)" % G.by(x[1])
    return "Absent" if x[0] == "A" else "Unreadable"


def g_num(x):
    if x[0] == "P":
        if x[1] == "N":
            return "(Present (KN %s %s))" % (G.bo(x[2]), G.by(x[3]))
        return "(Present (KJunk %s))" % G.by(x[2])
    return "Absent" if x[0] == "A" else "Unreadable"


def g_boolf(x):
    if x[0] == "P":
        return "(Present %s)" % G.bo(x[1])
    return "Absent" if x[0] == "A" else "Unreadable"


def g_raw(x):
    if x[0] == "C":
        return "(FC %s)" % G.by(x[1])
    return "FAbsent" if x[0] == "A" else "FError"


_SNUM = re.compile(r"([ \t]*)([+-]?)(\d+)([ \t]*)\Z")


def g_snum(x):
    """signed power_supply attribute: ["P", "<blanks><sign><digits><blanks>"]"""
    if x[0] != "P":
        return "Absent" if x[0] == "A" else "Unreadable"
    m = _SNUM.match(x[1])
    sg = {"": "SgNone", "+": "SgPlus", "-": "SgMinus"}[m.group(2)]
    return "(Present (Build_snum %s %s %s %s))" % (G.by(m.group(1)), sg, G.by(m.group(3)), G.by(m.group(4)))


def g_salt(a):
    return "(Build_salt %s %s)" % (g_snum(a[0]), g_snum(a[1]))


def g_alt(a):
    return "(Build_kalt %s %s)" % (g_text(a[0]), g_text(a[1]))


def g_cline(l):
    k = l[0]
    if k == "other":
        return "(COther %s %s %s)" % (G.by(l[1]), G.bo(l[2]), G.by(l[3]))
    if k == "mhz":
        return "(CMhz %s %s)" % (G.by(l[1]), G.by(l[2]))
    return "(%s %s)" % ({"proc": "CProcessor", "pid": "CPhysId", "cid": "CCoreId", "cores": "CCores"}[k], G.by(l[1]))


def g_blocks(blocks):
    return G.lst([G.lst([g_cline(l) for l in b]) for b in blocks])


def g_tchip(c):
    ss = ["(Build_ksensor %s %s %s %s %s)" % (g_num(s["input"]), g_num(s["max"]), g_num(s["crit"]),
                                             g_text(s["label"]), G.bo(s["other"])) for s in c["sensors"]]
    return "(Build_kchip %s %s)" % (g_text(c["name"]), G.lst(ss))


def g_zone(z):
    ts = ["(Build_ktrip %s %s)" % (g_text(t["type"]), g_num(t["temp"])) for t in z["trips"]]
    return "(Build_kzone %s %s %s)" % (g_num(z["temp"]), g_text(z["type"]), G.lst(ts))


def g_statline(l):
    k = l[0]
    if k == "cpu":
        return "(SCpu %s %s)" % (G.by(l[1]), G.by(l[2]))
    if k == "intr":
        return "(SIntr %s %s)" % (G.by(l[1]), G.by(l[2]))
    if k == "softirq":
        return "(SSoftirq %s %s)" % (G.by(l[1]), G.by(l[2]))
    if k == "ctxt":
        return "(SCtxt %s)" % G.by(l[1])
    if k == "btime":
        return "(SBtime %s)" % G.by(l[1])
    return "(SOther %s %s)" % (G.by(l[1]), G.by(l[2]))


def g_cpu(c):
    if c["kind"] == "off":
        return "Offline"
    return "(Online %s %s %s)" % (g_alt(c["cur"]), G.by(c["min"]), G.by(c["max"]))


def g_bat(b):
    if b is None:
        return "None"
    st = b["status"]
    stt = "(Present %s)" % st[1] if st[0] == "P" else ("Absent" if st[0] == "A" else "Unreadable")
    return "(Some (Build_kbat %s %s %s %s %s %s))" % (g_salt(b["now"]), g_salt(b["power"]), g_salt(b["full"]),
                                                    g_snum(b["tte"]), g_text(b["capacity"]), stt)


def coq_term(case):
    k = case["kind"]
    if k == "history":
        return "JL %s" % G.lst(["(%s)" % coq_term(c) for c in case["steps"]])
    if k == "temps":
        return "run_temps %s %s %s" % (G.lst([g_tchip(c) for c in sorted_temp_chips(case["chips"])]),
                                       G.lst([g_zone(z) for z in sorted_zones(case["zones"])]), G.bo(case["fahr"]))
    if k == "temps_coretemp":
        return "run_temps_coretemp %s %s %s %s" % (
            G.lst([g_tchip(c) for c in sorted_temp_chips(case["chips"])]),
            G.lst([g_tchip(c) for c in sorted_temp_chips(effective_plat(case))]),
            G.lst([g_zone(z) for z in sorted_zones(case["zones"])]), G.bo(case["fahr"]))
    if k == "temps_raw":
        es = ["(Build_tentry %s %s %s %s %s)" % tuple(g_raw(e[f]) for f in ("input", "name", "max", "crit", "label"))
              for e in case["entries"]]
        zs = []
        for z in case["zones"]:
            ts = ["(Build_trip %s %s)" % (g_raw(t["type"]), g_raw(t["temp"])) for t in z["trips"]]
            zs.append("(Build_zentry %s %s %s)" % (g_raw(z["temp"]), g_raw(z["type"]), G.lst(ts)))
        return "run_temps_raw %s %s %s" % (G.lst(es), G.lst(zs), G.bo(case["fahr"]))
    if k == "fans":
        chips = []
        for c in sorted_fan_chips(case["chips"]):
            fs = ["(Build_kfan %s %s %s)" % (g_num(f["input"]), g_text(f["label"]), G.bo(f["other"])) for f in c["fans"]]
            chips.append("(%s, Build_kfanchip %s %s)" % (G.bo(c["nested"]), g_text(c["name"]), G.lst(fs)))
        return "run_fans %s" % G.lst(chips)
    if k == "fans_raw":
        es = ["(Build_fentry %s %s %s)" % tuple(g_raw(e[f]) for f in ("input", "name", "label")) for e in case["entries"]]
        return "run_fans_raw %s" % G.lst(es)
    if k == "battery":
        l = ["(%s, %s)" % (G.by(e["name"]), g_bat(e["bat"])) for e in case["entries"]]
        return "run_battery %s %s %s %s" % (G.bo(case["dir"]), G.lst(l), g_boolf(case["ac0"]), g_boolf(case["ac"]))
    if k == "battery_raw":
        l = ["(%s, Build_batfiles %s)" % (G.by(e["name"]), " ".join(g_raw(e["files"][f]) for f in battery_files))
             for e in case["entries"]]
        return "run_battery_raw %s %s %s" % ("(Some %s)" % G.lst(l) if case["dir"] else "None",
                                             g_raw(case["ac0"]), g_raw(case["ac"]))
    if k == "cpufreq":
        cpus = sorted(case["cpus"], key=lambda c: c["idx"])
        return "run_cpufreq %s %s %s" % (G.bo(cpufreq_sysfs(case)), g_blocks(case["blocks"]),
                                         G.lst([g_cpu(c) for c in cpus]))
    if k == "cpufreq_raw":
        cpus = sorted(case["cpus"], key=lambda c: c["idx"])
        ps = ["(Build_policy %s %s %s %s %s)" % tuple(g_raw(c[f]) for f in ("scur", "ccur", "min", "max", "online"))
              for c in cpus]
        return "run_cpufreq_raw %s %s %s" % (G.bo(cpufreq_sysfs(case)), g_raw(case["cpuinfo"]), G.lst(ps))
    if k == "cpucount":
        sc = "None" if case["sysconf"] is None else "(Some %s)" % G.z(case["sysconf"])
        return "run_cpucount %s %s %s %s" % (sc, g_blocks(case["blocks"]),
                                             G.lst([g_statline(l) for l in case["stat"]]),
                                             G.lst([g_text(x) for x in case["lists"]]))
    if k == "cpucount_raw":
        sc = "None" if case["sysconf"] is None else "(Some %s)" % G.z(case["sysconf"])
        return "run_cpucount_raw %s %s %s %s" % (sc, g_raw(case["cpuinfo"]), g_raw(case["stat"]),
                                                 G.lst([g_raw(x) for x in case["lists"]]))
    if k == "stat":
        return "run_stat %s" % G.lst([g_statline(l) for l in case["stat"]])
    if k == "stat_raw":
        return "run_stat_raw %s" % g_raw(case["stat"])
    raise ValueError(k)


# ------------------------------------------------------------------ canonical forms
def _q(n, d):
    from fractions import Fraction
    f = Fraction(n, d)
    return {"t": "Q", "a": [f.numerator, f.denominator]}


def norm(x):
    """reduce every Q node; sort dict-like results by key"""
    if x is True or x is False:
        # Python's True == 1 and False == 0: booleans get their own node so that == is type-strict
        return {"t": "True" if x else "False", "a": []}
    if isinstance(x, dict):
        if x.get("t") == "Q":
            return _q(x["a"][0], x["a"][1])
        if "t" in x:
            return {"t": x["t"], "a": [norm(a) for a in x["a"]]}
        return x
    if isinstance(x, list):
        return [norm(a) for a in x]
    return x


def sort_dict_outcome(o):
    if isinstance(o, dict) and o.get("t") == "Val":
        return Val(sorted(o["a"][0], key=lambda kv: kv[0]["b"]))
    return o


def coq_struct(case, raw):
    if case["kind"] == "history":
        steps = [coq_struct(c, r) for c, r in zip(case["steps"], raw)]
        return {"steps": steps, "model": [x["model"] for x in steps],
                "spec": None if any(x["spec"] is None for x in steps) else [x["spec"] for x in steps]}
    raw = norm(raw)
    k = case["kind"]
    if k == "temps":
        spec = None if raw[2] is None else sort_dict_outcome(raw[2])
        return {"printed": raw[0], "model": sort_dict_outcome(raw[1]), "spec": spec}
    if k == "fans":
        spec = None if raw[2] is None else sort_dict_outcome(raw[2])
        return {"printed": raw[0], "model": sort_dict_outcome(raw[1]), "spec": spec, "mixed": raw[3]}
    if k == "temps_coretemp":
        spec = None if raw[2] is None else sort_dict_outcome(raw[2])
        return {"printed": raw[0], "model": sort_dict_outcome(raw[1]), "spec": spec, "plat_readable": raw[3]}
    if k in ("temps_raw", "fans_raw"):
        return {"model": sort_dict_outcome(raw[0]), "spec": None}
    if k == "battery":
        return {"printed": raw[0], "model": raw[1], "spec": raw[2], "secs_exact": raw[3], "neg_power": raw[4]}
    if k in ("battery_raw", "cpufreq_raw", "cpucount_raw", "stat_raw"):
        return {"model": raw[0], "spec": None}
    if k == "cpucount":
        return {"printed": raw[0], "model": raw[1], "spec": raw[2], "no_processor_like": raw[3]}
    if k in ("cpufreq", "stat"):
        return {"printed": raw[0], "model": raw[1], "spec": raw[2]}
    raise ValueError(k)


# ------------------------------------------------------------------ verdicts
def finding_key(case, coq):
    # no known (unrepaired) finding: the seven defects this check found were repaired in /repo (3a32a00, e09e22a,
    # 60747a2, d196a16, 64999d5, 1b69de5, 90bacb2); their inputs live in corpus/C19 and are replayed first on every run
    return None


def judge(case, coq, impl):
    from pv.core import Verdict
    if isinstance(impl, dict) and impl.get("t") == "Skip":
        return Verdict("skip", str(impl.get("a")))
    if case["kind"] == "history":
        worst = Verdict("ok")
        for c, q, i in zip(case["steps"], coq["steps"], impl):
            v = judge(c, q, i)
            if v.kind == "violation":
                return Verdict("violation", "step %d: %s" % (case["steps"].index(c), v.detail))
            if v.kind == "corr":
                worst = v
        return worst
    model, spec = coq.get("model"), coq.get("spec")
    if _has_oom(model):
        return Verdict("skip", "out of model")
    k = case["kind"]
    # list-valued results (cpufreq: percpu + mean; cpucount: logical + cores; stat: cpu_stats + boot_time)
    if k in ("cpufreq", "cpucount", "stat") and spec is not None:
        for s, i in zip(spec, impl):
            if s is not None and s != i:
                return Verdict("violation", "impl != spec")
    elif spec is not None and impl != spec:
        return Verdict("violation", "impl != spec")
    if model is not None and impl != model:
        return Verdict("corr", "impl != model")
    return Verdict("ok")


def _has_oom(x):
    if isinstance(x, dict):
        if x.get("t") == "OutOfModel":
            return True
        return any(_has_oom(a) for a in x.get("a", []))
    if isinstance(x, list):
        return any(_has_oom(a) for a in x)
    return False


# ------------------------------------------------------------------ implementation side
def impl_setup(env):
    from props import _c19_impl
    _c19_impl.setup(env)


def impl_run(case, coq, env):
    from props import _c19_impl
    return _c19_impl.run(case, coq, env)


def gen_tables(impl_dir, out_dir):
    """Translate sensors_battery() (nested multi_bcat, head, body) of the tree under check into coq/Gen/C19_Tables.v;
    coq/C19/ProofsGen.v proves the translated multi_bcat and head equal to the model's on every input."""
    from props import _c19_tr
    try:
        _c19_tr.gen_tables(impl_dir, out_dir)
    except _c19_tr.TranslateError as e:
        raise TranslateError(str(e))


class TranslateError(RuntimeError):
    pass


MANIFEST = {
    "text": "Theorems (Coq 8.16, closed under the global context; coq/Properties/C19.v): for every hwmon layout (any number of chips and "
            "sensors, every subset of input/max/crit/label/name files present, absent or unreadable, non-numeric inputs/thresholds) "
            "the model of sensors_temperatures() returns a value, and under every unit name exactly the readable sensors with "
            "current = millidegrees/1000, thresholds /1000 or None, Fahrenheit = C*9/5+32 and missing thresholds back-filled; "
            "thermal-zone fallback scales trip points once for every iteration order; sensors_fans() likewise (a fan whose input or "
            "name file is missing is skipped); sensors_battery() gives percent = 100*now/full or capacity, seconds = "
            "now*3600/power, UNLIMITED on mains, UNKNOWN otherwise, None without battery or without the power_supply directory, for "
            "every subset of the alternative files, the battery reported being the least by name; cpu_freq() per-CPU values are "
            "kHz/1000 with offline CPUs zero and the mean is the arithmetic mean; cpu_stats()/boot_time() return the "
            "ctxt/intr/softirq/btime fields of every printed /proc/stat; over every printed /proc/cpuinfo (x86 and ARM shapes) the "
            "'cpu MHz' scan returns the values in order (cpuinfo implementation of cpu_freq; current-from-cpuinfo rule when the count "
            "equals the number of policies, exact for %u.%03u), cpu_count(logical) = sysconf, else the 'processor' lines, else the "
            "cpuN lines of /proc/stat, cpu_count(cores) = distinct topology lists, else sum over packages of 'cpu cores'. Sensors "
            "visible only below /sys/devices/platform/coretemp.* and fans of both directory nestings are reported (every layout). "
            "Histories of several queries over a changing tree in one process are checked step by step (no memory between calls). "
            "Result TYPES are part of every comparison (documented BatteryTime constants vs plain int, float vs int, bool identity, "
            "named tuple classes and field order; theorem C19_battery_types). Battery attributes are signed integers (sign, blanks, 0, -0): read without TypeError/ValueError, seconds from the magnitude "
            "of power_now/current_now. Refuted-theorems record the seven defects found and repaired (code before 60747a2, e09e22a, "
            "3a32a00, d196a16, 64999d5, 1b69de5, 90bacb2). "
            "The hand-written model is tied to the code by executing both (vm_compute vs the real psutil over a fake /sys and "
            "/proc behind a path-rewriting shim) on generated layouts.",
    "note": "Round 2: sensors_battery()'s nested multi_bcat and its head (listdir guard, name filter, min) are translated from the "
            "current source on every run (props/_c19_tr.py -> coq/Gen/C19_Tables.v, fail-closed) and proved equal to the model for all "
            "inputs (C19_gen_multi_bcat, C19_gen_battery_head); the body (percent/plugged/secsleft) is translated into a statement "
            "language and only pinned to a reference program (C19_gen_battery_body_pinned) that agrees with the model on 32768 computed samples. "
            "Trusted: Coq kernel + vm_compute; the rest of model coq/C19/Model.v incl. battery_of (tied by the correspondence run only); kernel formats in "
            "coq/C19/Spec.v; harness (glob/sort order, shim, reload of _pslinux for the import-time cpu_freq choice); CPython "
            "float/int/strip; IEEE doubles (exact rationals in the model, 2^-48 tolerance).",
}
