"""C16 live cases: the real psutil.Process over the REAL /proc, on a child that is stopped (SIGSTOP) so that its
stat / status / smaps / statm stand still.

* source table: for every oneshot-accelerated method, which of /proc/<pid>/{stat,status,smaps,statm,smaps_rollup} it opens
  outside a block must be what props/C16.py LIVE (= the model's m_src / the spec's counts) says; a disagreement is a
  harness error (RuntimeError -> exit 2), to be fixed in the model's source table, never a verdict;
* generated histories over two Process objects of the same pid (enter / exit / nested / raise / calls / as_dict):
  every answer equals the answer outside a block, and the real per-call open counts equal the counts the specification's
  ghost machine demands (computed in Coq from the same history);
* several threads calling into an open block; process_iter(attrs);
* after SIGCONT + a change made by the child itself (new comm, one more thread) a block opened before keeps its
  snapshot, a call outside a block sees the new values, and so does the first object once its block is left.
"""
import os
import signal
import subprocess
import sys
import threading
import time

from pv.canon import T

CHILD = r"""
import os, signal, sys, threading, time
sys.stdout.write("ready\n"); sys.stdout.flush()
os.kill(os.getpid(), signal.SIGSTOP)
sys.stdin.readline()
open("/proc/self/comm", "w").write("c16renamed")
threading.Thread(target=time.sleep, args=(3600,), daemon=True).start()
time.sleep(0.05)
sys.stdout.write("changed\n"); sys.stdout.flush()
os.kill(os.getpid(), signal.SIGSTOP)
time.sleep(3600)
"""


def _wait_stopped(pid, timeout=10.0):
    end = time.time() + timeout
    while time.time() < end:
        with open("/proc/%d/stat" % pid, "rb") as f:
            data = f.read()
        if data[data.rfind(b")") + 2:data.rfind(b")") + 3] == b"T":
            return
        time.sleep(0.005)
    raise RuntimeError("C16 live: the child did not stop")


def _canon(v):
    if isinstance(v, tuple):
        return tuple(_canon(x) for x in v)
    if isinstance(v, list):
        return [_canon(x) for x in v]
    return v


class Opens:
    """Counts opens of /proc/<pid>/<file> by owner (the _pslinux.Process object on the call stack)."""

    def __init__(self, psutil, pid, files):
        self.px, self.cm = psutil._pslinux, psutil._common
        self.prefix = "/proc/%d/" % pid
        self.files = files
        self.counts = {}
        self._orig = None

    def _note(self, path):
        if isinstance(path, str) and path.startswith(self.prefix) and path[len(self.prefix):] in self.files:
            f, owner = sys._getframe(2), None
            while f is not None:
                s = f.f_locals.get("self")
                if isinstance(s, self.px.Process):
                    owner = id(s)
                    break
                f = f.f_back
            key = (owner, threading.get_ident(), path[len(self.prefix):])
            self.counts[key] = self.counts.get(key, 0) + 1

    def install(self):
        px, cm = self.px, self.cm
        self._orig = (cm.open_binary, px.open_binary, px.open_text)
        ob, pob, pot = self._orig

        def c_open_binary(fname, *a, **kw):
            self._note(fname)
            return ob(fname, *a, **kw)

        def p_open_binary(fname, *a, **kw):
            self._note(fname)
            return pob(fname, *a, **kw)

        def p_open_text(fname, *a, **kw):
            self._note(fname)
            return pot(fname, *a, **kw)
        cm.open_binary, px.open_binary, px.open_text = c_open_binary, p_open_binary, p_open_text

    def uninstall(self):
        if self._orig:
            self.cm.open_binary, self.px.open_binary, self.px.open_text = self._orig
            self._orig = None

    def take(self, proc):
        """[stat, status, smaps, statm, smaps_rollup] opened by this thread on behalf of proc since the last take."""
        me, tid = id(proc._proc), threading.get_ident()
        out = []
        for name in self.files:
            out.append(self.counts.pop((me, tid, name), 0))
        return out


def run_live(case, coq, psutil, LIVE, FILES, model_ops):
    px = psutil._pslinux
    if not all(coq["done"]):
        raise RuntimeError("C16 live: the model run did not finish")
    old_root, old_rollup = psutil.PROCFS_PATH, px.HAS_PROC_SMAPS_ROLLUP
    psutil.PROCFS_PATH = "/proc"
    px.BOOT_TIME = None
    psutil.process_iter.cache_clear()
    child = subprocess.Popen(["/venv/bin/python", "-c", CHILD], stdin=subprocess.PIPE, stdout=subprocess.PIPE, text=True)
    opens = None
    try:
        if child.stdout.readline().strip() != "ready":
            raise RuntimeError("C16 live: child did not start")
        pid = child.pid
        _wait_stopped(pid)
        opens = Opens(psutil, pid, FILES)
        opens.install()

        def call(p, m):
            v = getattr(p, m)()
            # Pss / Uss / shared-private splits of a stopped process still move when OTHER processes map or unmap the
            # same pages: only the fields that depend on the child alone are compared
            if m == "memory_full_info":
                return _canon(tuple(v)[:7])
            if m == "memory_maps":
                return sorted((x.path, x.rss, x.size) for x in v)
            return _canon(v)

        # ---- 0. the source table (a disagreement is a harness error)
        if not os.path.exists("/proc/%d/smaps_rollup" % pid):
            raise RuntimeError("C16 live: this kernel has no smaps_rollup")
        px.HAS_PROC_SMAPS_ROLLUP = True
        fresh = psutil.Process(pid)
        opens.take(fresh)
        call(fresh, "memory_full_info")
        got = opens.take(fresh)
        if got != [0, 0, 0, 1, 1]:
            raise RuntimeError("C16 live: with smaps_rollup memory_full_info() opened %r of %r, expected smaps_rollup and statm once"
                               % (got, FILES))
        px.HAS_PROC_SMAPS_ROLLUP = False        # from here on: the path the model describes (_read_smaps_file)
        ref = {}
        for m in sorted(LIVE):
            fresh = psutil.Process(pid)
            opens.take(fresh)
            ref[m] = call(fresh, m)
            got = opens.take(fresh)
            files = {f for f, c in zip(FILES, got) if c}
            if files != LIVE[m][1] or max(got) > 1:
                raise RuntimeError("C16 live: %s() opened %r of %r outside a block; the model's source table says %r"
                                   % (m, got, FILES, sorted(LIVE[m][1])))
        if ref["name"] != "python" or ref["num_threads"] != 1 or ref["status"] != "stopped" or ref["ppid"] != os.getpid():
            raise RuntimeError("C16 live: unexpected child: %r" % ({k: ref[k] for k in ("name", "num_threads", "status", "ppid")},))

        # ---- 1. generated history over two objects of the same pid
        objs = [psutil.Process(pid), psutil.Process(pid)]
        stacks = [[], []]
        idx = [0, 0]
        for p in objs:
            opens.take(p)

        def want(ob, n):
            cs = coq["counts"][ob][idx[ob]:idx[ob] + n]
            idx[ob] += n
            if len(cs) != n or any(c is None for c in cs):
                raise RuntimeError("C16 live: specification has no counts for object %d answers %d..+%d" % (ob, idx[ob] - n, n))
            return [sum(c[i] for c in cs) for i in range(4)]

        def leave(ob, exc):
            cm = stacks[ob].pop()
            if exc:
                e = ValueError("raised in the body")
                try:
                    if cm.__exit__(ValueError, e, None):
                        return "oneshot() swallowed the body's exception"
                except ValueError:
                    pass
            else:
                cm.__exit__(None, None, None)
            return None

        try:
            for step, o in enumerate(case["ops"]):
                ob, k = o[0], o[1]
                p = objs[ob]
                if k == "enter":
                    cm = p.oneshot()
                    cm.__enter__()
                    stacks[ob].append(cm)
                elif k == "exit":
                    if stacks[ob]:
                        leave(ob, False)
                elif k == "raise":
                    while stacks[ob]:
                        msg = leave(ob, True)
                        if msg:
                            return T("LiveViolation", msg)
                elif k == "call":
                    opens.take(p)
                    ans = call(p, o[2])
                    got = opens.take(p)
                    if ans != ref[o[2]]:
                        return T("LiveViolation", "step %d: %s() on object %d (block depth %d) answers %r, outside a block %r"
                                 % (step, o[2], ob, len(stacks[ob]), ans, ref[o[2]]))
                    exp = want(ob, 1)
                    if got[:4] != exp or got[4]:
                        return T("LiveViolation", "step %d: %s() on object %d (block depth %d) opened %r of %r, the property allows %r"
                                 % (step, o[2], ob, len(stacks[ob]), got, FILES, exp))
                elif k == "asdict":
                    opens.take(p)
                    d = p.as_dict(attrs=list(o[2]))
                    got = opens.take(p)
                    if sorted(d) != sorted(o[2]):
                        return T("LiveViolation", "step %d: as_dict keys %r, requested %r" % (step, sorted(d), o[2]))
                    for nme in o[2]:
                        v = d[nme]
                        v = tuple(v)[:7] if nme == "memory_full_info" else sorted((x.path, x.rss, x.size) for x in v) if nme == "memory_maps" else v
                        if _canon(v) != ref[nme]:
                            return T("LiveViolation", "step %d: as_dict()[%r] = %r, outside a block %r" % (step, nme, d[nme], ref[nme]))
                    exp = want(ob, len(o[2]))
                    if got[:4] != exp or got[4]:
                        return T("LiveViolation", "step %d: as_dict(%r) on object %d opened %r of %r, the property allows %r"
                                 % (step, o[2], ob, got, FILES, exp))
            for ob in (0, 1):
                while stacks[ob]:
                    leave(ob, False)

            # ---- 2. several threads calling into an open block
            if case.get("threads"):
                p = objs[0]
                names = sorted(LIVE)
                bad, lock = [], threading.Lock()

                def worker(k):
                    for j in range(8):
                        m = names[(3 * k + 5 * j) % len(names)]
                        try:
                            a = call(p, m)
                            if a != ref[m]:
                                with lock:
                                    bad.append("%s() answers %r in a thread, %r outside a block" % (m, a, ref[m]))
                        except BaseException as e:  # noqa
                            with lock:
                                bad.append("%s() raised %r in a thread" % (m, e))
                with p.oneshot():
                    ths = [threading.Thread(target=worker, args=(k,)) for k in range(4)]
                    for t in ths:
                        t.start()
                    with p.oneshot():
                        call(p, "name")
                    for t in ths:
                        t.join(20)
                if bad:
                    return T("LiveViolation", bad[0])
                if hasattr(p, "_cache") or hasattr(p._proc, "_cache"):
                    return T("LiveViolation", "_cache still present after the block was left")

            # ---- 3. process_iter(attrs)
            if case.get("iter"):
                attrs = ["name", "ppid", "num_threads", "memory_info", "uids"]
                found = None
                g = psutil.process_iter(attrs)
                try:
                    for proc in g:
                        if proc.pid == pid:
                            found = proc.info
                            break
                finally:
                    g.close()
                if found is None:
                    return T("LiveViolation", "process_iter() did not yield the child")
                for nme in attrs:
                    if _canon(found[nme]) != ref[nme]:
                        return T("LiveViolation", "process_iter(attrs).info[%r] = %r, outside a block %r" % (nme, found[nme], ref[nme]))

            # ---- 4. the process changes while a block is open
            if case.get("change"):
                p, q = objs
                with p.oneshot():
                    a0, t0 = call(p, "name"), call(p, "num_threads")
                    child.stdin.write("go\n")
                    child.stdin.flush()
                    os.kill(pid, signal.SIGCONT)
                    if child.stdout.readline().strip() != "changed":
                        raise RuntimeError("C16 live: child did not change")
                    _wait_stopped(pid)
                    got = (call(p, "name"), call(p, "num_threads"), call(p, "status"), call(p, "gids"))
                    if got != (a0, t0, ref["status"], ref["gids"]):
                        return T("LiveViolation", "inside the block opened before the change: %r, the block's first reads were %r"
                                 % (got, (a0, t0, ref["status"], ref["gids"])))
                    new = (call(q, "name"), call(q, "num_threads"))
                    if new != ("c16renamed", 2):
                        return T("LiveViolation", "outside a block after the change: %r, the kernel says ('c16renamed', 2)" % (new,))
                after = (call(p, "name"), call(p, "num_threads"))
                if after != ("c16renamed", 2):
                    return T("LiveViolation", "after the block was left: %r, the kernel says ('c16renamed', 2)" % (after,))
        except RuntimeError:
            raise
        except BaseException as e:  # noqa   whatever psutil raises here is an outcome
            if isinstance(e, (KeyboardInterrupt, SystemExit)):
                raise
            return T("LiveViolation", "psutil raised %r" % (e,))
        return T("LiveOk")
    finally:
        if opens is not None:
            opens.uninstall()
        px.HAS_PROC_SMAPS_ROLLUP = old_rollup
        psutil.PROCFS_PATH = old_root
        try:
            child.kill()
        except Exception:  # noqa
            pass
        child.wait(10)
        for f in (child.stdin, child.stdout):
            try:
                f.close()
            except Exception:  # noqa
                pass
