"""C06 -- per-process kernel facts are exact, whatever bytes the process / thread name contains."""
import json
import os
from fractions import Fraction

from pv import gallina as G
from pv.canon import B, T, outcome, unB
from props import _c06_tables

ID = "C06"
COQ_REQUIRE = "C06.Run"
SHARD = 150
RULE = ("kernel records printed by the Coq kernel printers (k_stat, k_status) from generated task records: comm of 0-15 bytes "
        "(threads up to 64) over an alphabet weighted towards ')' '(' space tab newline ':' backslash digits, the literal "
        "prefixes 'Uid:\\t' 'Gid:\\t' 'Threads:\\t' 'ctxt_switches:\\t' and bytes >= 0x80; 12 documented state letters + 3 "
        "unknown; counters from {0,1,99,2^31,2^32,2^63,2^64-1,10^25}; 37..50 fields after the name (old-kernel records "
        "without delayacct_blkio_ticks); tick rates {1,100,250,1000,1024}; /dev listings with tty/pts nodes; 1-8 threads "
        "with their own names, vanishing threads, dead/zombie owner; ppid_map over several processes; plus a malformed "
        "stream (truncated / mutated records) compared with the model only. A case is non-trivial when its name is "
        "non-empty or a counter is non-zero; distinct = distinct canonical case hash.")
TRUSTED = ["correspondence harness props/C06.py + pv/ (fake /proc tree; glob.glob/os.stat patched for the /dev listing; "
           "psutil._pslinux.CLOCK_TICKS patched to the case's tick rate)",
           "kernel formats of /proc/<pid>/stat, /proc/<pid>/status (Name escaping), new_encode_dev and glibc makedev "
           "transcribed in coq/C06/Spec.v",
           "table translator props/_c06_tables.py (PROC_STATUSES -> coq/Gen/C06_Tables.v)",
           "CPython re engine agrees with the four hand-written scanners of coq/C06/Model.v (exercised by the run)"]
ASSUMPTIONS = ["CPython semantics of bytes.find/rfind/split/strip, int(), float() on integral text, list.sort, dict are modelled, not verified",
               "float()/int() input longer than 300 digits, float literals that are not integers, and non-ASCII state "
               "tokens are outside the model (OutOfModel, skipped)",
               "boot time is the integer btime of /proc/stat, passed to the model as a number (boot_time() itself belongs to C19)",
               "IEEE double rounding of float(ticks)/CLOCK_TICKS is accepted within 2^-48 relative"]
EXHAUSTIVE = {"quick": "all 12 PROC_STATUSES letters against the documented table (Coq, vm_compute) and as cases",
              "thorough": "all 585 names of length <= 3 over the critical alphabet {')','(',' ','\\n','\\t',':','\\\\','a'} "
                          "as process name (stat + status) and as thread name"}

CLKS = [100, 100, 250, 1000, 1024, 1]
COUNTERS = [0, 1, 99, 2 ** 31, 2 ** 32, 2 ** 63, 2 ** 64 - 1, 10 ** 25, 12345, 7]
STATES = [b"R", b"S", b"D", b"T", b"t", b"Z", b"X", b"x", b"K", b"W", b"I", b"P", b"?", b"N", b"(", b"Q"]
CRIT = [b")", b"(", b" ", b"\n", b"\t", b":", b"\\", b"a"]
PIECES = [b")", b")", b"(", b" ", b" ", b"\t", b"\n", b":", b"\\", b"\\n", b") ", b" (", b") S 1 ", b"0", b"9", b"a", b"Z",
          b"\xff", b"\x80", b"\xc3\xa9", b"\xe2\x82", b"\r", b"\x0b", b"\x01", b"-", b"_", b"Uid:\t", b"Gid:\t", b"Threads:\t",
          b"ctxt_switches:\t", b"Uid:\t0\t0\t0", b"Threads:\t99", b"Name:\t", b"\nUid:\t0\t0\t0\t0", b") R 0 0 0 0"]
PID = 4242
MASKED_TTY = True   # model parameter: False = terminal() before the repair 2414912 (signed tty_nr looked up)


def _comm(rng, maxlen=15):
    k = rng.random()
    if k < 0.08:
        return b""
    if k < 0.2:
        return bytes(rng.choice(b"abcdefghijklmnopqrstuvwxyz-_/0123456789") for _ in range(rng.randint(1, maxlen)))
    out = b""
    n = rng.choice([1, 2, 3, 5, 8, maxlen, maxlen])
    while len(out) < n:
        out += rng.choice(PIECES) if rng.random() < 0.85 else bytes([rng.randint(1, 255)])
    out = out.replace(b"\x00", b"\x01")
    return out[:maxlen] if rng.random() < 0.8 else out[-maxlen:]


def kernel_tty_nr(ma, mi):
    """new_encode_dev() stored in the `int tty_nr` of do_task_stat and printed with %d."""
    u = (mi & 0xff) | (ma << 8) | ((mi & ~0xff & 0xffffffff) << 12)
    u &= 0xffffffff
    return u if u < 2 ** 31 else u - 2 ** 32


def glibc_makedev(ma, mi):
    return ((ma & 0xfff) << 8) | ((ma & 0xfffff000) << 32) | (mi & 0xff) | ((mi & 0xffffff00) << 12)


def _after(c):
    """fields (3)..(nfields) of proc(5) for a stat case; fillers are recognisable (1000 + field number)."""
    n = c["nfields"]
    f = {k: str(1000 + k).encode() for k in range(3, n + 1)}
    f[3] = bytes.fromhex(c["state"])
    f[4] = str(c["ppid"]).encode()
    f[7] = c["ttytxt"].encode()
    f[8] = b"-1"
    f[14], f[15], f[16], f[17] = (str(c[k]).encode() for k in ("utime", "stime", "cutime", "cstime"))
    f[18], f[19] = b"-100", b"-5"
    f[22] = str(c["starttime"]).encode()
    if n >= 39:
        f[39] = str(c["processor"]).encode()
    if n >= 42:
        f[42] = str(c["blkio"]).encode()
    if n >= 52:
        f[52] = b"0"
    return [f[k] for k in range(3, n + 1)]


def _py_k_stat(pid, comm, after):
    return str(pid).encode() + b" (" + comm + b") " + b" ".join(after) + b"\n"


def _devs(rng):
    devs = []
    if rng.random() < 0.85:
        for i in rng.sample(range(0, 64), rng.randint(0, 4)):
            devs.append(["/dev/tty%d" % i, 4, i])
        if rng.random() < 0.5:
            devs.append(["/dev/tty", 5, 0])
        if rng.random() < 0.3:
            devs.append(["/dev/ttyS0", 4, 64])
        for i in rng.sample([0, 1, 2, 7, 255, 256, 257, 4095, 4096, 65535, 2 ** 19 - 1], rng.randint(0, 4)):
            devs.append(["/dev/pts/%d" % i, 136 + (i >> 20), i])
    return devs


def _stat_case(rng, comm=None, cls=None, known_high=False):
    devs = _devs(rng)
    k = rng.random()
    if k < 0.3:
        tty = None
    elif k < 0.75 and devs:
        d = rng.choice(devs)
        tty = [d[1], d[2]]
    else:
        tty = [rng.choice([4, 136, 136, 137, 188, 4095]), rng.choice([0, 1, 63, 255, 256, 300, 4096, 2 ** 19 - 1])]
        if rng.random() < 0.5:
            devs.append(["/dev/pts/x%d" % tty[1], tty[0], tty[1]])
    if known_high:
        mi = rng.choice([2 ** 19, 2 ** 19 + 5, 2 ** 20 - 1])
        tty = [136, mi]
        devs.append(["/dev/pts/%d" % mi, 136, mi])
    comm = _comm(rng) if comm is None else comm
    c = {"kind": "stat", "pid": rng.choice([1, PID, 4194303]), "comm": comm.hex(), "state": rng.choice(STATES).hex(),
         "ppid": rng.choice([0, 1, 2, 77, 4194303]), "tty": tty,
         "ttytxt": "0" if tty is None else str(kernel_tty_nr(*tty)),
         "utime": rng.choice(COUNTERS), "stime": rng.choice(COUNTERS), "cutime": rng.choice(COUNTERS),
         "cstime": rng.choice(COUNTERS), "starttime": rng.choice(COUNTERS + [5000, 424242]),
         "processor": rng.choice([0, 1, 3, 127, 8191]), "blkio": rng.choice(COUNTERS),
         "nfields": rng.choice([39, 40, 41, 42, 44, 47, 52, 52, 52, 52]), "clk": rng.choice(CLKS),
         "btime": rng.choice([0, 1, 1500000000, 1700000000, 2 ** 31 + 5]), "devs": devs, "expect_spec": True}
    if cls is None:
        trivial = not comm and not any(c[x] for x in ("utime", "stime", "cutime", "cstime", "starttime"))
        cls = "trivial" if trivial else "stat" + ("-oldkernel" if c["nfields"] < 42 else "") + ("-tty" if tty else "")
        if known_high:
            cls = "stat-tty-highminor"
    c["cls"] = cls
    return c


OTHER_PRE = ["Umask:\t0022", "State:\tS (sleeping)", "Tgid:\t4242", "Ngid:\t0", "Pid:\t4242", "PPid:\t1", "TracerPid:\t0"]
OTHER_MID = ["FDSize:\t64", "Groups:\t4 24 27 1000 ", "NStgid:\t4242", "NSpid:\t4242", "VmPeak:\t    1000 kB",
             "VmSize:\t     900 kB"]
OTHER_POST = ["SigQ:\t0/63432", "SigPnd:\t0000000000000000", "CapEff:\t000001ffffffffff", "Seccomp:\t0",
              "Cpus_allowed:\tff", "Cpus_allowed_list:\t0-7", "Mems_allowed_list:\t0"]
OTHER_TAIL = [[], [], ["x86_Thread_features:\t", "x86_Thread_features_locked:\t"], ["Future_key:\t17"]]
IDS = [0, 1, 99, 1000, 65534, 2 ** 31, 2 ** 32 - 1, 2 ** 64 - 1, 10 ** 25]


def _sub(rng, lines):
    if rng.random() < 0.6:
        return list(lines)
    return [l for l in lines if rng.random() < 0.6]


def _status_case(rng, comm=None, cls=None):
    comm = _comm(rng, 15 if rng.random() < 0.9 else 40) if comm is None else comm
    c = {"kind": "status", "comm": comm.hex(), "pre": _sub(rng, OTHER_PRE), "mid": _sub(rng, OTHER_MID),
         "post": _sub(rng, OTHER_POST), "tail": rng.choice(OTHER_TAIL),
         "uid": [rng.choice(IDS) for _ in range(4)], "gid": [rng.choice(IDS) for _ in range(4)],
         "threads": rng.choice([1, 2, 99, 32768, 2 ** 32]),
         "ctx": None if rng.random() < 0.1 else [rng.choice(COUNTERS), rng.choice(COUNTERS)], "expect_spec": True}
    c["cls"] = cls or ("status" + ("-noctx" if c["ctx"] is None else "") + ("-longname" if len(comm) > 15 else ""))
    return c


def _thread(rng, tid, comm=None):
    return {"tid": tid, "comm": (_comm(rng, rng.choice([15, 15, 15, 64])) if comm is None else comm).hex(),
            "utime": rng.choice(COUNTERS), "stime": rng.choice(COUNTERS), "gone": rng.random() < 0.08,
            "nfields": rng.choice([39, 44, 52, 52])}


def _threads_case(rng, comm=None, cls=None):
    n = rng.choice([1, 1, 2, 3, 5, 8])
    tids = rng.sample([PID, 1, 2, 9, 10, 11, 99, 100, 101, 999, 1000, 4243, 4250, 10000, 4194303], n)
    ths = [_thread(rng, t, comm) for t in tids]
    alive = rng.random() < 0.85
    c = {"kind": "threads", "clk": rng.choice(CLKS), "threads": ths, "alive": alive,
         "own_state": rng.choice(["53", "53", "5a"]), "expect_spec": True}
    gone = any(t["gone"] for t in ths)
    if not alive and gone:
        c["expect_spec"] = False
    c["cls"] = cls or ("threads" + ("-vanishing" if gone else "") + ("" if alive or not gone else "-dead"))
    return c


def _ppid_map_case(rng):
    n = rng.choice([1, 2, 3, 6])
    pids = sorted(rng.sample([1, 2, 10, 77, 300, PID, 99999, 4194303], n))
    procs = [{"pid": p, "comm": _comm(rng).hex(), "ppid": rng.choice([0, 1, 2, 10, 77, 4194303]),
              "gone": rng.random() < 0.1} for p in pids]
    return {"kind": "ppid_map", "cls": "ppid_map", "procs": procs, "expect_spec": True}


def _mutate(rng, data):
    k = rng.random()
    if k < 0.3:   # truncate after some field
        toks = data.split(b" ")
        return b" ".join(toks[:rng.randint(0, len(toks))])
    if k < 0.45:
        return data.replace(b")", b"", rng.choice([1, 5]))
    if k < 0.55:
        return data.replace(b"(", b"")
    if k < 0.7:
        i = rng.randrange(len(data)) if data else 0
        return data[:i] + rng.choice([b"x", b" ", b"  ", b"\t", b"-", b"_", b"+", b"\xff", b")", b"1 2", b"\n"]) + data[i + 1:]
    if k < 0.8:
        return data.rstrip(b"\n")
    if k < 0.9:
        return data.replace(b" ", b"  ", rng.choice([1, 3, 100]))
    return rng.choice([b"", b"\n", b")", b"1 (a) S", b"()", b") ", b"1 (a)S 2 3"])


RAW_STATUS = [
    b"", b"\n", b"Uid:\t1\t2\t3", b"Uid:\t1\t2\t3\n", b"Uid:\t1\t2\n", b"Uid:\t1\t2\t\n", b" Uid:\t1\t2\t3\t4\n", b"\rUid:\t1\t2\t3\n",
    b"x\nUid:\t1\t2\t3\t4\nUid:\t5\t6\t7\t8\n", b"xUid:\t1\t2\t3\nGid:\t4\t5\t6x\n", b"Uid:\t1 \t2\t3\n", b"Uid:\t12a\t2\t3\n",
    b"Uid:\t1\t2\t3x4\nThreads:\t7\n", b"Threads:\t\n", b"Threads:\t5", b"Threads: 5\n", b"\n\nThreads:\t0012\n", b"threads:\t5\n",
    b"Name:\tThreads:\t99\nThreads:\t1\n", b"Name:\ta\nUid:\t0\t0\t0\t0\nGid:\t1\t1\t1\t1\nThreads:\t3\n",
    b"ctxt_switches:\t5\n", b"ctxt_switches:\t5\nctxt_switches:\t6\n", b"ctxt_switches:\tctxt_switches:\t5\nxctxt_switches:\t6",
    b"voluntary_ctxt_switches:\t1\nnonvoluntary_ctxt_switches:\t2\nctxt_switches:\t3\n", b"ctxt_switches:\t\nctxt_switches:\tx\n",
    b"Name:\tctxt_switches:\t\nvoluntary_ctxt_switches:\t1\nnonvoluntary_ctxt_switches:\t2\n",
    b"Name:\tctxt_switches:\t9\nvoluntary_ctxt_switches:\t1\nnonvoluntary_ctxt_switches:\t2\n",
    b"ctxt_switches:\t1ctxt_switches:\t2", b"cctxt_switches:\t1\nctxt_switchectxt_switches:\t2\n", b"ctxt_switches:\t1_0\nctxt_switches:\t2\n",
    b"Uid:\t\xd9\xa1\t2\t3\n", b"Gid:\t1\t2\t3\t4\n", b"Uid:\t1\t2\t3\t4\n",
]


def _raw_stat_case(rng):
    base = _stat_case(rng)
    after = _after(base)
    if rng.random() < 0.15:     # a field the front end needs before any accessor runs (Process() reads the start time)
        after[rng.choice([19, 19, 1, 4, 11, 36])] = rng.choice([b"x5", b"1.5", b"-", b"1_0", b"+7", b"0x10", b"\xff"])
        data = _py_k_stat(base["pid"], bytes.fromhex(base["comm"]), after)
    else:
        data = _mutate(rng, _py_k_stat(base["pid"], bytes.fromhex(base["comm"]), after))
    devs = [[d[0], glibc_makedev(d[1], d[2])] for d in base["devs"]]
    if devs and rng.random() < 0.3:
        devs[rng.randrange(len(devs))][1] = None          # node vanished between glob and stat
    if devs and rng.random() < 0.3:
        devs.append(["/dev/pts/dup", devs[0][1]])         # two paths, one device
    if rng.random() < 0.2:
        devs.append(["/dev/ttyfile", 0])                  # not a device node: st_rdev == 0
    devs = [d for d in devs if d[0].startswith("/dev/tty")] + [d for d in devs if d[0].startswith("/dev/pts/")]
    return {"kind": "stat_raw", "cls": "raw-stat", "pid": base["pid"], "data": data.hex(), "clk": base["clk"],
            "btime": base["btime"], "devs": devs}


def _raw_threads_case(rng):
    n = rng.choice([1, 2, 3])
    names = rng.sample(["1", "2", "10", "9", "4242", "007", "1_0", "+5", "abc", "12x", "-3"], n)
    listing = []
    for nm in names:
        t = _thread(rng, 5)
        after = _after(dict(_stat_case(rng), utime=t["utime"], stime=t["stime"]))
        data = _py_k_stat(5, bytes.fromhex(t["comm"]), after)
        if rng.random() < 0.7:
            data = _mutate(rng, data)
        listing.append([nm, None if rng.random() < 0.1 else data.hex()])
    return {"kind": "threads_raw", "cls": "raw-threads", "clk": rng.choice(CLKS), "listing": listing,
            "alive": rng.random() < 0.7, "own": _py_k_stat(PID, b"own", _own_after(rng.choice(["53", "5a"]))).hex()}


def _raw_ppid_case(rng):
    pids = sorted(rng.sample([1, 2, 10, 77, 300, PID], rng.choice([1, 2, 3])))
    procs = []
    for p in pids:
        base = _stat_case(rng)
        data = _py_k_stat(p, bytes.fromhex(base["comm"]), _after(base))
        if rng.random() < 0.6:
            data = _mutate(rng, data)
        procs.append([p, None if rng.random() < 0.1 else data.hex()])
    return {"kind": "ppid_map_raw", "cls": "raw-ppid_map", "procs": procs}


def gen_cases(rng, tier):
    n = {"quick": 1, "thorough": 10, "search": 2}[tier]
    cases = []
    # every documented state letter (and the unknown ones) once
    for st in STATES:
        c = _stat_case(rng, comm=b"st)ate (x", cls="stat-letter")
        c["state"] = st.hex()
        cases.append(c)
    for _ in range(260 * n):
        cases.append(_stat_case(rng))
    for _ in range(220 * n):
        cases.append(_status_case(rng))
    for _ in range(130 * n):
        cases.append(_threads_case(rng))
    for _ in range(50 * n):
        cases.append(_ppid_map_case(rng))
    for _ in range(120 * n):
        cases.append(_raw_stat_case(rng))
    for _ in range(40 * n):
        cases.append(_raw_threads_case(rng))
    for _ in range(30 * n):
        cases.append(_raw_ppid_case(rng))
    for d in RAW_STATUS:
        cases.append({"kind": "status_raw", "cls": "raw-status", "data": d.hex()})
    for _ in range(40 * n):
        base = _status_case(rng)
        data = _py_k_status(base)
        i = rng.randrange(len(data))
        data = rng.choice([data[:i], data[i:], data[:i] + rng.choice([b"\n", b"\t", b"x", b"7"]) + data[i + 1:],
                           data.replace(b"\n", b"\r\n"), data.replace(b"\t", b" ")])
        cases.append({"kind": "status_raw", "cls": "raw-status", "data": data.hex()})
    for _ in range(8 * n):
        cases.append(_stat_case(rng, known_high=True))
    if tier == "thorough":
        names = [b""]
        for a in CRIT:
            names.append(a)
            for b in CRIT:
                names.append(a + b)
                for c in CRIT:
                    names.append(a + b + c)
        for nm in names:
            cases.append(_stat_case(rng, comm=nm, cls="exh-stat"))
            cases.append(_status_case(rng, comm=nm, cls="exh-status"))
            cases.append(_threads_case(rng, comm=nm, cls="exh-threads"))
    return cases


def _esc(comm):
    return comm.replace(b"\\", b"\\\\").replace(b"\n", b"\\n")


def _py_k_status(c):
    ls = [b"Name:\t" + _esc(bytes.fromhex(c["comm"]))] + [x.encode() for x in c["pre"]]
    ls.append(b"Uid:\t" + b"\t".join(str(x).encode() for x in c["uid"]))
    ls.append(b"Gid:\t" + b"\t".join(str(x).encode() for x in c["gid"]))
    ls += [x.encode() for x in c["mid"]] + [b"Threads:\t%d" % c["threads"]] + [x.encode() for x in c["post"]]
    if c["ctx"]:
        ls += [b"voluntary_ctxt_switches:\t%d" % c["ctx"][0], b"nonvoluntary_ctxt_switches:\t%d" % c["ctx"][1]]
    ls += [x.encode() for x in c["tail"]]
    return b"".join(l + b"\n" for l in ls)


# ------------------------------------------------------------------ Coq terms
def _kstat(pid, comm, after):
    return "(Build_kstat %s %s %s)" % (G.by(str(pid)), G.by(comm), G.lst([G.by(t) for t in after]))


def _thread_after(t):
    base = {"nfields": t["nfields"], "state": "53", "ppid": 1, "ttytxt": "0", "utime": t["utime"], "stime": t["stime"],
            "cutime": 0, "cstime": 0, "starttime": 777, "processor": 1, "blkio": 0}
    return _after(base)


def _own_after(state_hex):
    return _thread_after({"nfields": 52, "utime": 3, "stime": 4})[:0] + [bytes.fromhex(state_hex)] + _thread_after(
        {"nfields": 52, "utime": 3, "stime": 4})[1:]


def _pos(n):
    return "%d%%positive" % n


def coq_term(case):
    k = case["kind"]
    if k == "stat":
        devs = G.lst(["(Build_devnode %s %s %s)" % (G.by(p), G.z(ma), G.z(mi)) for p, ma, mi in case["devs"]])
        tty = "None" if case["tty"] is None else "(Some (%s, %s))" % (G.z(case["tty"][0]), G.z(case["tty"][1]))
        return "run_stat %s %s %s %s %s %s" % (G.bo(MASKED_TTY), _pos(case["clk"]), G.z(case["btime"]), devs, tty,
                                            _kstat(case["pid"], bytes.fromhex(case["comm"]), _after(case)))
    if k == "stat_raw":
        devs = G.lst(["(%s, %s)" % (G.by(p), G.opt(r, G.z)) for p, r in case["devs"]])
        return "run_stat_raw %s %s %s %s %s" % (G.bo(MASKED_TTY), _pos(case["clk"]), G.z(case["btime"]), devs, G.by(bytes.fromhex(case["data"])))
    if k == "status":
        ls = lambda xs: G.lst([G.by(x) for x in xs])  # noqa
        ids = " ".join(G.by(str(x)) for x in case["uid"] + case["gid"])
        ctx = "None" if case["ctx"] is None else "(Some (%s, %s))" % (G.by(str(case["ctx"][0])), G.by(str(case["ctx"][1])))
        return "run_status (Build_kstatus %s %s %s %s %s %s %s %s)" % (
            G.by(bytes.fromhex(case["comm"])), ls(case["pre"]), ids, ls(case["mid"]), G.by(str(case["threads"])),
            ls(case["post"]), ctx, ls(case["tail"]))
    if k == "status_raw":
        return "run_status_raw %s" % G.by(bytes.fromhex(case["data"]))
    if k == "threads":
        ts = ["(Build_kthread %s %s %s)" % (G.by(str(t["tid"])), _kstat(t["tid"], bytes.fromhex(t["comm"]), _thread_after(t)),
                                            G.bo(t["gone"])) for t in case["threads"]]
        own = _kstat(PID, b"own", _own_after(case["own_state"]))
        return "run_threads %s %s %s %s" % (_pos(case["clk"]), G.lst(ts), G.bo(case["alive"]), own)
    if k == "threads_raw":
        ls = ["(%s, %s)" % (G.by(nm), "TGone" if d is None else "(TContent %s)" % G.by(bytes.fromhex(d))) for nm, d in case["listing"]]
        return "run_threads_raw %s %s %s %s" % (_pos(case["clk"]), G.lst(ls), G.bo(case["alive"]), G.by(bytes.fromhex(case["own"])))
    if k == "ppid_map":
        ps = []
        for p in case["procs"]:
            after = [b"S", str(p["ppid"]).encode()] + [str(1000 + i).encode() for i in range(5, 53)]
            ps.append("(Build_kproc %s %s %s)" % (G.z(p["pid"]), _kstat(p["pid"], bytes.fromhex(p["comm"]), after), G.bo(p["gone"])))
        return "run_ppid_map %s" % G.lst(ps)
    if k == "ppid_map_raw":
        ps = ["(%s, %s)" % (G.z(p), "TGone" if d is None else "(TContent %s)" % G.by(bytes.fromhex(d))) for p, d in case["procs"]]
        return "run_ppid_map_raw %s" % G.lst(ps)
    raise ValueError(k)


def coq_struct(case, raw):
    k = case["kind"]
    if k in ("stat", "status", "ppid_map"):
        return {"printed": raw[0], "model": raw[1], "spec": raw[2]}
    if k == "threads":
        return {"printed": raw[0], "own": raw[1], "model": raw[2], "spec": raw[3]}
    return {"model": raw[0], "spec": None}


# ------------------------------------------------------------------ judging
TOL = Fraction(1, 2 ** 48)


def _same(impl, ref):
    """impl == ref, where an exact rational of the model {"t":"Q"} matches an implementation float {"t":"F"} within TOL."""
    if isinstance(ref, dict) and ref.get("t") == "Q":
        if isinstance(impl, dict) and impl.get("t") == "Q":
            return impl == ref
        if not (isinstance(impl, dict) and impl.get("t") == "F" and len(impl["a"]) == 2
                and all(isinstance(x, int) for x in impl["a"])):
            return False
        a = Fraction(int(impl["a"][0]), int(impl["a"][1]))
        b = Fraction(int(ref["a"][0]), int(ref["a"][1]))
        return abs(a - b) <= TOL * max(1, abs(b))
    if isinstance(ref, dict) and isinstance(impl, dict):
        if "t" in ref:
            return impl.get("t") == ref["t"] and _same(impl.get("a"), ref["a"])
        return impl == ref
    if isinstance(ref, list) and isinstance(impl, list):
        return len(ref) == len(impl) and all(_same(i, r) for i, r in zip(impl, ref))
    return type(impl) == type(ref) and impl == ref


def _oom(x):
    return isinstance(x, dict) and x.get("t") == "OutOfModel"


METHODS = {"stat": ["name", "ppid", "status", "cpu_times", "create_time", "cpu_num", "terminal"],
           "status": ["uids", "gids", "num_threads", "num_ctx_switches"]}


def judge(case, coq, impl):
    from pv.core import Verdict
    k = case["kind"]
    model, spec = coq["model"], coq["spec"]
    if case.get("expect_spec") and spec is None:
        return Verdict("corr", "harness: the specification does not apply to a generated kernel record (wf false)")
    if k in ("stat", "stat_raw", "status", "status_raw"):
        names = METHODS[k.split("_")[0]]
        specs = spec if spec is not None else [None] * len(names)
        bad_spec = [n for n, i, s in zip(names, impl, specs) if s is not None and not _same(i, s)]
        if bad_spec:
            return Verdict("violation", "%s() differs from what the kernel record says" % ", ".join(bad_spec))
        bad_model = [n for n, i, m in zip(names, impl, model) if not _oom(m) and not _same(i, m)]
        if bad_model:
            return Verdict("corr", "%s(): implementation differs from the model" % ", ".join(bad_model))
        if all(_oom(m) for m in model):
            return Verdict("skip", "out of model")
        return Verdict("ok")
    if _oom(model):
        return Verdict("skip", "out of model")
    if spec is not None and not _same(impl, spec):
        return Verdict("violation", "%s differs from what the kernel records say" % k)
    if not _same(impl, model):
        return Verdict("corr", "%s: implementation differs from the model" % k)
    return Verdict("ok")


# ------------------------------------------------------------------ implementation side
def _F(x):
    x = float(x)
    if x != x or x in (float("inf"), float("-inf")):
        return T("F", repr(x))
    n, d = x.as_integer_ratio()
    return T("F", n, d)


def _write(path, data):
    os.makedirs(os.path.dirname(path), exist_ok=True)
    with open(path, "wb") as f:
        f.write(data)


class _Rdev:
    def __init__(self, rdev):
        self.st_rdev = rdev


def _snap(impl, ref):
    """Replace an implementation float by the reference's exact rational when they agree within TOL, so that
    agreement becomes plain equality (pv.core compares known-finding cases with ==)."""
    if isinstance(ref, dict) and ref.get("t") == "Q":
        return ref if _same(impl, ref) else impl
    if isinstance(ref, dict) and isinstance(impl, dict) and "t" in ref and impl.get("t") == ref["t"] \
            and isinstance(impl.get("a"), list) and len(impl["a"]) == len(ref["a"]):
        return {"t": impl["t"], "a": [_snap(i, r) for i, r in zip(impl["a"], ref["a"])]}
    if isinstance(ref, list) and isinstance(impl, list) and len(ref) == len(impl):
        return [_snap(i, r) for i, r in zip(impl, ref)]
    return impl


def impl_run(case, coq, env):
    res = _impl_run(case, coq, env)
    res = _snap(res, coq.get("model"))
    if coq.get("spec") is not None:
        res = _snap(res, coq["spec"])
    return res


def _call(psutil, pid, meth, conv):
    return outcome(lambda: getattr(psutil.Process(pid), meth)(), conv)


def _impl_run(case, coq, env):
    import glob
    import shutil
    import psutil
    from psutil import _pslinux, _psposix
    from pv import fakeproc
    k = case["kind"]
    root = os.path.join(env["work"], "proc")
    fp = fakeproc.FakeProc(root, btime=case.get("btime", 1500000000))
    fakeproc.attach(psutil, root)
    real_clk = _pslinux.CLOCK_TICKS
    real_glob, real_stat, real_listdir = glob.glob, os.stat, os.listdir
    _pslinux.CLOCK_TICKS = case.get("clk", real_clk)
    try:
        if k in ("stat", "stat_raw"):
            pid = case["pid"]
            fp.add(pid)
            fp.write(pid, "cmdline", b"")   # name() must not be replaced by a cmdline-derived one (that is C12)
            fp.write(pid, "stat", unB(coq["printed"]) if k == "stat" else bytes.fromhex(case["data"]))
            if k == "stat":
                devmap = {p: glibc_makedev(ma, mi) for p, ma, mi in case["devs"]}
                order = [p for p, _, _ in case["devs"]]
            else:
                devmap = {p: r for p, r in case["devs"]}
                order = [p for p, _ in case["devs"]]

            def fake_glob(pat, *a, **kw):
                if pat == "/dev/tty*":
                    return [p for p in order if p.startswith("/dev/tty")]
                if pat == "/dev/pts/*":
                    return [p for p in order if p.startswith("/dev/pts/")]
                return real_glob(pat, *a, **kw)

            def fake_stat(path, *a, **kw):
                if isinstance(path, str) and path in devmap:
                    if devmap[path] is None:
                        raise FileNotFoundError(2, "No such file or directory", path)
                    return _Rdev(devmap[path])
                return real_stat(path, *a, **kw)
            # the model's listing is glob('/dev/tty*') + glob('/dev/pts/*'): keep that order on the Coq side too
            assert order == [p for p in order if p.startswith("/dev/tty")] + [p for p in order if p.startswith("/dev/pts/")], order
            glob.glob, os.stat = fake_glob, fake_stat
            _psposix.get_terminal_map.cache_clear()
            try:
                return [
                    _call(psutil, pid, "name", B),
                    _call(psutil, pid, "ppid", int),
                    _call(psutil, pid, "status", B),
                    _call(psutil, pid, "cpu_times", lambda r: [_F(r.user), _F(r.system), _F(r.children_user),
                                                                 _F(r.children_system), _F(r.iowait)]),
                    _call(psutil, pid, "create_time", _F),
                    _call(psutil, pid, "cpu_num", int),
                    _call(psutil, pid, "terminal", lambda r: None if r is None else B(r)),
                ]
            finally:
                glob.glob, os.stat = real_glob, real_stat
                _psposix.get_terminal_map.cache_clear()
        if k in ("status", "status_raw"):
            pid = PID
            fp.add(pid)
            fp.write(pid, "status", unB(coq["printed"]) if k == "status" else bytes.fromhex(case["data"]))
            return [
                _call(psutil, pid, "uids", lambda r: [r.real, r.effective, r.saved]),
                _call(psutil, pid, "gids", lambda r: [r.real, r.effective, r.saved]),
                _call(psutil, pid, "num_threads", int),
                _call(psutil, pid, "num_ctx_switches", lambda r: [r.voluntary, r.involuntary]),
            ]
        if k in ("threads", "threads_raw"):
            pid = PID
            fp.add(pid)
            fp.write(pid, "stat", unB(coq["own"]) if k == "threads" else bytes.fromhex(case["own"]))
            task = os.path.join(root, str(pid), "task")
            shutil.rmtree(task)
            os.makedirs(task)
            if k == "threads":
                items = [(str(t["tid"]), None if t["gone"] else unB(pr)) for t, pr in zip(case["threads"], coq["printed"])]
            else:
                items = [(nm, None if d is None else bytes.fromhex(d)) for nm, d in case["listing"]]
            for nm, data in items:
                os.makedirs(os.path.join(task, nm))
                if data is not None:
                    _write(os.path.join(task, nm, "stat"), data)
            p = psutil.Process(pid)
            alive = case["alive"]
            pdir = os.path.join(root, str(pid))

            def fake_stat(path, *a, **kw):
                if not alive and isinstance(path, str) and (path + "/").startswith(pdir + "/"):
                    raise FileNotFoundError(2, "No such file or directory", path)
                return real_stat(path, *a, **kw)
            os.stat = fake_stat
            try:
                return outcome(p.threads, lambda rows: [[r.id, _F(r.user_time), _F(r.system_time)] for r in rows])
            finally:
                os.stat = real_stat
        if k in ("ppid_map", "ppid_map_raw"):
            if k == "ppid_map":
                items = [(p["pid"], None if p["gone"] else unB(pr)) for p, pr in zip(case["procs"], coq["printed"])]
            else:
                items = [(p, None if d is None else bytes.fromhex(d)) for p, d in case["procs"]]
            for pid, data in items:
                os.makedirs(os.path.join(root, str(pid)))
                if data is not None:
                    _write(os.path.join(root, str(pid), "stat"), data)
            order = [str(pid).encode() for pid, _ in items]

            def fake_listdir(path=".", *a):
                r = real_listdir(path, *a)
                if os.fsencode(path) == os.fsencode(root):
                    extra = [x for x in r if os.fsencode(x) not in order]
                    conv = (lambda x: x) if isinstance(path, bytes) else os.fsdecode
                    return [conv(x) for x in order] + extra
                return r
            os.listdir = fake_listdir
            try:
                return outcome(_pslinux.ppid_map, lambda d: [[a, b] for a, b in d.items()])
            finally:
                os.listdir = real_listdir
        raise ValueError(k)
    finally:
        _pslinux.CLOCK_TICKS = real_clk
        glob.glob, os.stat, os.listdir = real_glob, real_stat, real_listdir


def gen_tables(impl_dir, out_dir):
    return _c06_tables.gen_tables(impl_dir, out_dir)


MANIFEST = {
    "text": "Theorems (Coq 8.16, all closed under the global context) over the Gallina transcription of _parse_stat_file, the stat-fed "
            "accessors, the four status-file regex scanners, threads(), ppid_map() and get_terminal_map(): for EVERY kernel-formatted "
            "stat record (any comm bytes of any length, any number >= 37 of fields after the name, any digit strings) name/ppid/"
            "status/cpu_times/create_time/cpu_num/terminal return exactly the proc(5) fields (ticks/CLK as exact rationals, "
            "start/CLK + boot, letter -> STATUS_* over the table generated from the code, tty number -> device path for every "
            "major < 2^12 and minor < 2^20) and constructing the Process object never fails; for every status file (any comm) "
            "uids/gids/num_threads are exact, num_ctx_switches is exact for comm <= 15 bytes (bound shown sharp); threads() is exact "
            "for any list of threads with any names; ppid_map is exact. Refuted-for-the-old-code witnesses are kept (signed tty_nr). "
            "The model is tied to the code by running the real psutil (public API, fake /proc and /dev, patched CLOCK_TICKS) and the "
            "model on the same printed records and on a malformed stream.",
    "note": "Trusted: Coq kernel + vm_compute; hand-written model coq/C06/Model.v (tied by the correspondence run only, including "
            "the regex scanners standing for CPython's re); kernel formats in coq/C06/Spec.v; table translator; harness patches "
            "(CLOCK_TICKS, glob.glob, os.stat, os.listdir); CPython builtins and IEEE doubles. Proof covers the model, sampling covers "
            "model-vs-code.",
}
