"""C06 -- per-process kernel facts are exact, whatever bytes the process / thread name contains."""
import json
import os
from fractions import Fraction

from pv import gallina as G
from pv.canon import B, T, outcome, unB
from props import _c06_tables

ID = "C06"
COQ_REQUIRE = "C06.Run"
SHARD = 150
RULE = ("15 LIVE cases per run (one child with 7000 supplementary groups: a real status file > 32 KiB): real children (prctl names with parentheses/blanks/newline/backslash/non-UTF-8/15-byte "
        "truncation/'Uid:\\t0\\t0\\t0'/'ctxt_switches:\\t', a copied /bin/sleep under a hostile file name, 4 named threads, nice 7, "
        "SIGSTOPped, zombie, controlling pty) whose real /proc/<pid>/stat, status and task/<tid>/stat must equal byte for byte "
        "what k_stat/k_status print for the parsed record, then go through model, psutil-over-fake-tree and psutil over the real "
        "/proc; kernel records printed by the Coq kernel printers (k_stat, k_status, k_procstat) from generated task records: comm of 0-15 "
        "bytes (threads up to 64) over an alphabet weighted towards ')' '(' space tab newline ':' backslash digits, the literal "
        "prefixes 'Uid:\\t' 'Gid:\\t' 'Threads:\\t' 'ctxt_switches:\\t' and bytes >= 0x80; 12 documented state letters + 4 "
        "unknown; counters from {0,1,99,2^31,2^32,2^63,2^64-1,10^25}; N = 39..52 fields (old-kernel records without "
        "delayacct_blkio_ticks); tick rates {1,100,250,1000,1024}; four /proc/stat layouts for btime; /dev and /dev/pts as "
        "directory listings scanned by the real glob (tty and non-tty names, dot-files, aliases = several paths for one device, "
        "nodes that vanish, pts minors up to 2^20-1); read faults on the stat file between construction and call (ESRCH/ENOENT/"
        "EACCES x re-read) for name/status/cpu_num; 1-8 threads with their own names, vanishing threads, dead/zombie owner; "
        "name() as a str in child interpreters started with each available file-system encoding (utf-8; ascii = LC_ALL=C with "
        "UTF-8 mode and locale coercion off) for names of bytes >= 0x80 that are well-formed UTF-8 (2/3/4-byte, range ends), "
        "truncated, overlong, surrogates, > U+10FFFF, stray bytes; SIZE: status files larger than the 32 KiB read buffer (5000-11000 supplementary groups in the Groups: "
        "line, built inside Gallina from run lengths) with byte 32768 inside the Groups line, right after its newline, inside the "
        "digits of Threads:\\t128, inside 31337 of voluntary_ctxt_switches and inside the key nonvoluntary_ctxt_switches, plain and "
        "inside oneshot(), one under -bb; a task directory of 400 threads; interpreter modes: ALL record layouts (N = 39..52, short records raising IndexError, status without "
        "ctxt lines, non-UTF-8 names, threads, /proc listing, ascii child, history, read fault) under each of python -bb, -O and "
        "-W error, plus an 18 % sample of every other kind under -bb/-O/-W error/-X dev; name() histories on ONE Process object (2-4 kernel states, same pid: extended from "
        "cmdline, exec to a program sharing the 15-byte comm, argv[0] matching or not, blanks as separators, zombie with empty "
        "cmdline, cmdline EACCES/ESRCH/ENOENT, stat gone/denied, renamed to a short comm, PID reused; str()/repr()/as_dict()/"
        "name() touches in between); ppid_map/pids over /proc listings with present/vanished/unreadable processes and non-numeric entries; plus a malformed "
        "stream (truncated / mutated records, broken /proc/stat, rdev-0 files, unreadable thread files) compared with the model "
        "only. A case is non-trivial when its name is non-empty or a counter is non-zero; distinct = distinct canonical case hash.")
TRUSTED = ["correspondence harness props/C06.py + pv/ (fake /proc tree; os.scandir/os.stat patched for /dev and /dev/pts under "
           "the real glob; psutil._common.open patched for read faults; psutil._pslinux.CLOCK_TICKS patched to the case's tick rate)",
           "kernel formats of /proc/<pid>/stat, /proc/<pid>/status (Name escaping), /proc/stat btime, new_encode_dev and glibc "
           "makedev transcribed in coq/C06/Spec.v",
           "table translator props/_c06_tables.py (PROC_STATUSES, STATUS_ZOMBIE, and the ast dump of formatting sites of the reader "
           "functions -> coq/Gen/C06_Tables.v); the per-function lists of bytes-typed locals in coq/C06/Spec.v are hand-written",
           "live helper props/_c06_live.py and the harness-side parsers _parse_real_stat/_parse_real_status (they only cut the real "
           "text into the fields the Coq printers re-assemble; a wrong cut shows up as a byte mismatch)",
           "child interpreters props/_c06_child.py (one per file-system encoding, JSON line protocol); the fs codec transcribed in "
           "coq/C06/Codec.v (utf-8/ascii/latin-1 + surrogateescape) is compared with CPython's on every such case",
           "CPython re engine agrees with the four hand-written scanners of coq/C06/Model.v; glob/fnmatch agree with glob_tty/"
           "glob_pts (both exercised by the run)"]
ASSUMPTIONS = ["CPython semantics of bytes.find/rfind/split/strip/isdigit, int(), float() on integral text, list.sort, dict are modelled, not verified",
               "big records (status > 32 KiB, 400-thread task directories) are not printed byte by byte by Coq: the harness rebuilds them with "
               "its Python twin of the printer and must reproduce Coq's length, checksum and first 64 bytes; the twin is also what "
               "places the 32768 boundary (checked against the planned byte)",
               "float()/int() input longer than 300 digits, float literals that are not integers, and non-ASCII state "
               "tokens are outside the model (OutOfModel, skipped)",
               "no latin-1 (or other 8-bit) locale is installed on this host: the latin-1 decoder is proved (round trip) but only utf-8 and "
               "ascii interpreters are run",
               "directory names of /proc that are all digits are canonical decimals (no leading zeros) and distinct",
               "IEEE double rounding of float(ticks)/CLOCK_TICKS (+ btime) is accepted within tol x = 2^-48 * max(1,|x|); theorem "
               "C06_tolerance_below_half_tick shows 2*tol < one tick for |x| <= 2^36 s, CLK <= 1024"]
EXHAUSTIVE = {"quick": "all 12 PROC_STATUSES letters against the documented table and the whole table against the documented "
                       "letters (Coq, vm_compute, both directions) and as cases",
              "thorough": "all 585 names of length <= 3 over the critical alphabet {')','(',' ','\\n','\\t',':','\\\\','a'} "
                          "as process name (stat + status) and as thread name"}

CLKS = [100, 100, 250, 1000, 1024, 1]
COUNTERS = [0, 1, 99, 2 ** 31, 2 ** 32, 2 ** 63, 2 ** 64 - 1, 10 ** 25, 12345, 7]
STATES = [b"R", b"S", b"D", b"T", b"t", b"Z", b"X", b"x", b"K", b"W", b"I", b"P", b"?", b"N", b"(", b"Q"]
CRIT = [b")", b"(", b" ", b"\n", b"\t", b":", b"\\", b"a"]
PIECES = [b")", b")", b"(", b" ", b" ", b"\t", b"\n", b":", b"\\", b"\\n", b") ", b" (", b") S 1 ", b"0", b"9", b"a", b"Z",
          b"\xff", b"\x80", b"\xc3\xa9", b"\xe2\x82", b"\r", b"\x0b", b"\x01", b"-", b"_", b"Uid:\t", b"Gid:\t", b"Threads:\t",
          b"ctxt_switches:\t", b"Uid:\t0\t0\t0", b"Threads:\t99", b"Name:\t", b"\nUid:\t0\t0\t0\t0", b") R 0 0 0 0"]
PID = 4242
MASKED_TTY = True   # model parameter: False = terminal() before the repair 2414912 (signed tty_nr looked up)


def _comm(rng, maxlen=15):
    k = rng.random()
    if k < 0.08:
        return b""
    if k < 0.2:
        return bytes(rng.choice(b"abcdefghijklmnopqrstuvwxyz-_/0123456789") for _ in range(rng.randint(1, maxlen)))
    out = b""
    n = rng.choice([1, 2, 3, 5, 8, maxlen, maxlen])
    while len(out) < n:
        out += rng.choice(PIECES) if rng.random() < 0.85 else bytes([rng.randint(1, 255)])
    out = out.replace(b"\x00", b"\x01")
    return out[:maxlen] if rng.random() < 0.8 else out[-maxlen:]


def kernel_tty_nr(ma, mi):
    """new_encode_dev() stored in the `int tty_nr` of do_task_stat and printed with %d."""
    u = (mi & 0xff) | (ma << 8) | ((mi & ~0xff & 0xffffffff) << 12)
    u &= 0xffffffff
    return u if u < 2 ** 31 else u - 2 ** 32


def glibc_makedev(ma, mi):
    return ((ma & 0xfff) << 8) | ((ma & 0xfffff000) << 32) | (mi & 0xff) | ((mi & 0xffffff00) << 12)


def _after(c):
    """fields (3)..(nfields) of proc(5) for a stat case; fillers are recognisable (1000 + field number)."""
    n = c["nfields"]
    f = {k: str(1000 + k).encode() for k in range(3, n + 1)}
    f[3] = bytes.fromhex(c["state"])
    f[4] = str(c["ppid"]).encode()
    f[7] = c["ttytxt"].encode()
    f[8] = b"-1"
    f[14], f[15], f[16], f[17] = (str(c[k]).encode() for k in ("utime", "stime", "cutime", "cstime"))
    f[18], f[19] = b"-100", b"-5"
    f[22] = str(c["starttime"]).encode()
    if n >= 39:
        f[39] = str(c["processor"]).encode()
    if n >= 42:
        f[42] = str(c["blkio"]).encode()
    if n >= 52:
        f[52] = b"0"
    return [f[k] for k in range(3, n + 1)]


def _py_k_stat(pid, comm, after):
    return str(pid).encode() + b" (" + comm + b") " + b" ".join(after) + b"\n"


PROCSTAT = [
    (["cpu  10 0 10 100 0 0 0 0 0 0", "cpu0 10 0 10 100 0 0 0 0 0 0", "intr 5", "ctxt 7"],
     ["processes 3", "procs_running 1", "procs_blocked 0", "softirq 9"]),
    ([], []),
    (["cpu  1 2 3 4", "page 5 6", "swap 1 1", "intr 9 9 9", "disk_io: (3,0):(1,1,1,1,1)", "ctxt 12"], ["processes 40"]),
    (["cpu  1 2 3 4", "xbtime 3", " btime 4"], ["btime 99", "processes 1"]),
]


def _dirs_gen(rng):
    """/dev and /dev/pts as directory listings: [name, major, minor, gone]."""
    dev, pts = [], []
    if rng.random() < 0.85:
        for i in rng.sample(range(0, 64), rng.randint(0, 4)):
            dev.append(["tty%d" % i, 4, i, False])
        if rng.random() < 0.5:
            dev.append(["tty", 5, 0, False])
        if rng.random() < 0.3:
            dev.append(["ttyS0", 4, 64, rng.random() < 0.3])
        for nm, ma, mi in rng.sample([("null", 1, 3), ("console", 5, 1), ("ptmx", 5, 2), ("sda", 8, 0), ("tt", 4, 9),
                                      (".tty9", 4, 9), ("xtty1", 4, 1), ("TTY2", 4, 2)], rng.randint(0, 3)):
            dev.append([nm, ma, mi, False])          # not matched by 'tty*'
        rng.shuffle(dev)
        for i in rng.sample([0, 1, 2, 7, 255, 256, 257, 4095, 4096, 65535, 2 ** 19 - 1], rng.randint(0, 4)):
            pts.append([str(i), 136 + (i >> 20), i, rng.random() < 0.05])
        if rng.random() < 0.4:
            pts.append(["ptmx", 5, 2, False])
        if pts and rng.random() < 0.25:                 # a second path for a listed device (which one wins?)
            d = rng.choice(pts)
            pts.insert(rng.randint(0, len(pts)), [rng.choice(["alias", "z", "0copy"]), d[1], d[2], False])
        if pts and rng.random() < 0.15:                 # dot-files are not globbed
            d = rng.choice(pts)
            pts.append([".hidden", d[1], d[2], False])
        if dev and pts and rng.random() < 0.1:          # /dev/ttyX and /dev/pts/Y naming one device
            d = rng.choice(pts)
            dev.append(["ttyalias", d[1], d[2], False])
    return dev, pts


def _dirs(case):
    """(dev, pts) of a stat case; corpus cases written before the directory model carry a flat 'devs' list."""
    if "dev" in case:
        return case["dev"], case["pts"]
    dev = [[p[len("/dev/"):], ma, mi, False] for p, ma, mi in case["devs"] if not p.startswith("/dev/pts/")]
    pts = [[p[len("/dev/pts/"):], ma, mi, False] for p, ma, mi in case["devs"] if p.startswith("/dev/pts/")]
    return dev, pts


def _procstat(case):
    pre, post = PROCSTAT[case.get("ps", 0)]
    return pre, str(case["btime"]), post


def _py_k_procstat(case):
    pre, bt, post = _procstat(case)
    return "".join(l + "\n" for l in pre + ["btime " + bt] + post).encode()


def _stat_case(rng, comm=None, cls=None, known_high=False):
    dev, pts = _dirs_gen(rng)
    listed = [d for d in dev if d[0].startswith("tty")] + [d for d in pts if not d[0].startswith(".")]
    k = rng.random()
    if k < 0.3:
        tty = None
    elif k < 0.75 and listed:
        d = rng.choice(listed)
        tty = [d[1], d[2]]
    else:
        tty = [rng.choice([4, 136, 136, 137, 188, 4095]), rng.choice([0, 1, 63, 255, 256, 300, 4096, 2 ** 19 - 1])]
        if rng.random() < 0.5:
            pts.append(["x%d" % tty[1], tty[0], tty[1], False])
    if known_high:
        mi = rng.choice([2 ** 19, 2 ** 19 + 5, 2 ** 20 - 1])
        tty = [136, mi]
        pts.append([str(mi), 136, mi, False])
    comm = _comm(rng) if comm is None else comm
    c = {"kind": "stat", "pid": rng.choice([1, PID, 4194303]), "comm": comm.hex(), "state": rng.choice(STATES).hex(),
         "ppid": rng.choice([0, 1, 2, 77, 4194303]), "tty": tty,
         "ttytxt": "0" if tty is None else str(kernel_tty_nr(*tty)),
         "utime": rng.choice(COUNTERS), "stime": rng.choice(COUNTERS), "cutime": rng.choice(COUNTERS),
         "cstime": rng.choice(COUNTERS), "starttime": rng.choice(COUNTERS + [5000, 424242]),
         "processor": rng.choice([0, 1, 3, 127, 8191]), "blkio": rng.choice(COUNTERS),
         "nfields": rng.choice([39, 40, 41, 42, 44, 47, 52, 52, 52, 52]), "clk": rng.choice(CLKS),
         "btime": rng.choice([0, 1, 1500000000, 1700000000, 2 ** 31 + 5]), "ps": rng.choice([0, 0, 0, 1, 2, 3]),
         "dev": dev, "pts": pts, "expect_spec": True}
    if cls is None:
        trivial = not comm and not any(c[x] for x in ("utime", "stime", "cutime", "cstime", "starttime"))
        cls = "trivial" if trivial else "stat" + ("-oldkernel" if c["nfields"] < 42 else "") + ("-tty" if tty else "")
        if known_high:
            cls = "stat-tty-highminor"
    c["cls"] = cls
    return c


OTHER_PRE = ["Umask:\t0022", "State:\tS (sleeping)", "Tgid:\t4242", "Ngid:\t0", "Pid:\t4242", "PPid:\t1", "TracerPid:\t0"]
OTHER_MID = ["NStgid:\t4242", "NSpid:\t4242", "Kthread:\t0", "VmPeak:\t    1000 kB", "VmSize:\t     900 kB"]
GROUP_RUNS = [[], [], [["0", 1]], [["4", 1], ["24", 1], ["27", 1], ["1000", 1]], [["65534", 40]],
              [["1", 3], ["4294967295", 2], ["10", 1]]]


def _groups(case):
    """the groups of a status case as a list of decimal strings; given as [gid, count] runs (corpus cases from before the
    groups field have none: the kernel then prints 'Groups:\\t \\n')"""
    return [g for g, n in case.get("groups", []) for _ in range(n)]


def _fd(case):
    return case.get("fd", ["FDSize:\t64"])
OTHER_POST = ["SigQ:\t0/63432", "SigPnd:\t0000000000000000", "CapEff:\t000001ffffffffff", "Seccomp:\t0",
              "Cpus_allowed:\tff", "Cpus_allowed_list:\t0-7", "Mems_allowed_list:\t0"]
OTHER_TAIL = [[], [], ["x86_Thread_features:\t", "x86_Thread_features_locked:\t"], ["Future_key:\t17"]]
IDS = [0, 1, 99, 1000, 65534, 2 ** 31, 2 ** 32 - 1, 2 ** 64 - 1, 10 ** 25]


def _sub(rng, lines):
    if rng.random() < 0.6:
        return list(lines)
    return [l for l in lines if rng.random() < 0.6]


def _status_case(rng, comm=None, cls=None):
    comm = _comm(rng, 15 if rng.random() < 0.9 else 40) if comm is None else comm
    c = {"kind": "status", "comm": comm.hex(), "pre": _sub(rng, OTHER_PRE), "mid": _sub(rng, OTHER_MID),
         "post": _sub(rng, OTHER_POST), "tail": rng.choice(OTHER_TAIL), "fd": rng.choice([["FDSize:\t64"], ["FDSize:\t256"], []]),
         "groups": rng.choice(GROUP_RUNS), "oneshot": rng.random() < 0.3,
         "uid": [rng.choice(IDS) for _ in range(4)], "gid": [rng.choice(IDS) for _ in range(4)],
         "threads": rng.choice([1, 2, 99, 32768, 2 ** 32]),
         "ctx": None if rng.random() < 0.1 else [rng.choice(COUNTERS), rng.choice(COUNTERS)], "expect_spec": True}
    c["cls"] = cls or ("status" + ("-noctx" if c["ctx"] is None else "") + ("-longname" if len(comm) > 15 else ""))
    return c


def _thread(rng, tid, comm=None):
    return {"tid": tid, "comm": (_comm(rng, rng.choice([15, 15, 15, 64])) if comm is None else comm).hex(),
            "utime": rng.choice(COUNTERS), "stime": rng.choice(COUNTERS), "gone": rng.random() < 0.08,
            "nfields": rng.choice([39, 44, 52, 52])}


def _threads_case(rng, comm=None, cls=None):
    n = rng.choice([1, 1, 2, 3, 5, 8])
    tids = rng.sample([PID, 1, 2, 9, 10, 11, 99, 100, 101, 999, 1000, 4243, 4250, 10000, 4194303], n)
    ths = [_thread(rng, t, comm) for t in tids]
    alive = rng.random() < 0.85
    c = {"kind": "threads", "clk": rng.choice(CLKS), "threads": ths, "alive": alive,
         "own_state": rng.choice(["53", "53", "5a"]), "expect_spec": True}
    gone = any(t["gone"] for t in ths)
    if not alive and gone:
        c["expect_spec"] = False
    c["cls"] = cls or ("threads" + ("-vanishing" if gone else "") + ("" if alive or not gone else "-dead"))
    return c


OTHER_NAMES = ["self", "thread-self", "sys", "net", "cpuinfo", "12x", "x12", "1 2", "-5", "+5", "1_0", "１２"]


def _ppid_map_case(rng):
    n = rng.choice([1, 2, 3, 6])
    pids = rng.sample([1, 2, 10, 77, 300, PID, 99999, 4194303], n)
    ents = [{"pid": p, "comm": _comm(rng).hex(), "ppid": rng.choice([0, 1, 2, 10, 77, 4194303]),
             "state": rng.choice(["present"] * 8 + ["gone", "denied"])} for p in pids]
    for nm in rng.sample(OTHER_NAMES, rng.choice([0, 1, 2, 3])):
        ents.insert(rng.randint(0, len(ents)), {"other": nm})
    return {"kind": "ppid_map", "cls": "ppid_map" + ("-mixed" if any("other" in e for e in ents) else ""),
            "ents": ents, "expect_spec": True}


HI_PIECES = [b"caf\xc3\xa9", b"\xc3\xa9", b"\xe2\x82\xac", b"\xf0\x9f\x98\x80", b"\xc2\x80", b"\xdf\xbf", b"\xe0\xa0\x80",
             b"\xef\xbf\xbf", b"\xf4\x8f\xbf\xbf", b"\xed\x9f\xbf", b"\xee\x80\x80",          # well-formed, incl. the range ends
             b"\xc3", b"\xe2\x82", b"\xf0\x9f\x98", b"\xa9", b"\x80", b"\xbf", b"\xff", b"\xfe", # truncated / stray
             b"\xc0\x80", b"\xc1\xbf", b"\xe0\x9f\xbf", b"\xf0\x8f\xbf\xbf",                  # overlong
             b"\xed\xa0\x80", b"\xed\xbf\xbf", b"\xf4\x90\x80\x80", b"\xf5\x80\x80\x80",       # surrogates, > U+10FFFF
             b"a", b"Z", b")", b" ", b"(", b"\n", b"-", b"\xe9", b"\xc4\x9f\xc3\xbc"]
FS_ENCODINGS = ["utf-8", "ascii"]      # what this host can start an interpreter with (no latin-1 locale installed)


def _name_enc_case(rng, enc=None):
    out = b""
    n = rng.choice([2, 4, 5, 8, 15, 15])
    while len(out) < n:
        out += rng.choice(HI_PIECES) if rng.random() < 0.9 else bytes([rng.randint(128, 255)])
    comm = out[:15] if rng.random() < 0.7 else out[-15:]
    base = _stat_case(rng, comm=comm, cls="x")
    enc = enc or rng.choice(FS_ENCODINGS)
    return dict(base, kind="name_enc", cls="name-fsenc-" + enc, enc=enc, expect_spec=True)


LONG_COMMS = [b"gnome-keyring-d", b"kworker/u16:3-e", b"a) b) (c) S 1 2", b"caf\xc3\xa9-service-x", b"exactly15bytes!",
              b"sixteen-bytes-xy", b"with space in n"]
SHORT_COMMS = [b"sh", b"gnome-keyring", b"fourteen-bytes"]


def _cmdlines_for(rng, comm):
    """command lines around a comm: extending it, sharing only the prefix, not matching, chrome-style, empty, errors."""
    c = comm
    return [
        (b"/usr/bin/" + c + b"aemon\x00--start\x00").hex(),           # extended name
        (b"/opt/x/" + c + b"ump\x00").hex(),                          # another program sharing the first 15 bytes
        (c + b"\x00").hex(),                                          # exactly the comm
        (b"/usr/bin/python3\x00/usr/bin/" + c + b"aemon\x00").hex(),   # argv[0] does not match
        (b"./" + c + b"-helper --type=renderer").hex(),               # blanks as separators, no trailing NUL
        (c + b"zz one two\x00").hex(),                                # single NUL-terminated arg with blanks
        (b"/" + c[:-1] + b"\x00").hex(),                              # one byte short of the comm
        b"\x00".hex(), b" ".hex(), b"/\x00".hex(),
        "",                                                           # empty (zombie / kernel thread)
        "EACCES", "ESRCH", "ENOENT",
    ]


def _name_hist_case(rng):
    comm = rng.choice(LONG_COMMS)[:rng.choice([15, 15, 15, 16])]
    steps = []
    n = rng.choice([2, 2, 3, 3, 4])
    start = rng.choice([5000, 424242])
    for i in range(n):
        k = rng.random()
        c = comm
        if k < 0.12:
            c = rng.choice(SHORT_COMMS)                               # renamed (prctl): no longer truncated
        elif k < 0.2:
            c = comm[:14] + b"X"                                      # differs in the 15th byte
        cmd = rng.choice(_cmdlines_for(rng, comm))
        state = "53"
        if rng.random() < 0.2:
            state, cmd = "5a", rng.choice(["", "", "ESRCH", "ENOENT", cmd])   # zombie: empty cmdline
        stat = "data"
        if i > 0 and rng.random() < 0.1:
            stat = rng.choice(["gone", "denied"])
            if stat == "gone":
                cmd = rng.choice(["ENOENT", "ESRCH"])
        if rng.random() < 0.15:
            start += 1000                                             # PID reused by another program
        steps.append({"comm": c.hex(), "state": state, "cmd": cmd, "stat": stat, "starttime": start,
                      "touch": rng.sample(["str", "as_dict", "name", "repr"], rng.choice([0, 0, 1, 2]))})
    return {"kind": "name_hist", "cls": "name-history-%d" % n, "pid": PID, "steps": steps, "expect_spec": True}


def _digest(data):
    a = 7
    for c in data:
        a = (a * 257 + c + 1) % 2147483629
    return {"t": "Digest", "a": [len(data), a, {"b": data[:64].hex()}]}


def _same_digest(what, coq_digest, data):
    if coq_digest != _digest(data):
        raise RuntimeError("C06 harness: the Python twin of the Coq printer built a different %s (%r vs %r)"
                           % (what, _digest(data)["a"][:2], coq_digest["a"][:2]))


BUF = 32 * 1024        # psutil's FILE_READ_BUFFER_SIZE: the status file is not bounded by it


def _big_status_case(rng, where, total=None):
    """A status record larger than the read buffer: `where` says what the byte at offset 32768 belongs to."""
    c = _status_case(rng, comm=rng.choice([b"sshd", b"many) groups (x"]), cls="status-big-" + where)
    c.update(threads=128, ctx=[31337, 7], fd=["FDSize:\t64"], groups=[], oneshot=rng.random() < 0.5, big=True)
    data0 = _py_k_status(c)                       # with the empty list "Groups:\t \n"
    g_end = data0.index(b"Groups:\t ") + len(b"Groups:\t ")          # offset just after the blank
    if where == "inside-groups":
        need = (total or 40000) - len(data0)
    elif where == "groups-line-end":              # the newline of the Groups line is byte 32767: next line starts at 32768
        need = BUF - (g_end + 1)
    elif where == "threads-digits":               # boundary between '1' and '28' of Threads:\t128
        need = BUF - (data0.index(b"Threads:\t128") + len(b"Threads:\t1"))
    elif where == "ctxt-digits":                  # boundary inside 31337
        need = BUF - (data0.index(b"voluntary_ctxt_switches:\t31337") + len(b"voluntary_ctxt_switches:\t313"))
    elif where == "ctxt-key":                     # boundary inside the key "nonvoluntary_ctxt_switches"
        need = BUF - (data0.index(b"nonvoluntary_ctxt") + 7)
    else:
        raise ValueError(where)
    # need = bytes to add to the Groups line: each gid costs len+1 ("g "): 6-byte, 3-byte and 2-byte pieces
    b6, rest = divmod(need + 1, 6)     # an empty list already prints one blank: n gids add sum(len + 1) - 1 bytes
    sol = None
    for take in range(0, 3):                      # give back up to two 6-byte pieces to make the remainder representable
        r = rest + 6 * take
        for a in range(0, 6):
            for c3 in range(0, 4):
                if 2 * a + 3 * c3 == r and b6 - take >= 0:
                    sol = (b6 - take, c3, a)
                    break
            if sol:
                break
        if sol:
            break
    n6, n3, n2 = sol
    c["groups"] = [["65534", n6], ["10", n3], ["7", n2]]
    data = _py_k_status(c)
    assert len(data) == len(data0) + need, (len(data), len(data0), need)
    c["probe"] = None
    if where != "inside-groups":
        probe = {"groups-line-end": b"\n", "threads-digits": b"1", "ctxt-digits": b"3", "ctxt-key": b"u"}[where]
        assert data[BUF - 1:BUF] == probe, (where, data[BUF - 8:BUF + 8])
        c["probe"] = probe.hex()
    return c


def _threads_big_case(rng, n):
    return {"kind": "threads_big", "cls": "threads-big", "clk": 100, "n": n, "base": rng.choice([100000, 4190000]),
            "comm": rng.choice([b"w) %d (", b"worker"]).hex(), "alive": True, "own_state": "53", "expect_spec": True}


def _mutate(rng, data):
    k = rng.random()
    if k < 0.3:   # truncate after some field
        toks = data.split(b" ")
        return b" ".join(toks[:rng.randint(0, len(toks))])
    if k < 0.45:
        return data.replace(b")", b"", rng.choice([1, 5]))
    if k < 0.55:
        return data.replace(b"(", b"")
    if k < 0.7:
        i = rng.randrange(len(data)) if data else 0
        return data[:i] + rng.choice([b"x", b" ", b"  ", b"\t", b"-", b"_", b"+", b"\xff", b")", b"1 2", b"\n"]) + data[i + 1:]
    if k < 0.8:
        return data.rstrip(b"\n")
    if k < 0.9:
        return data.replace(b" ", b"  ", rng.choice([1, 3, 100]))
    return rng.choice([b"", b"\n", b")", b"1 (a) S", b"()", b") ", b"1 (a)S 2 3"])


RAW_STATUS = [
    b"", b"\n", b"Uid:\t1\t2\t3", b"Uid:\t1\t2\t3\n", b"Uid:\t1\t2\n", b"Uid:\t1\t2\t\n", b" Uid:\t1\t2\t3\t4\n", b"\rUid:\t1\t2\t3\n",
    b"x\nUid:\t1\t2\t3\t4\nUid:\t5\t6\t7\t8\n", b"xUid:\t1\t2\t3\nGid:\t4\t5\t6x\n", b"Uid:\t1 \t2\t3\n", b"Uid:\t12a\t2\t3\n",
    b"Uid:\t1\t2\t3x4\nThreads:\t7\n", b"Threads:\t\n", b"Threads:\t5", b"Threads: 5\n", b"\n\nThreads:\t0012\n", b"threads:\t5\n",
    b"Name:\tThreads:\t99\nThreads:\t1\n", b"Name:\ta\nUid:\t0\t0\t0\t0\nGid:\t1\t1\t1\t1\nThreads:\t3\n",
    b"ctxt_switches:\t5\n", b"ctxt_switches:\t5\nctxt_switches:\t6\n", b"ctxt_switches:\tctxt_switches:\t5\nxctxt_switches:\t6",
    b"voluntary_ctxt_switches:\t1\nnonvoluntary_ctxt_switches:\t2\nctxt_switches:\t3\n", b"ctxt_switches:\t\nctxt_switches:\tx\n",
    b"Name:\tctxt_switches:\t\nvoluntary_ctxt_switches:\t1\nnonvoluntary_ctxt_switches:\t2\n",
    b"Name:\tctxt_switches:\t9\nvoluntary_ctxt_switches:\t1\nnonvoluntary_ctxt_switches:\t2\n",
    b"ctxt_switches:\t1ctxt_switches:\t2", b"cctxt_switches:\t1\nctxt_switchectxt_switches:\t2\n", b"ctxt_switches:\t1_0\nctxt_switches:\t2\n",
    b"Uid:\t\xd9\xa1\t2\t3\n", b"Gid:\t1\t2\t3\t4\n", b"Uid:\t1\t2\t3\t4\n",
]


def _raw_stat_case(rng):
    base = _stat_case(rng)
    after = _after(base)
    if rng.random() < 0.15:     # a field the front end needs before any accessor runs (Process() reads the start time)
        after[rng.choice([19, 19, 1, 4, 11, 36])] = rng.choice([b"x5", b"1.5", b"-", b"1_0", b"+7", b"0x10", b"\xff"])
        data = _py_k_stat(base["pid"], bytes.fromhex(base["comm"]), after)
    else:
        data = _mutate(rng, _py_k_stat(base["pid"], bytes.fromhex(base["comm"]), after))
    dev = [[d[0], None if d[3] else glibc_makedev(d[1], d[2])] for d in base["dev"]]
    pts = [[d[0], None if d[3] else glibc_makedev(d[1], d[2])] for d in base["pts"]]
    if rng.random() < 0.2:
        dev.append(["ttyfile", 0])                        # not a device node: st_rdev == 0
    procstat = _py_k_procstat(base)
    k = rng.random()
    if k < 0.1:
        procstat = rng.choice([b"", b"cpu 1 2 3\n", b"btime\n", b"btime x\n", b"btimex 5\n", b"cpu 1\nbtime\t7 8\n",
                               b" btime 5\n", b"btime 1_0\nbtime 3\n", b"btime 5"])
    return {"kind": "stat_raw", "cls": "raw-stat", "pid": base["pid"], "data": data.hex(), "clk": base["clk"],
            "procstat": procstat.hex(), "dev": dev, "pts": pts}


def _race_case(rng):
    base = _stat_case(rng)
    base["state"] = rng.choice(["5a", "5a", "53", "52", "5a58"])
    first = rng.choice(["ESRCH", "ENOENT", "EACCES"])
    second = rng.choice(["data", "data", "data", "ENOENT", "EACCES"])
    return dict(base, kind="stat_race", cls="race-" + first.lower(), first=first, second=second,
                exists=rng.random() < 0.7, expect_spec=True)


def _raw_threads_case(rng):
    n = rng.choice([1, 2, 3])
    names = rng.sample(["1", "2", "10", "9", "4242", "007", "1_0", "+5", "abc", "12x", "-3"], n)
    listing = []
    for nm in names:
        t = _thread(rng, 5)
        after = _after(dict(_stat_case(rng), utime=t["utime"], stime=t["stime"]))
        data = _py_k_stat(5, bytes.fromhex(t["comm"]), after)
        if rng.random() < 0.7:
            data = _mutate(rng, data)
        k = rng.random()
        listing.append([nm, None if k < 0.1 else "denied" if k < 0.15 else data.hex()])
    return {"kind": "threads_raw", "cls": "raw-threads", "clk": rng.choice(CLKS), "listing": listing,
            "alive": rng.random() < 0.7, "own": _py_k_stat(PID, b"own", _own_after(rng.choice(["53", "5a"]))).hex()}


def _raw_ppid_case(rng):
    pids = rng.sample([1, 2, 10, 77, 300, PID], rng.choice([1, 2, 3]))
    listing = []
    for p in pids:
        base = _stat_case(rng)
        data = _py_k_stat(p, bytes.fromhex(base["comm"]), _after(base))
        if rng.random() < 0.6:
            data = _mutate(rng, data)
        k = rng.random()
        listing.append([str(p), None if k < 0.1 else "denied" if k < 0.2 else data.hex()])
    for nm in rng.sample(OTHER_NAMES, rng.choice([0, 1, 2])):
        listing.insert(rng.randint(0, len(listing)), [nm, rng.choice([None, "denied", b"1 (x) S 5".hex()])])
    return {"kind": "ppid_map_raw", "cls": "raw-ppid_map", "listing": listing}


class LiveMismatch(RuntimeError):
    """The running kernel's text is outside what coq/C06/Spec.v describes: a harness error, never a verdict."""


def _parse_real_stat(data):
    """pid, comm, fields (3).. of a real stat record (harness-side, independent of psutil and of the model)."""
    lp = data.index(b" (")
    rp = data.rindex(b") ")
    if not data.endswith(b"\n"):
        raise LiveMismatch("real stat record does not end with a newline: %r" % data[-20:])
    return data[:lp].decode(), data[lp + 2:rp], [t.decode("latin-1") for t in data[rp + 2:-1].split(b" ")]


def _parse_real_status(data):
    lines = data.split(b"\n")
    if lines[-1] != b"" or not lines[0].startswith(b"Name:\t"):
        raise LiveMismatch("real status file: unexpected shape %r ... %r" % (lines[0], lines[-1]))
    lines = lines[:-1]

    def at(prefix):
        hits = [i for i, l in enumerate(lines) if l.startswith(prefix)]
        if len(hits) != 1:
            raise LiveMismatch("real status file: %d lines start with %r" % (len(hits), prefix))
        return hits[0]
    iu, ig, it = at(b"Uid:\t"), at(b"Gid:\t"), at(b"Threads:\t")
    iv, inv = at(b"voluntary_ctxt_switches:\t"), at(b"nonvoluntary_ctxt_switches:\t")
    if not (0 < iu and ig == iu + 1 and ig < it < iv and inv == iv + 1):
        raise LiveMismatch("real status file: line order Name < Uid,Gid < Threads < ctxt lines does not hold")
    hx = lambda ls: [l.hex() for l in ls]  # noqa
    igr = at(b"Groups:\t")
    if not (ig < igr < it) or not lines[igr].endswith(b" "):
        raise LiveMismatch("real status file: Groups line %r" % lines[igr][:60])
    body = lines[igr][8:-1]
    return {"name_line": lines[0].hex(), "pre": hx(lines[1:iu]), "uid": lines[iu][5:].decode().split("\t"),
            "gid": lines[ig][5:].decode().split("\t"), "fd": hx(lines[ig + 1:igr]),
            "groups": [] if body == b"" else body.decode().split(" "),
            "mid": hx(lines[igr + 1:it]), "threads": lines[it][9:].decode(),
            "post": hx(lines[it + 1:iv]), "ctx": [lines[iv].split(b"\t")[1].decode(), lines[inv].split(b"\t")[1].decode()],
            "tail": hx(lines[inv + 1:])}


def _live_cases():
    """Spawn real children (props/_c06_live.py, run with the psutil under test), snapshot their /proc files and the
    answers of psutil over the real /proc; parse the snapshots into the records the Coq printers take."""
    import subprocess
    if not _IMPL_DIR:
        return []
    verif = os.path.dirname(os.path.dirname(os.path.abspath(__file__)))
    env = dict(os.environ, PYTHONPATH=_IMPL_DIR + os.pathsep + verif, PYTHONDONTWRITEBYTECODE="1")
    work = os.path.join(os.environ.get("VERIF_SCRATCH_BASE", "/var/tmp"), "pv_c06_live_%d" % os.getpid())
    try:
        r = subprocess.run(["/venv/bin/python", "-m", "props._c06_live", work], env=env, cwd=verif, stdout=subprocess.PIPE,
                           stderr=subprocess.PIPE, text=True, timeout=120)
    finally:
        import shutil
        shutil.rmtree(work, ignore_errors=True)
    if r.returncode != 0:
        raise RuntimeError("C06 live helper failed:\n" + r.stderr[-2000:])
    doc = json.loads(r.stdout.strip().splitlines()[-1])
    if not os.path.realpath(doc["psutil"]).startswith(os.path.realpath(_IMPL_DIR)):
        raise RuntimeError("C06 live helper imported psutil from %s" % doc["psutil"])
    cases = []
    for e in doc["entries"]:
        pid, comm, after = _parse_real_stat(bytes.fromhex(e["stat"]))
        # what is known about the child must be where proc(5) says it is: (2) comm, (3) state, (4) ppid, (19) nice, (20) num_threads
        want = {"comm": e["want_name"], "state": {"sleeping": "S", "stopped": "T", "zombie": "Z"}[e["want_status"]],
                "ppid": str(e["parent"]), "nice": str(e["want_nice"]), "num_threads": str(e["want_threads"])}
        got = {"comm": comm.hex() if e["want_name"] is not None else None, "state": after[0], "ppid": after[1],
               "nice": after[16], "num_threads": after[17]}
        if want != got or pid != str(e["pid"]):
            raise LiveMismatch("live child %s: the kernel's stat record does not carry the known facts at the proc(5) "
                               "positions: want %r got %r" % (e["label"], want, got))
        tasks = []
        for tid, hx in e["tasks"]:
            tp, tc, ta = _parse_real_stat(bytes.fromhex(hx))
            if tp != tid:
                raise LiveMismatch("task %s: stat record starts with %s" % (tid, tp))
            tasks.append({"tid": int(tid), "comm": tc.hex(), "after": ta, "real": hx})
        names = sorted(t["comm"] for t in tasks if t["tid"] != e["pid"])
        if names != sorted(e["want_thread_names"]):
            raise LiveMismatch("live child %s: thread names %r, wanted %r" % (e["label"], names, e["want_thread_names"]))
        st_rec = _parse_real_status(bytes.fromhex(e["status"]))
        if e.get("want_groups") and (st_rec["groups"] != [str(i) for i in range(1, e["want_groups"] + 1)]
                                     or len(e["status"]) // 2 <= BUF):
            raise LiveMismatch("live child %s: Groups line does not list the %d gids set with setgroups() (%d listed, "
                               "file of %d bytes)" % (e["label"], e["want_groups"], len(st_rec["groups"]), len(e["status"]) // 2))
        cases.append({"kind": "live", "cls": "live-" + e["label"], "label": e["label"], "pid": e["pid"], "clk": doc["clk"],
                      "btime": doc["btime"], "kernel": doc["kernel"], "comm": comm.hex(), "after": after,
                      "real_stat": e["stat"], "status": st_rec,
                      "real_status": e["status"], "tasks": tasks, "tty": e["tty"], "live": e["live"],
                      "want_status": e["want_status"], "want_threads": e["want_threads"], "helper_uid": doc["uid"],
                      "helper_gid": doc["gid"], "parent": e["parent"], "expect_spec": True})
    return cases


def _live_subcases(case):
    pts = [] if not case["tty"] else [[os.path.basename(case["tty"]["path"]), case["tty"]["major"], case["tty"]["minor"], False]]
    stat = {"kind": "stat", "pid": case["pid"], "clk": case["clk"], "btime": int(case["btime"]), "dev": [], "pts": pts,
            "tty": None if not case["tty"] else [case["tty"]["major"], case["tty"]["minor"]], "expect_spec": True}
    status = {"kind": "status", "expect_spec": True}
    threads = {"kind": "threads", "clk": case["clk"], "alive": True, "expect_spec": True,
               "threads": [{"tid": t["tid"], "gone": False} for t in case["tasks"]]}
    return stat, status, threads


# ------------------------------------------------------------------ wave 8: handles, copies, PROCFS_PATH
COPY_ACCS = ["name", "ppid", "status", "cpu_times", "cpu_num", "terminal", "num_threads", "num_ctx_switches", "uids", "gids",
             "threads"]
_ST_NAMES = {"S": "sleeping", "R": "running", "T": "stopped", "D": "disk-sleep"}


def _tty_candidates():
    import glob
    out = {}
    for pth in glob.glob("/dev/tty*") + glob.glob("/dev/pts/*"):
        try:
            out[os.stat(pth).st_rdev] = pth
        except OSError:
            pass
    return out


def _copy_records(case):
    """What mount A publishes first (1), later (2), and what mount B publishes for the SAME pid number (3): everything differs
    except the start time (the same identity for the front end's PID-reuse guard, which consults the current mount)."""
    pid = case["pid"]
    tmap = _tty_candidates()
    ttyB = sorted(tmap)[0] if tmap else 0
    return {
        1: {"comm": b"in A) (1", "state": b"S", "ppid": 77, "tty_nr": 0, "utime": 1234, "stime": 77, "cutime": 5, "cstime": 6,
            "processor": 3, "blkio": 9, "num_threads": 2, "uids": (1000, 1001, 1002, 1003), "gids": (50, 51, 52, 53),
            "vol": 11, "nonvol": 12, "tids": [(pid, 10, 20), (pid + 1, 30, 40)]},
        2: {"comm": b"in A) (2", "state": b"T", "ppid": 1, "tty_nr": 0, "utime": 99999, "stime": 4242, "cutime": 7, "cstime": 8,
            "processor": 0, "blkio": 10, "num_threads": 3, "uids": (1, 2, 3, 4), "gids": (5, 6, 7, 8),
            "vol": 1100, "nonvol": 1200, "tids": [(pid, 11, 21), (pid + 1, 31, 41), (pid + 2, 1, 2)]},
        3: {"comm": b"other in B", "state": b"D", "ppid": 2, "tty_nr": ttyB, "utime": 8, "stime": 9, "cutime": 1, "cstime": 2,
            "processor": 127, "blkio": 1, "num_threads": 1, "uids": (0, 0, 0, 0), "gids": (0, 0, 0, 0),
            "vol": 3, "nonvol": 4, "tids": [(pid, 8, 9)]},
    }


def _copy_expected(case, acc, idx):
    r = _copy_records(case)[idx]
    clk = case["clk"]
    F = lambda x: _F(float(x) / clk)  # noqa  (the division psutil is documented to do: ticks / tick rate)
    if acc == "name":
        return B(r["comm"])
    if acc == "ppid":
        return r["ppid"]
    if acc == "status":
        return B(_ST_NAMES[r["state"].decode()].encode())
    if acc == "cpu_times":
        return [F(r["utime"]), F(r["stime"]), F(r["cutime"]), F(r["cstime"]), F(r["blkio"])]
    if acc == "cpu_num":
        return r["processor"]
    if acc == "terminal":
        t = _tty_candidates().get(r["tty_nr"])
        return None if t is None else B(t.encode())
    if acc == "num_threads":
        return r["num_threads"]
    if acc == "num_ctx_switches":
        return [r["vol"], r["nonvol"]]
    if acc == "uids":
        return list(r["uids"][:3])
    if acc == "gids":
        return list(r["gids"][:3])
    if acc == "threads":
        return sorted([t, F(u), F(s)] for t, u, s in r["tids"])
    raise ValueError(acc)


def _copy_cases(rng):
    """SYSTEMATIC (never sampled): every anchored accessor x {copy, copy inside oneshot, deepcopy} x {PROCFS_PATH unchanged,
    switched to a mount where the same pid number is another process, switched to a mount without that pid}."""
    out = []
    for cp in ("copy", "copy_in", "deepcopy"):
        for sw in ("same", "b_other", "b_absent"):
            ops = [["new", PID]]
            if sw != "same":
                ops.append(["path", 1])
            ops += [[cp, 0], ["call", 1], ["call", 0], ["kernel", 0, PID, 2], ["call", 1], ["call", 0]]
            out.append({"kind": "copy_hist", "cls": "copy-%s-%s" % (cp, sw), "pid": PID, "copy": cp, "switch": sw,
                        "accs": list(COPY_ACCS), "clk": rng.choice(CLKS), "ops": ops,
                        "ents": [[0, PID, 1]] + ([[1, PID, 3]] if sw == "b_other" else []), "expect_spec": True})
    return out


def _copy_ops_for(case, acc):
    """ppid() goes through the front end's PID-reuse guard (is_running() builds Process(pid) on the CURRENT mount and
    remembers 'gone' on the object - C01's territory): where the current mount lacks the pid only the first call of each
    object is observed."""
    ops = case["ops"]
    if acc == "ppid" and case["switch"] == "b_absent":
        return ops[:[o[0] for o in ops].index("kernel")]
    return ops


def gen_cases(rng, tier):
    n = {"quick": 1, "thorough": 10, "search": 2}[tier]
    cases = []
    if tier != "search":
        cases += _live_cases()       # the running kernel: real children, real /proc text
    # every documented state letter (and the unknown ones) once
    for st in STATES:
        c = _stat_case(rng, comm=b"st)ate (x", cls="stat-letter")
        c["state"] = st.hex()
        cases.append(c)
    cases += _copy_cases(rng)      # wave 8: systematic block, part of every tier
    # systematic: process names that imitate a status line after a byte some line splitter treats as a line end (the kernel
    # escapes only \n and \\ in Name:), so that a reader which does not anchor on the kernel's real lines is spoofed
    for cm in (b"x\rUid:\t0\t0\t0", b"\rGid:\t0\t0\t0\t0", b"a\rThreads:\t99", b"x\x0bUid:\t0\t0\t0", b"x\x0cThreads:\t7",
               b"Uid:\t0\t0\t0", b"Threads:\t99", b"x\tUid:\t0\t0\t0", b"x\x1cGid:\t0\t0\t0", b"x\x85Uid:\t0\t0"):
        cases.append(dict(_status_case(rng, comm=cm, cls="status-spoof"), uid=[1000, 1001, 1002, 1003], gid=[2000, 2001, 2002, 2003], threads=3))
    for _ in range(150 * n):
        cases.append(_stat_case(rng))
    for _ in range(120 * n):
        cases.append(_status_case(rng))
    for _ in range(80 * n):
        cases.append(_threads_case(rng))
    for _ in range(50 * n):
        cases.append(_ppid_map_case(rng))
    # size: status files larger than the 32 KiB read buffer (thousands of supplementary groups), the boundary at chosen places
    big = [_big_status_case(rng, where) for where in ("inside-groups", "groups-line-end", "threads-digits", "ctxt-digits",
                                                       "ctxt-key")]
    big.append(_big_status_case(rng, "inside-groups", total=70000 if tier == "quick" else 400000))
    big.append(dict(_big_status_case(rng, "threads-digits"), pyflags=["-bb"]))
    big.append(_threads_big_case(rng, 400 if tier == "quick" else 3000))
    for enc in FS_ENCODINGS:        # an interpreter started with each file-system encoding (child process)
        cases.append(dict(_name_enc_case(rng, enc), comm=b"caf\xc3\xa9".hex()))
        for _ in range(24 * n):
            cases.append(_name_enc_case(rng, enc))
    for _ in range(50 * n):
        cases.append(_name_hist_case(rng))
    for _ in range(40 * n):
        cases.append(_race_case(rng))
    for _ in range(100 * n):
        cases.append(_raw_stat_case(rng))
    for _ in range(40 * n):
        cases.append(_raw_threads_case(rng))
    for _ in range(30 * n):
        cases.append(_raw_ppid_case(rng))
    for d in RAW_STATUS:
        cases.append({"kind": "status_raw", "cls": "raw-status", "data": d.hex()})
    for _ in range(40 * n):
        base = _status_case(rng)
        data = _py_k_status(base)
        i = rng.randrange(len(data))
        data = rng.choice([data[:i], data[i:], data[:i] + rng.choice([b"\n", b"\t", b"x", b"7"]) + data[i + 1:],
                           data.replace(b"\n", b"\r\n"), data.replace(b"\t", b" ")])
        cases.append({"kind": "status_raw", "cls": "raw-status", "data": data.hex()})
    for _ in range(8 * n):
        cases.append(_stat_case(rng, known_high=True))
    # interpreter modes: -bb (str(bytes) / bytes == str raise), -O (asserts vanish), -W error (a warning raises), -X dev.
    # ALL record layouts under each of the three strict modes (old kernels without field 42, short records that raise
    # IndexError, status without ctxt lines, non-UTF-8 names), then a sample of everything else.
    modes = [["-bb"], ["-O"], ["-W", "error"]]
    for fl in modes:
        for nf in (39, 40, 41, 42, 44, 52):
            c = _stat_case(rng, comm=rng.choice([b"old) \xff\xe9 (k", b"caf\xc3\xa9", b"plain"]), cls="mode-layout")
            c["nfields"] = nf
            cases.append(dict(c, pyflags=fl))
        for cut in (0, 1, 2, 5, 12, 20, 37, 38):      # fewer fields than the parser needs -> IndexError, nothing else
            base = _stat_case(rng, comm=b"sh) \xfe (rt")
            data = _py_k_stat(base["pid"], bytes.fromhex(base["comm"]), _after(base)[:cut - 2] if cut >= 2 else [])
            if cut == 0:
                data = b""
            cases.append({"kind": "stat_raw", "cls": "mode-short-record", "pid": base["pid"], "data": data.hex(),
                          "clk": base["clk"], "procstat": _py_k_procstat(base).hex(), "dev": [], "pts": [], "pyflags": fl})
        c = _status_case(rng, comm=b"Uid:\t0 \xff)", cls="mode-status")
        cases.append(dict(c, ctx=None, pyflags=fl))
        cases.append(dict(_status_case(rng, comm=b"\xe9\n\\", cls="mode-status"), pyflags=fl))
        cases.append(dict(_threads_case(rng, comm=b"t) \xff (", cls="mode-threads"), pyflags=fl))
        cases.append(dict(_ppid_map_case(rng), cls="mode-ppid_map", pyflags=fl))
        cases.append(dict(_name_enc_case(rng, "ascii"), pyflags=fl))
        cases.append(dict(_name_hist_case(rng), pyflags=fl))
        cases.append(dict(_race_case(rng), pyflags=fl))
    from pv import core as _core
    _core.assign_pyflags(cases, rng, modes=(("-bb",), ("-bb",), ("-O",), ("-W", "error"), ("-X", "dev")), frac=0.18,
                         only=lambda c: c["kind"] != "live")
    # the big records cost seconds each inside Coq: spread them over the case list so that they fall into different shards
    step = max(1, len(cases) // (len(big) + 1))
    for i, c in enumerate(big):
        cases.insert(min(len(cases), (i + 1) * step), c)
    if tier == "thorough":
        names = [b""]
        for a in CRIT:
            names.append(a)
            for b in CRIT:
                names.append(a + b)
                for c in CRIT:
                    names.append(a + b + c)
        for nm in names:
            cases.append(_stat_case(rng, comm=nm, cls="exh-stat"))
            cases.append(_status_case(rng, comm=nm, cls="exh-status"))
            cases.append(_threads_case(rng, comm=nm, cls="exh-threads"))
    return cases


def _esc(comm):
    return comm.replace(b"\\", b"\\\\").replace(b"\n", b"\\n")


def _py_k_status(c):
    ls = [b"Name:\t" + _esc(bytes.fromhex(c["comm"]))] + [x.encode() for x in c["pre"]]
    ls.append(b"Uid:\t" + b"\t".join(str(x).encode() for x in c["uid"]))
    ls.append(b"Gid:\t" + b"\t".join(str(x).encode() for x in c["gid"]))
    ls += [x.encode() for x in _fd(c)] + [b"Groups:\t" + " ".join(_groups(c)).encode() + b" "]
    ls += [x.encode() for x in c["mid"]] + [b"Threads:\t%d" % c["threads"]] + [x.encode() for x in c["post"]]
    if c["ctx"]:
        ls += [b"voluntary_ctxt_switches:\t%d" % c["ctx"][0], b"nonvoluntary_ctxt_switches:\t%d" % c["ctx"][1]]
    ls += [x.encode() for x in c["tail"]]
    return b"".join(l + b"\n" for l in ls)


# ------------------------------------------------------------------ Coq terms
def _kstat(pid, comm, after):
    return "(Build_kstat %s %s %s)" % (G.by(str(pid)), G.by(comm), G.lst([G.by(t) for t in after]))


def _thread_after(t):
    base = {"nfields": t["nfields"], "state": "53", "ppid": 1, "ttytxt": "0", "utime": t["utime"], "stime": t["stime"],
            "cutime": 0, "cstime": 0, "starttime": 777, "processor": 1, "blkio": 0}
    return _after(base)


def _own_after(state_hex):
    return _thread_after({"nfields": 52, "utime": 3, "stime": 4})[:0] + [bytes.fromhex(state_hex)] + _thread_after(
        {"nfields": 52, "utime": 3, "stime": 4})[1:]


def _pos(n):
    return "%d%%positive" % n


def coq_term(case):
    k = case["kind"]
    if k == "live":
        rec = lambda pid, comm, after: _kstat(pid, bytes.fromhex(comm), [a.encode("latin-1") for a in after])  # noqa
        own = rec(case["pid"], case["comm"], case["after"])
        sub_stat, _, _ = _live_subcases(case)
        node = lambda d: "(Build_devnode %s %s %s %s)" % (G.by(d[0]), G.z(d[1]), G.z(d[2]), G.bo(d[3]))  # noqa
        tty = "None" if sub_stat["tty"] is None else "(Some (%s, %s))" % (G.z(sub_stat["tty"][0]), G.z(sub_stat["tty"][1]))
        t_stat = "run_stat %s %s (Build_kprocstat [] %s []) [] %s %s %s" % (
            G.bo(MASKED_TTY), _pos(case["clk"]), G.by(case["btime"]), G.lst([node(d) for d in sub_stat["pts"]]), tty, own)
        st = case["status"]
        hl = lambda xs: G.lst([G.by(bytes.fromhex(x)) for x in xs])  # noqa
        runs = []                       # run-length form keeps the term small for thousands of gids
        for g in st["groups"]:
            runs.append(G.by(g))
        t_status = "run_status (Build_kstatus %s %s %s %s %s %s %s %s (Some (%s, %s)) %s)" % (
            G.by(bytes.fromhex(case["comm"])), hl(st["pre"]), " ".join(G.by(x) for x in st["uid"] + st["gid"]), hl(st["fd"]),
            G.lst(runs), hl(st["mid"]),
            G.by(st["threads"]), hl(st["post"]), G.by(st["ctx"][0]), G.by(st["ctx"][1]), hl(st["tail"]))
        ts = ["(Build_kthread %s %s false)" % (G.by(str(t["tid"])), rec(t["tid"], t["comm"], t["after"])) for t in case["tasks"]]
        t_threads = "run_threads %s %s true %s" % (_pos(case["clk"]), G.lst(ts), own)
        return "JL [%s; %s; %s]" % (t_stat, t_status, t_threads)
    if k == "copy_hist":
        def op(o):
            if o[0] == "new":
                return "(ONew Z %s)" % G.z(o[1])
            if o[0] == "path":
                return "(OSetPath Z %s)" % G.z(o[1])
            if o[0] == "kernel":
                return "(OKernel Z %s %s %s)" % (G.z(o[1]), G.z(o[2]), "None" if o[3] is None else "(Some %s)" % G.z(o[3]))
            return "(%s Z %s)" % ({"copy": "OCopy", "copy_in": "OCopyIn", "deepcopy": "ODeepCopy", "call": "OCall"}[o[0]],
                                  G.nat(o[1]))
        return "run_copy_hist %s %s" % (G.lst(["(%s, %s, %s)" % tuple(G.z(x) for x in e) for e in case["ents"]]),
                                        G.lst([op(o) for o in case["ops"]]))
    if k == "name_hist":
        xs = []
        for st in case["steps"]:
            base = {"nfields": 52, "state": st["state"], "ppid": 1, "ttytxt": "0", "utime": 1, "stime": 2, "cutime": 3,
                    "cstime": 4, "starttime": st["starttime"], "processor": 0, "blkio": 0}
            rec = _kstat(case["pid"], bytes.fromhex(st["comm"]), _after(base))
            sk = {"data": "SKData", "gone": "SKGone", "denied": "SKDenied"}[st["stat"]]
            cmd = {"EACCES": "CEACCES", "ESRCH": "CESRCH", "ENOENT": "CENOENT"}.get(st["cmd"]) or \
                "(CData %s)" % G.by(bytes.fromhex(st["cmd"]))
            xs.append("(%s, %s, %s)" % (rec, sk, cmd))
        return "run_name_hist %s" % G.lst(xs)
    if k == "name_enc":
        return "run_name_enc %s %s" % ({"utf-8": "Utf8", "ascii": "Ascii", "latin-1": "Latin1"}[case["enc"]],
                                       _kstat(case["pid"], bytes.fromhex(case["comm"]), _after(case)))
    if k in ("stat", "stat_race"):
        rec = _kstat(case["pid"], bytes.fromhex(case["comm"]), _after(case))
    if k == "stat":
        dev, pts = _dirs(case)
        node = lambda d: "(Build_devnode %s %s %s %s)" % (G.by(d[0]), G.z(d[1]), G.z(d[2]), G.bo(d[3]))  # noqa
        tty = "None" if case["tty"] is None else "(Some (%s, %s))" % (G.z(case["tty"][0]), G.z(case["tty"][1]))
        pre, bt, post = _procstat(case)
        ps = "(Build_kprocstat %s %s %s)" % (G.lst([G.by(x) for x in pre]), G.by(bt), G.lst([G.by(x) for x in post]))
        return "run_stat %s %s %s %s %s %s %s" % (G.bo(MASKED_TTY), _pos(case["clk"]), ps, G.lst([node(d) for d in dev]),
                                               G.lst([node(d) for d in pts]), tty, rec)
    if k == "stat_raw":
        raw = lambda ds: G.lst(["(%s, %s)" % (G.by(n), G.opt(r, G.z)) for n, r in ds])  # noqa
        return "run_stat_raw %s %s %s %s %s %s" % (G.bo(MASKED_TTY), _pos(case["clk"]), G.by(bytes.fromhex(case["procstat"])),
                                                raw(case["dev"]), raw(case["pts"]), G.by(bytes.fromhex(case["data"])))
    if k == "stat_race":
        err = {"ESRCH": "SESRCH", "ENOENT": "SENOENT", "EACCES": "SEACCES"}
        second = "None" if case["second"] == "data" else "(Some %s)" % err[case["second"]]
        return "run_stat_race %s %s %s %s" % (rec, err[case["first"]], second, G.bo(case["exists"]))
    if k == "status":
        ls = lambda xs: G.lst([G.by(x) for x in xs])  # noqa
        ids = " ".join(G.by(str(x)) for x in case["uid"] + case["gid"])
        ctx = "None" if case["ctx"] is None else "(Some (%s, %s))" % (G.by(str(case["ctx"][0])), G.by(str(case["ctx"][1])))
        runs = "(expand %s)" % G.lst(["(%s, %s)" % (G.by(g), G.nat(n)) for g, n in case.get("groups", [])])
        return "%s (Build_kstatus %s %s %s %s %s %s %s %s %s %s)" % (
            "run_status_big" if case.get("big") else "run_status",
            G.by(bytes.fromhex(case["comm"])), ls(case["pre"]), ids, ls(_fd(case)), runs, ls(case["mid"]),
            G.by(str(case["threads"])), ls(case["post"]), ctx, ls(case["tail"]))
    if k == "status_raw":
        return "run_status_raw %s" % G.by(bytes.fromhex(case["data"]))
    if k == "threads":
        ts = ["(Build_kthread %s %s %s)" % (G.by(str(t["tid"])), _kstat(t["tid"], bytes.fromhex(t["comm"]), _thread_after(t)),
                                            G.bo(t["gone"])) for t in case["threads"]]
        own = _kstat(PID, b"own", _own_after(case["own_state"]))
        return "run_threads %s %s %s %s" % (_pos(case["clk"]), G.lst(ts), G.bo(case["alive"]), own)
    if k == "threads_big":
        t = {"nfields": 52, "utime": 14, "stime": 12}
        own = _kstat(PID, b"own", _own_after(case["own_state"]))
        return "run_threads_n %s %s %s %s %s %s %s" % (_pos(case["clk"]), G.nat(case["n"]), G.z(case["base"]),
                                                     G.by(bytes.fromhex(case["comm"])),
                                                     G.lst([G.by(x) for x in _thread_after(t)]), G.bo(case["alive"]), own)
    if k == "threads_raw":
        ls = ["(%s, %s)" % (G.by(nm), _tfile(d)) for nm, d in case["listing"]]
        return "run_threads_raw %s %s %s %s" % (_pos(case["clk"]), G.lst(ls), G.bo(case["alive"]), G.by(bytes.fromhex(case["own"])))
    if k == "ppid_map":
        es = []
        for e in case["ents"]:
            if "other" in e:
                es.append("(KOther %s TGone)" % G.by(e["other"]))
                continue
            after = [b"S", str(e["ppid"]).encode()] + [str(1000 + i).encode() for i in range(5, 53)]
            st = {"present": "PPresent", "gone": "PGone", "denied": "PDenied"}[e["state"]]
            es.append("(KProc (Build_kproc %s %s %s))" % (G.by(str(e["pid"])), _kstat(e["pid"], bytes.fromhex(e["comm"]), after), st))
        return "run_ppid_map %s" % G.lst(es)
    if k == "ppid_map_raw":
        return "run_ppid_map_raw %s" % G.lst(["(%s, %s)" % (G.by(nm), _tfile(d)) for nm, d in case["listing"]])
    raise ValueError(k)


def _tfile(d):
    return "TGone" if d is None else "TDenied" if d == "denied" else "(TContent %s)" % G.by(bytes.fromhex(d))


def _same_bytes(what, printed, real_hex, case):
    if printed["b"] != real_hex:
        a, b = bytes.fromhex(printed["b"]), bytes.fromhex(real_hex)
        i = next((j for j in range(min(len(a), len(b))) if a[j] != b[j]), min(len(a), len(b)))
        raise LiveMismatch("live child %s (kernel %s): %s printed by the Coq kernel printer differs from the running kernel's "
                           "text at byte %d: printed %r, kernel %r" % (case["label"], case["kernel"], what, i,
                                                                      a[max(0, i - 20):i + 30], b[max(0, i - 20):i + 30]))


def coq_struct(case, raw):
    k = case["kind"]
    if k == "live":
        r_stat, r_status, r_threads = raw
        # (1) the kernel printers against the running kernel, byte for byte
        _same_bytes("/proc/<pid>/stat", r_stat[0], case["real_stat"], case)
        _same_bytes("/proc/<pid>/status", r_status[0], case["real_status"], case)
        if len(r_threads[0]) != len(case["tasks"]):
            raise LiveMismatch("live: %d task records printed for %d tasks" % (len(r_threads[0]), len(case["tasks"])))
        for pr, t in zip(r_threads[0], case["tasks"]):
            _same_bytes("/proc/<pid>/task/%d/stat" % t["tid"], pr, t["real"], case)
        parts = [{"printed": r_stat[0], "procstat": r_stat[1], "model": r_stat[2], "spec": r_stat[3]},
                 {"printed": r_status[0], "model": r_status[1], "spec": r_status[2]},
                 {"printed": r_threads[0], "own": r_threads[1], "model": r_threads[2], "spec": r_threads[3]}]
        if any(p["spec"] is None for p in parts) or any(x is None for x in parts[0]["spec"]) or any(x is None for x in parts[1]["spec"]):
            raise LiveMismatch("live child %s: a record of the running kernel is outside the domain of the specification "
                               "(wf false or a component not applicable): %r" % (case["label"], [p["spec"] for p in parts]))
        return {"parts": parts, "model": [p["model"] for p in parts], "spec": [p["spec"] for p in parts]}
    if k == "copy_hist":
        return {"model": raw[0], "spec": raw[1], "spec_deep": raw[2]}
    if k == "stat":
        return {"printed": raw[0], "procstat": raw[1], "model": raw[2], "spec": raw[3]}
    if k in ("status", "ppid_map", "stat_race", "name_enc", "name_hist"):
        return {"printed": raw[0], "model": raw[1], "spec": raw[2]}
    if k in ("threads", "threads_big"):
        return {"printed": raw[0], "own": raw[1], "model": raw[2], "spec": raw[3]}
    return {"model": raw[0], "spec": None}


# ------------------------------------------------------------------ judging
TOL = Fraction(1, 2 ** 48)


def _same(impl, ref):
    """impl == ref, where an exact rational of the model {"t":"Q"} matches an implementation float {"t":"F"} within TOL."""
    if isinstance(ref, dict) and ref.get("t") == "Q":
        if isinstance(impl, dict) and impl.get("t") == "Q":
            return impl == ref
        if not (isinstance(impl, dict) and impl.get("t") == "F" and len(impl["a"]) == 2
                and all(isinstance(x, int) for x in impl["a"])):
            return False
        a = Fraction(int(impl["a"][0]), int(impl["a"][1]))
        b = Fraction(int(ref["a"][0]), int(ref["a"][1]))
        return abs(a - b) <= TOL * max(1, abs(b))
    if isinstance(ref, dict) and isinstance(impl, dict):
        if "t" in ref:
            return impl.get("t") == ref["t"] and _same(impl.get("a"), ref["a"])
        return impl == ref
    if isinstance(ref, list) and isinstance(impl, list):
        return len(ref) == len(impl) and all(_same(i, r) for i, r in zip(impl, ref))
    return type(impl) == type(ref) and impl == ref


def _oom(x):
    return isinstance(x, dict) and x.get("t") == "OutOfModel"


METHODS = {"stat": ["name", "ppid", "status", "cpu_times", "create_time", "cpu_num", "terminal"],
           "status": ["uids", "gids", "num_threads", "num_ctx_switches"],
           "race": ["name", "status", "cpu_num"], "ppid": ["ppid_map", "pids"]}
KIND_GROUP = {"stat": "stat", "stat_raw": "stat", "status": "status", "status_raw": "status", "stat_race": "race",
              "ppid_map": "ppid", "ppid_map_raw": "ppid"}


def judge(case, coq, impl):
    from pv.core import Verdict
    k = case["kind"]
    model, spec = coq["model"], coq["spec"]
    if case.get("expect_spec") and spec is None:
        return Verdict("corr", "harness: the specification does not apply to a generated kernel record (wf false)")
    if k == "live":
        # (2) the same real bytes through the fake tree: implementation = model = specification
        for sub, q, i in zip(_live_subcases(case), coq["parts"], impl):
            v = judge(sub, q, i)
            if v.kind != "ok":
                return Verdict(v.kind, "real kernel record of child %s: %s" % (case["label"], v.detail))
        # (3) psutil over the REAL /proc while the child was alive, against the specification of the snapshot
        sp_stat, sp_status = coq["parts"][0]["spec"], coq["parts"][1]["spec"]
        lv = case["live"]
        val = lambda x: {"t": "Val", "a": [x]}  # noqa
        want = {"name": sp_stat[0], "ppid": sp_stat[1], "status": sp_stat[2], "terminal": sp_stat[6],
                "uids": sp_status[0], "gids": sp_status[1], "num_threads": sp_status[2],
                "thread_ids": val(sorted(t["tid"] for t in case["tasks"])), "ppid_map": sp_stat[1]}
        got = {}
        for key, ans in lv.items():
            if "exc" in ans:
                got[key] = T("Exc", T(ans["exc"]))
            elif key in ("name",):
                got[key] = val({"b": ans["ok"]})
            elif key in ("status", "terminal"):
                got[key] = val(None if ans["ok"] is None else B(ans["ok"]))
            elif key == "create_time":
                got[key] = val(T("F", ans["ok"][0], ans["ok"][1]))
            else:
                got[key] = val(ans["ok"])
        bad = [key for key in want if got.get(key) != want[key]]
        if not _same(got.get("create_time"), sp_stat[4]):
            bad.append("create_time")
        facts = {"status": val(B(case["want_status"])), "num_threads": val(case["want_threads"]),
                 "terminal": val(None if not case["tty"] else B(case["tty"]["path"])), "ppid": val(case["parent"]),
                 "uids": val([case["helper_uid"]] * 3), "gids": val([case["helper_gid"]] * 3)}
        bad += [key + " (known fact)" for key in facts if got.get(key) != facts[key]]
        if bad:
            return Verdict("violation", "psutil over the real /proc of child %s: %s differ(s) from what the kernel "
                                        "publishes" % (case["label"], ", ".join(bad)))
        return Verdict("ok")
    if k == "copy_hist":
        corr = None
        for acc in case["accs"]:
            got = impl[acc]
            n = len(_copy_ops_for(case, acc))
            delivered = any(isinstance(g, dict) and g.get("t") == "Handle" for g, o in zip(got, case["ops"]) if o[0] == "deepcopy")
            want = (coq["spec_deep"] if delivered else spec)[:n]
            for i, (g, w, m) in enumerate(zip(got, want, model[:n])):
                o = case["ops"][i]
                if w.get("t") == "Ans":
                    exp = {"t": "Val", "a": [_copy_expected(case, acc, w["a"][0])]}
                    if not _same(g, exp):
                        return Verdict("violation", "%s() at step %d (%s on handle %d; copy kind %s, PROCFS_PATH %s): the answer is "
                                       "not what the mount the ORIGINAL was created on publishes for this pid at that moment "
                                       "(record %d)" % (acc, i, o[0], o[1], case["copy"], case["switch"], w["a"][0]))
                elif g != w:
                    return Verdict("violation", "%s history, step %d (%s): %r where the property demands %r"
                                   % (acc, i, o[0], g, w))
                if not delivered and m.get("t") != "Ans" and g != m and corr is None:
                    corr = "%s history, step %d: implementation differs from the model" % (acc, i)
            if delivered and corr is None:
                corr = "copy.deepcopy(Process) is delivered; the model (RLock in __dict__) says TypeError"
        return Verdict("corr", corr) if corr else Verdict("ok")
    if k == "name_hist":
        for i, (got, m, sp) in enumerate(zip(impl, model, spec)):
            if sp is not None and got != sp:
                return Verdict("violation", "name() call %d on the same object is not what the kernel state at that moment says" % (i + 1))
        for i, (got, m) in enumerate(zip(impl, model)):
            if got != m:
                return Verdict("corr", "name() call %d: implementation differs from the model" % (i + 1))
        return Verdict("ok")
    if k == "name_enc":
        want_str, want_bytes = spec
        if impl[0] != want_str:
            return Verdict("violation", "name() is not os.fsdecode(comm) under the %s file-system encoding" % case["enc"])
        if impl[1] != want_bytes:
            return Verdict("violation", "os.fsencode(name()) does not give back the kernel's comm bytes (%s)" % case["enc"])
        if impl[0] != model:
            return Verdict("corr", "name(): implementation differs from the model (%s)" % case["enc"])
        return Verdict("ok")
    if k in KIND_GROUP:
        names = METHODS[KIND_GROUP[k]]
        specs = spec if spec is not None else [None] * len(names)
        bad_spec = [n for n, i, s in zip(names, impl, specs) if s is not None and not _same(i, s)]
        if bad_spec:
            return Verdict("violation", "%s() differs from what the kernel record says" % ", ".join(bad_spec))
        bad_model = [n for n, i, m in zip(names, impl, model) if not _oom(m) and not _same(i, m)]
        if bad_model:
            return Verdict("corr", "%s(): implementation differs from the model" % ", ".join(bad_model))
        if all(_oom(m) for m in model):
            return Verdict("skip", "out of model")
        return Verdict("ok")
    if _oom(model):
        return Verdict("skip", "out of model")
    if spec is not None and not _same(impl, spec):
        return Verdict("violation", "%s differs from what the kernel records say" % k)
    if not _same(impl, model):
        return Verdict("corr", "%s: implementation differs from the model" % k)
    return Verdict("ok")


# ------------------------------------------------------------------ implementation side
def _F(x):
    x = float(x)
    if x != x or x in (float("inf"), float("-inf")):
        return T("F", repr(x))
    n, d = x.as_integer_ratio()
    return T("F", n, d)


def _write(path, data):
    os.makedirs(os.path.dirname(path), exist_ok=True)
    with open(path, "wb") as f:
        f.write(data)


class _Rdev:
    def __init__(self, rdev):
        self.st_rdev = rdev


def _snap(impl, ref):
    """Replace an implementation float by the reference's exact rational when they agree within TOL, so that
    agreement becomes plain equality (pv.core compares known-finding cases with ==)."""
    if isinstance(ref, dict) and ref.get("t") == "Q":
        return ref if _same(impl, ref) else impl
    if isinstance(ref, dict) and isinstance(impl, dict) and "t" in ref and impl.get("t") == ref["t"] \
            and isinstance(impl.get("a"), list) and len(impl["a"]) == len(ref["a"]):
        return {"t": impl["t"], "a": [_snap(i, r) for i, r in zip(impl["a"], ref["a"])]}
    if isinstance(ref, list) and isinstance(impl, list) and len(ref) == len(impl):
        return [_snap(i, r) for i, r in zip(impl, ref)]
    return impl


def impl_run(case, coq, env):
    res = _impl_run(case, coq, env)
    res = _snap(res, coq.get("model"))
    if coq.get("spec") is not None:
        res = _snap(res, coq["spec"])
    return res


def _call(psutil, pid, meth, conv):
    return outcome(lambda: getattr(psutil.Process(pid), meth)(), conv)


class _Entry:
    """What glob's os.scandir() loop needs of a directory entry."""
    def __init__(self, name):
        self.name = name

    def is_dir(self, follow_symlinks=True):
        return False


class _Scan:
    def __init__(self, names):
        self.names = names

    def __enter__(self):
        return iter([_Entry(n) for n in self.names])

    def __exit__(self, *a):
        return False


def _oserr(kind, path):
    import errno
    cls, no = {"ENOENT": (FileNotFoundError, errno.ENOENT), "ESRCH": (ProcessLookupError, errno.ESRCH),
               "EACCES": (PermissionError, errno.EACCES)}[kind]
    return cls(no, os.strerror(no), path)


_children = {}
CHILD_ENV = {"utf-8": {"PYTHONUTF8": "1"},
             "ascii": {"LC_ALL": "C", "PYTHONCOERCECLOCALE": "0", "PYTHONUTF8": "0"}}


def _child(enc, flags=()):
    """A persistent interpreter whose sys.getfilesystemencoding() is `enc` (fixed at start-up, so it has to be a
    separate process); same psutil (PYTHONPATH is inherited from the worker)."""
    import subprocess
    import sys
    key = (enc,) + tuple(flags)
    ch = _children.get(key)
    if ch is not None and ch.poll() is None:
        return ch
    e = {k: v for k, v in os.environ.items() if not (k.startswith("LC_") or k in ("LANG", "LANGUAGE", "PYTHONUTF8",
                                                                                   "PYTHONCOERCECLOCALE", "PYTHONIOENCODING"))}
    e.update(CHILD_ENV[enc])
    ch = subprocess.Popen([sys.executable] + list(flags) + ["-m", "props._c06_child"], stdin=subprocess.PIPE, stdout=subprocess.PIPE,
                          env=e, cwd=os.path.dirname(os.path.dirname(os.path.abspath(__file__))), text=True, bufsize=1)
    hello = json.loads(ch.stdout.readline())
    import codecs
    if codecs.lookup(hello["enc"]).name != codecs.lookup(enc).name or hello["errs"] != "surrogateescape":
        raise RuntimeError("child interpreter started with fs encoding %r/%r, wanted %r" % (hello["enc"], hello["errs"], enc))
    import psutil
    if os.path.dirname(os.path.realpath(hello["file"])) != os.path.dirname(os.path.realpath(psutil.__file__)):
        raise RuntimeError("child imported psutil from %s" % hello["file"])
    _children[key] = ch
    return ch


def _copy_hist_run(case, coq, env, psutil, _pslinux, _psposix, fakeproc):
    """The history once per accessor, fresh objects each time, over two fake mounts."""
    import copy
    import shutil
    recs = _copy_records(case)
    real_clk = _pslinux.CLOCK_TICKS
    _pslinux.CLOCK_TICKS = case["clk"]
    convs = {"name": B, "ppid": int, "status": B, "cpu_num": int, "num_threads": int,
             "terminal": lambda r: None if r is None else B(r),
             "cpu_times": lambda r: [_F(r.user), _F(r.system), _F(r.children_user), _F(r.children_system), _F(r.iowait)],
             "num_ctx_switches": lambda r: [r.voluntary, r.involuntary],
             "uids": lambda r: [r.real, r.effective, r.saved], "gids": lambda r: [r.real, r.effective, r.saved],
             "threads": lambda rows: sorted([r.id, _F(r.user_time), _F(r.system_time)] for r in rows)}
    roots = {t: os.path.join(env["work"], "mount%d" % t) for t in (0, 1)}

    def publish(fp, pid, idx):
        fp.remove(pid)
        if idx is None:
            return
        r = recs[idx]
        fp.add(pid, comm=r["comm"], state=r["state"], ppid=r["ppid"], starttime=5000, tty_nr=r["tty_nr"], utime=r["utime"],
               stime=r["stime"], cutime=r["cutime"], cstime=r["cstime"], processor=r["processor"], blkio=r["blkio"],
               num_threads=r["num_threads"])
        fp.write(pid, "status", fakeproc.status_text(pid, r["comm"], ppid=r["ppid"], uids=r["uids"], gids=r["gids"],
                                                     threads=r["num_threads"], vol=r["vol"], nonvol=r["nonvol"]))
        shutil.rmtree(os.path.join(fp.pdir(pid), "task"))
        for tid, u, s_ in r["tids"]:
            fp.write(pid, "task/%d/stat" % tid, fakeproc.stat_line(tid, r["comm"], utime=u, stime=s_))
    out = {}
    try:
        for acc in case["accs"]:
            fps = {t: fakeproc.FakeProc(roots[t]) for t in roots}
            for t, pid, idx in case["ents"]:
                publish(fps[t], pid, idx)
            fakeproc.attach(psutil, roots[0])
            _psposix.get_terminal_map.cache_clear()
            hs, res = [], []
            for o in _copy_ops_for(case, acc):
                if o[0] == "path":
                    psutil.PROCFS_PATH = roots[o[1]]
                    res.append(T("Unit"))
                elif o[0] == "kernel":
                    publish(fps[o[1]], o[2], o[3])
                    res.append(T("Unit"))
                elif o[0] == "new":
                    try:
                        hs.append(psutil.Process(o[1]))
                        res.append(T("Handle", len(hs) - 1))
                    except psutil.NoSuchProcess:
                        res.append(T("NoSuchProcess"))
                elif o[0] in ("copy", "copy_in", "deepcopy"):
                    if o[1] >= len(hs):
                        res.append(T("Bad"))
                        continue
                    p = hs[o[1]]
                    try:
                        if o[0] == "copy":
                            q = copy.copy(p)
                        elif o[0] == "deepcopy":
                            q = copy.deepcopy(p)
                        else:
                            with p.oneshot():
                                try:
                                    # (ppid's guard would mark p 'gone' on a mount without the pid: C01's territory)
                                    if not (acc == "ppid" and case["switch"] == "b_absent"):
                                        getattr(p, acc)()
                                except psutil.Error:
                                    pass
                                q = copy.copy(p)
                    except TypeError:
                        res.append(T("TypeError"))
                        continue
                    if not (q == p and hash(q) == hash(p) and q.pid == p.pid and q.create_time() == p.create_time()
                            and q is not p):
                        res.append(T("CopyNotEqual"))
                        continue
                    hs.append(q)
                    res.append(T("Handle", len(hs) - 1))
                else:
                    if o[1] >= len(hs):
                        res.append(T("Bad"))
                        continue
                    r = outcome(getattr(hs[o[1]], acc), convs[acc])
                    if r.get("t") == "Exc" and r["a"] and r["a"][0].get("t") == "NoSuchProcess":
                        r = T("NoSuchProcess")
                    res.append(r)
            out[acc] = res
        return out
    finally:
        _pslinux.CLOCK_TICKS = real_clk
        _psposix.get_terminal_map.cache_clear()


def _impl_run(case, coq, env):
    import builtins
    import shutil
    import psutil
    from psutil import _common, _pslinux, _psposix
    from pv import fakeproc
    k = case["kind"]
    if k == "live":      # the real kernel's bytes through the fake tree, one sub-run per file
        return [_impl_run(sub, q, env) for sub, q in zip(_live_subcases(case), coq["parts"])]
    if k == "copy_hist":
        return _copy_hist_run(case, coq, env, psutil, _pslinux, _psposix, fakeproc)
    root = os.path.join(env["work"], "proc")
    fp = fakeproc.FakeProc(root, btime=case.get("btime", 1500000000))
    fakeproc.attach(psutil, root)
    real_clk = _pslinux.CLOCK_TICKS
    real_stat, real_listdir, real_scandir = os.stat, os.listdir, os.scandir
    _pslinux.CLOCK_TICKS = case.get("clk", real_clk)
    had_open = "open" in vars(_common)
    # psutil._common.open_binary / open_text resolve `open` in psutil._common's globals first
    state = {"plan": {}, "denied": set(), "err": {}}

    def fake_open(path, *a, **kw):
        if isinstance(path, str):
            if path in state["denied"]:
                raise _oserr("EACCES", path)
            if path in state["err"]:
                raise _oserr(state["err"][path], path)
            plan = state["plan"].get(path)
            if plan:
                what = plan.pop(0)
                if what is not None:
                    raise _oserr(what, path)
        return builtins.open(path, *a, **kw)
    _common.open = fake_open
    try:
        if k in ("stat", "stat_raw"):
            pid = case["pid"]
            fp.add(pid)
            fp.write(pid, "cmdline", b"")   # name() must not be replaced by a cmdline-derived one (that is C12)
            fp.write(pid, "stat", unB(coq["printed"]) if k == "stat" else bytes.fromhex(case["data"]))
            with open(os.path.join(root, "stat"), "wb") as f:
                f.write(unB(coq["procstat"]) if k == "stat" else bytes.fromhex(case["procstat"]))
            if k == "stat":
                dev, pts = _dirs(case)
                dev = [[d[0], None if d[3] else glibc_makedev(d[1], d[2])] for d in dev]
                pts = [[d[0], None if d[3] else glibc_makedev(d[1], d[2])] for d in pts]
            else:
                dev, pts = case["dev"], case["pts"]
            rdev = {}
            for n, r in dev:
                rdev["/dev/" + n] = r
            for n, r in pts:
                rdev["/dev/pts/" + n] = r

            def fake_scandir(path=".", *a):
                if path == "/dev":
                    return _Scan([n for n, _ in dev])
                if path == "/dev/pts":
                    return _Scan([n for n, _ in pts])
                return real_scandir(path, *a)

            def fake_stat(path, *a, **kw):
                if isinstance(path, str) and path in rdev:
                    if rdev[path] is None:
                        raise _oserr("ENOENT", path)
                    return _Rdev(rdev[path])
                return real_stat(path, *a, **kw)
            os.scandir, os.stat = fake_scandir, fake_stat
            _psposix.get_terminal_map.cache_clear()
            try:
                return [
                    _call(psutil, pid, "name", B),
                    _call(psutil, pid, "ppid", int),
                    _call(psutil, pid, "status", B),
                    _call(psutil, pid, "cpu_times", lambda r: [_F(r.user), _F(r.system), _F(r.children_user),
                                                                 _F(r.children_system), _F(r.iowait)]),
                    _call(psutil, pid, "create_time", _F),
                    _call(psutil, pid, "cpu_num", int),
                    _call(psutil, pid, "terminal", lambda r: None if r is None else B(r)),
                ]
            finally:
                os.scandir, os.stat = real_scandir, real_stat
                _psposix.get_terminal_map.cache_clear()
        if k == "name_hist":
            pid = case["pid"]
            fp.add(pid)
            spath = os.path.join(root, str(pid), "stat")
            cpath = os.path.join(root, str(pid), "cmdline")
            p = None
            out = []
            for st, printed in zip(case["steps"], coq["printed"]):
                # the kernel state of this moment
                state["err"].clear()
                if st["stat"] == "gone":
                    if os.path.exists(spath):
                        os.remove(spath)
                else:
                    _write(spath, unB(printed))
                    if st["stat"] == "denied":
                        state["err"][spath] = "EACCES"
                if st["cmd"] in ("EACCES", "ESRCH"):
                    _write(cpath, b"")
                    state["err"][cpath] = st["cmd"]
                elif st["cmd"] == "ENOENT":
                    if os.path.exists(cpath):
                        os.remove(cpath)
                else:
                    _write(cpath, bytes.fromhex(st["cmd"]))
                if p is None:
                    p = psutil.Process(pid)          # ONE object for the whole history
                for t in st["touch"]:                # other entry points that also store self._name
                    try:
                        {"str": lambda: str(p), "repr": lambda: repr(p), "name": p.name,
                         "as_dict": lambda: p.as_dict(attrs=["name"])}[t]()
                    except Exception:  # noqa
                        pass
                out.append(outcome(p.name, B))
            return out
        if k == "name_enc":
            pid = case["pid"]
            fp.add(pid)
            fp.write(pid, "cmdline", b"")
            fp.write(pid, "stat", unB(coq["printed"]))
            ch = _child(case["enc"], case.get("pyflags") or ())
            ch.stdin.write(json.dumps({"root": root, "pid": pid}) + "\n")
            ch.stdin.flush()
            line = ch.stdout.readline()
            if not line:
                raise RuntimeError("child interpreter (%s) died" % case["enc"])
            r = json.loads(line)
            if "exc" in r:
                return [T("Exc", T(r["exc"])), None]
            return [T("Val", T("Str", r["ok"])),
                    {"b": r["fsencode"]} if "fsencode" in r else T("Exc", T(r["fsencode_err"]))]
        if k == "stat_race":
            pid = case["pid"]
            fp.add(pid)
            fp.write(pid, "cmdline", b"")
            spath = fp.write(pid, "stat", unB(coq["printed"]))

            def fake_stat(path, *a, **kw):
                if not case["exists"] and path == spath:
                    raise _oserr("ENOENT", path)
                return real_stat(path, *a, **kw)
            out = []
            for meth, conv in (("name", B), ("status", B), ("cpu_num", int)):
                def call(meth=meth):
                    p = psutil.Process(pid)           # constructed while the file is readable
                    state["plan"][spath] = [case["first"], None if case["second"] == "data" else case["second"]]
                    os.stat = fake_stat
                    return getattr(p, meth)()
                try:
                    out.append(outcome(call, conv))
                finally:
                    os.stat = real_stat
                    state["plan"].pop(spath, None)
            return out
        if k in ("status", "status_raw"):
            pid = PID
            fp.add(pid)
            if k == "status" and case.get("big"):
                data = _py_k_status(case)
                _same_digest("status file", coq["printed"], data)
                if case.get("probe") and data[BUF - 1:BUF].hex() != case["probe"]:
                    raise RuntimeError("C06 harness: byte 32767 of the big status file is not the planned one")
            else:
                data = unB(coq["printed"]) if k == "status" else bytes.fromhex(case["data"])
            fp.write(pid, "status", data)
            convs = [("uids", lambda r: [r.real, r.effective, r.saved]), ("gids", lambda r: [r.real, r.effective, r.saved]),
                     ("num_threads", int), ("num_ctx_switches", lambda r: [r.voluntary, r.involuntary])]
            if case.get("oneshot"):            # one object, all four inside one oneshot() block (shared cached read)
                def four():
                    p = psutil.Process(pid)
                    with p.oneshot():
                        return [outcome(getattr(p, m), cv) for m, cv in convs]
                r = outcome(four)
                return r["a"][0] if r["t"] == "Val" else [r] * 4
            return [_call(psutil, pid, m, cv) for m, cv in convs]
        if k in ("threads", "threads_raw", "threads_big"):
            pid = PID
            fp.add(pid)
            fp.write(pid, "stat", bytes.fromhex(case["own"]) if k == "threads_raw" else unB(coq["own"]))
            task = os.path.join(root, str(pid), "task")
            shutil.rmtree(task)
            os.makedirs(task)
            if k == "threads_big":
                after = _thread_after({"nfields": 52, "utime": 14, "stime": 12})
                items = [(str(case["base"] + i), _py_k_stat(case["base"] + i, bytes.fromhex(case["comm"]), after))
                         for i in range(case["n"])]
                _same_digest("task directory", coq["printed"], b"".join(d for _, d in items))
            elif k == "threads":
                items = [(str(t["tid"]), None if t["gone"] else unB(pr)) for t, pr in zip(case["threads"], coq["printed"])]
            else:
                items = [(nm, d if d in (None, "denied") else bytes.fromhex(d)) for nm, d in case["listing"]]
            for nm, data in items:
                os.makedirs(os.path.join(task, nm))
                if isinstance(data, str):                 # "denied" (file contents are bytes: no bytes == str under -bb)
                    _write(os.path.join(task, nm, "stat"), b"")
                    state["denied"].add(os.path.join(task, nm, "stat"))
                elif data is not None:
                    _write(os.path.join(task, nm, "stat"), data)
            alive = case["alive"]
            pdir = os.path.join(root, str(pid))

            def fake_stat(path, *a, **kw):
                if not alive and isinstance(path, str) and (path + "/").startswith(pdir + "/"):
                    raise _oserr("ENOENT", path)
                return real_stat(path, *a, **kw)
            def call():
                p = psutil.Process(pid)
                os.stat = fake_stat
                return p.threads()
            try:
                return outcome(call, lambda rows: [[r.id, _F(r.user_time), _F(r.system_time)] for r in rows])
            finally:
                os.stat = real_stat
        if k in ("ppid_map", "ppid_map_raw"):
            if k == "ppid_map":
                items = []
                for e, pr in zip(case["ents"], coq["printed"]):
                    if "other" in e:
                        items.append((e["other"], "other"))
                    else:
                        items.append((str(e["pid"]), {"present": None, "gone": "gone", "denied": "denied"}[e["state"]] or unB(pr)))
            else:
                items = [(nm, "gone" if d is None else d if d == "denied" else bytes.fromhex(d)) for nm, d in case["listing"]]
            for nm, data in items:
                d = os.path.join(root, nm)
                os.makedirs(d)
                if isinstance(data, str) and data == "denied":
                    _write(os.path.join(d, "stat"), b"")
                    state["denied"].add(os.path.join(d, "stat"))
                elif isinstance(data, bytes):
                    _write(os.path.join(d, "stat"), data)
            order = [os.fsencode(nm) for nm, _ in items]

            def fake_listdir(path=".", *a):
                r = real_listdir(path, *a)
                if os.fsencode(path) == os.fsencode(root):
                    extra = [x for x in r if os.fsencode(x) not in order]
                    conv = (lambda x: x) if isinstance(path, bytes) else os.fsdecode
                    return [conv(x) for x in order] + extra
                return r
            os.listdir = fake_listdir
            try:
                return [outcome(_pslinux.ppid_map, lambda d: [[a, b] for a, b in d.items()]),
                        outcome(_pslinux.pids, list)]
            finally:
                os.listdir = real_listdir
        raise ValueError(k)
    finally:
        _pslinux.CLOCK_TICKS = real_clk
        os.stat, os.listdir, os.scandir = real_stat, real_listdir, real_scandir
        if not had_open:
            del _common.open


_IMPL_DIR = None


def gen_tables(impl_dir, out_dir):
    global _IMPL_DIR
    _IMPL_DIR = impl_dir          # the live cases of gen_cases() query the real /proc with this build
    return _c06_tables.gen_tables(impl_dir, out_dir)


MANIFEST = {
    "text": "70 theorems (Coq 8.16, all closed under the global context) over the Gallina transcription of _parse_stat_file, the "
            "stat-fed accessors, boot_time(), the nested wrap_exceptions + Process.status() front end, the four status-file regex "
            "scanners, threads(), pids()/ppid_map() and get_terminal_map() with its two glob() calls. For EVERY kernel-formatted stat "
            "record (any comm bytes of any length, every record length N >= 39 incl. 39..41 without blkio, any digit strings): "
            "name/ppid/cpu_num exact; no formatting site of the reader functions (ast table generated from the source under test) formats or "
            "compares a bytes-typed local, so no interpreter mode (-bb, -W error) can make a reader fail; the public name() with the object's remembered _name as model state: memoryless on POSIX, every answer of "
            "any history = the documented function (comm, or basename(argv[0]) extending a >= 15-byte comm) of the kernel state at that "
            "moment; name() as a str = os.fsdecode(comm) under the interpreter's file-system encoding (utf-8 / ascii / "
            "latin-1 + surrogateescape) with os.fsencode(os.fsdecode(b)) = b proved for every byte string and each encoding; status() = documented constant for the 12 letters and '?' for every other ASCII token, the "
            "generated PROC_STATUSES table proved equal to the documented mapping in both directions, ZombieProcess -> STATUS_ZOMBIE in "
            "the front end; cpu_times = ticks/CLK (iowait from field 42, 0 when absent); create_time = start/CLK + btime of /proc/stat "
            "(any position of the btime line), exact values of different ticks >= 1/CLK apart and twice the float tolerance < 1/CLK; "
            "terminal() = path of the last listed node with the task's (major, minor) for EVERY /dev and /dev/pts listing (any nodes, "
            "duplicates, vanished nodes, dot-files, non-tty names; major < 2^12, minor < 2^20), sound and complete; constructing "
            "Process never fails. For every status file (any comm, ANY number of supplementary groups - the file has no size bound) uids/gids/num_threads exact; num_ctx_switches exact for comm <= 15 "
            "bytes (bound sharp), NotImplementedError when the lines are absent. threads() exact for any threads with any names; "
            "ppid_map()/pids() exact for any /proc listing (vanished, unreadable, non-numeric entries). Witness for the pre-fix "
            "signed tty_nr kept. Tied to the code by running the real psutil (public API, fake /proc and /dev, patched CLOCK_TICKS, "
            "read faults) and the model on the same printed records and on a malformed stream.",
    "note": "The kernel printers k_stat / k_status (incl. the Name escaping) and new_encode_dev are checked byte for byte against the "
            "running kernel on every run (live cases). Trusted: Coq kernel + vm_compute; hand-written model coq/C06/Model.v (tied by the correspondence run only, including "
            "the regex scanners standing for CPython's re and glob_tty/glob_pts standing for glob+fnmatch); kernel formats in "
            "coq/C06/Spec.v; table translator; harness patches (CLOCK_TICKS, os.scandir, os.stat, os.listdir, psutil._common.open); "
            "CPython builtins and IEEE doubles. Proof covers the model, sampling covers model-vs-code.",
}
