"""Fail-closed translator for C05: the control flow of Process.children() (psutil/__init__.py of the tree under check)
into the statement language of coq/C05/PyGen.v.  Everything that is not one of the statement / expression shapes listed
here raises TranslateError (pv/core.py: a broken tie -> search for a failing input)."""
import ast


class TranslateError(RuntimeError):
    """the source no longer has the shape the translator knows: handled by pv/core.py as a broken obligation"""


EXN = {"NoSuchProcess", "ZombieProcess", "AccessDenied", "TimeoutExpired", "ValueError", "TypeError", "KeyError",
       "IndexError", "OverflowError", "OSError", "RuntimeError", "NotImplementedError", "AttributeError",
       "ZeroDivisionError"}
OPS = {ast.Eq: "OEq", ast.NotEq: "ONe", ast.LtE: "OLe", ast.Lt: "OLt", ast.GtE: "OGe", ast.Gt: "OGt"}


def bad(node, what):
    raise TranslateError("C05 translator: %s at line %s: %s" % (
        what, getattr(node, "lineno", "?"), ast.dump(node)[:200] if isinstance(node, ast.AST) else node))


def q(s):
    if not s.isidentifier():
        bad(s, "name")
    return '"%s"' % s


def lst(xs):
    return "[" + "; ".join(xs) + "]"


def is_name(n, ident=None):
    return isinstance(n, ast.Name) and (ident is None or n.id == ident)


def is_self_attr(n, attr):
    return isinstance(n, ast.Attribute) and is_name(n.value, "self") and n.attr == attr


def is_call(n, nargs):
    return isinstance(n, ast.Call) and len(n.args) == nargs and not n.keywords


def ex(n):
    if is_self_attr(n, "pid"):
        return "ESelfPid"
    if is_name(n) and n.id not in ("self", "recursive", "ret", "stack", "seen", "ppid_map", "reverse_ppid_map"):
        return "(EVar %s)" % q(n.id)
    bad(n, "expression")


def cond(n):
    if isinstance(n, ast.Compare):
        if len(n.ops) != 1 or type(n.ops[0]) not in OPS:
            bad(n, "comparison")
        return "(CCmp %s %s %s)" % (OPS[type(n.ops[0])], ex(n.left), ex(n.comparators[0]))
    if isinstance(n, ast.BoolOp) and isinstance(n.op, ast.And):
        out = cond(n.values[-1])
        for v in reversed(n.values[:-1]):
            out = "(CAnd %s %s)" % (cond(v), out)
        return out
    if is_name(n):
        return "(CVar %s)" % q(n.id)
    bad(n, "condition")


def method_call_stmt(s, obj, meth, nargs):
    """obj.meth(args) as an expression statement -> args, else None"""
    if isinstance(s, ast.Expr) and is_call(s.value, nargs) and isinstance(s.value.func, ast.Attribute) \
            and s.value.func.attr == meth and is_name(s.value.func.value, obj):
        return s.value.args
    return None


def bstmt(s):
    if isinstance(s, ast.Assign) and len(s.targets) == 1:
        t, v = s.targets[0], s.value
        if is_name(t) and is_call(v, 1) and is_name(v.func, "Process"):
            return "BNewProc %s %s" % (q(t.id), ex(v.args[0]))
        if isinstance(t, ast.Tuple) and len(t.elts) == 2 and all(is_name(e) for e in t.elts) and is_call(v, 1) \
                and is_self_attr(v.func, "_start_times") and is_name(v.args[0]):
            return "BStartTimes %s %s %s" % (q(t.elts[0].id), q(t.elts[1].id), q(v.args[0].id))
        if is_name(t) and isinstance(v, ast.Compare):
            return "BLet %s %s" % (q(t.id), cond(v))
        bad(s, "assignment in try body")
    if isinstance(s, ast.If):
        if s.orelse:
            bad(s, "else in try body")
        return "BIf %s %s" % (cond(s.test), lst(bstmt(x) for x in s.body))
    a = method_call_stmt(s, "ret", "append", 1)
    if a is not None:
        if not is_name(a[0]):
            bad(s, "ret.append argument")
        return "BAppendRet %s" % q(a[0].id)
    a = method_call_stmt(s, "stack", "append", 1)
    if a is not None:
        return "BPush %s" % ex(a[0])
    bad(s, "statement in try body")


def handlers(h):
    t = h.type
    names = [t] if isinstance(t, ast.Name) else list(t.elts) if isinstance(t, ast.Tuple) else bad(h, "handler type")
    out = []
    for n in names:
        if not is_name(n) or n.id not in EXN:
            bad(h, "handler class")
        out.append(n.id)
    if h.name is not None or len(h.body) != 1 or not isinstance(h.body[0], ast.Pass):
        bad(h, "handler body (only 'pass')")
    return out


def cstmt(s):
    if isinstance(s, ast.If):
        if s.orelse:
            bad(s, "else in for body")
        if len(s.body) == 1 and isinstance(s.body[0], ast.Continue):
            return "CIfContinue %s" % cond(s.test)
        return "CIf %s %s" % (cond(s.test), lst(cstmt(x) for x in s.body))
    if isinstance(s, ast.Try):
        if s.orelse or s.finalbody or len(s.handlers) != 1:
            bad(s, "try shape")
        return "CTry %s %s" % (lst(bstmt(x) for x in s.body), lst(handlers(s.handlers[0])))
    # reverse_ppid_map[key].append(val)
    if isinstance(s, ast.Expr) and is_call(s.value, 1) and isinstance(s.value.func, ast.Attribute) \
            and s.value.func.attr == "append" and isinstance(s.value.func.value, ast.Subscript) \
            and is_name(s.value.func.value.value, "reverse_ppid_map"):
        return "CRevAppend %s %s" % (ex(s.value.func.value.slice), ex(s.value.args[0]))
    bad(s, "statement in for body")


def wstmt(s):
    if isinstance(s, ast.Assign) and len(s.targets) == 1 and is_name(s.targets[0]) and is_call(s.value, 0) \
            and isinstance(s.value.func, ast.Attribute) and s.value.func.attr == "pop" \
            and is_name(s.value.func.value, "stack"):
        return "WPop %s" % q(s.targets[0].id)
    if isinstance(s, ast.If) and not s.orelse and len(s.body) == 1 and isinstance(s.body[0], ast.Continue) \
            and isinstance(s.test, ast.Compare) and len(s.test.ops) == 1 and isinstance(s.test.ops[0], ast.In) \
            and is_name(s.test.comparators[0], "seen"):
        return "WIfSeenContinue %s" % ex(s.test.left)
    a = method_call_stmt(s, "seen", "add", 1)
    if a is not None:
        return "WSeenAdd %s" % ex(a[0])
    if isinstance(s, ast.For) and not s.orelse and is_name(s.target) and isinstance(s.iter, ast.Subscript) \
            and is_name(s.iter.value, "reverse_ppid_map"):
        return "WForRev %s %s %s" % (q(s.target.id), ex(s.iter.slice), lst(cstmt(x) for x in s.body))
    bad(s, "statement in while body")


def top(s):
    if isinstance(s, ast.Expr) and is_call(s.value, 0) and is_self_attr(s.value.func, "_raise_if_pid_reused"):
        return "TCheck"
    if isinstance(s, ast.Assign) and len(s.targets) == 1 and is_name(s.targets[0]):
        t, v = s.targets[0].id, s.value
        if t == "ppid_map" and is_call(v, 0) and is_name(v.func, "_ppid_map"):
            return "TMap"
        if t == "ret" and isinstance(v, ast.List) and not v.elts:
            return "TRetInit"
        if t == "reverse_ppid_map" and is_call(v, 1) and isinstance(v.func, ast.Attribute) \
                and v.func.attr == "defaultdict" and is_name(v.func.value, "collections") and is_name(v.args[0], "list"):
            return "TRevInit"
        if t == "seen" and is_call(v, 0) and is_name(v.func, "set"):
            return "TSeenInit"
        if t == "stack" and isinstance(v, ast.List) and len(v.elts) == 1:
            return "TStackInit %s" % ex(v.elts[0])
        bad(s, "top-level assignment")
    if isinstance(s, ast.For) and not s.orelse and isinstance(s.target, ast.Tuple) and len(s.target.elts) == 2 \
            and all(is_name(e) for e in s.target.elts) and is_call(s.iter, 0) and isinstance(s.iter.func, ast.Attribute) \
            and s.iter.func.attr == "items" and is_name(s.iter.func.value, "ppid_map"):
        return "TForItems %s %s %s" % (q(s.target.elts[0].id), q(s.target.elts[1].id), lst(cstmt(x) for x in s.body))
    if isinstance(s, ast.While) and not s.orelse and is_name(s.test, "stack"):
        return "TWhileStack %s" % lst(wstmt(x) for x in s.body)
    if isinstance(s, ast.Return) and is_name(s.value, "ret"):
        return "TReturnRet"
    bad(s, "top-level statement")


def children_prog(fn):
    a = fn.args
    if [x.arg for x in a.args] != ["self", "recursive"] or a.vararg or a.kwarg or a.kwonlyargs or a.posonlyargs \
            or len(a.defaults) != 1 or not (isinstance(a.defaults[0], ast.Constant) and a.defaults[0].value is False) \
            or fn.decorator_list:
        bad(fn, "signature of children")
    body = list(fn.body)
    if body and isinstance(body[0], ast.Expr) and isinstance(body[0].value, ast.Constant) \
            and isinstance(body[0].value.value, str):
        body = body[1:]                                     # docstring
    idx = [i for i, s in enumerate(body) if isinstance(s, ast.If)]
    if len(idx) != 1:
        bad(fn, "exactly one top-level if expected")
    i = idx[0]
    test = body[i].test
    if is_name(test, "recursive"):
        neg = "false"
    elif isinstance(test, ast.UnaryOp) and isinstance(test.op, ast.Not) and is_name(test.operand, "recursive"):
        neg = "true"
    else:
        bad(test, "test of the top-level if")
    return ("{| cp_pre := %s;\n     cp_neg := %s;\n     cp_then := %s;\n     cp_else := %s;\n     cp_post := %s |}" % (
        lst(top(s) for s in body[:i]), neg, lst(top(s) for s in body[i].body), lst(top(s) for s in body[i].orelse),
        lst(top(s) for s in body[i + 1:])))


def gen_text(init_path):
    tree = ast.parse(open(init_path, encoding="utf-8").read())
    fns = [n for c in tree.body if isinstance(c, ast.ClassDef) and c.name == "Process"
           for n in c.body if isinstance(n, (ast.FunctionDef, ast.AsyncFunctionDef)) and n.name == "children"]
    if len(fns) != 1 or not isinstance(fns[0], ast.FunctionDef):
        raise TranslateError("C05 translator: %d definitions of Process.children" % len(fns))
    return ("(* Process.children() of psutil/__init__.py, translated statement by statement (props/_c05_gen.py) *)\n"
            "Definition c05_children : children_prog :=\n  %s.\n" % children_prog(fns[0]))


# ------------------------------------------------------------------ Process.parent()
def is_none(n):
    return isinstance(n, ast.Constant) and n.value is None


def pstmt(s):
    if isinstance(s, ast.Expr) and is_call(s.value, 0) and is_self_attr(s.value.func, "_raise_if_pid_reused"):
        return "PCheck"
    if isinstance(s, ast.Assign) and len(s.targets) == 1:
        t, v = s.targets[0], s.value
        if is_name(t) and isinstance(v, ast.IfExp):
            c = v.test
            if isinstance(c, ast.Compare) and len(c.ops) == 1 and isinstance(c.ops[0], ast.IsNot) \
                    and is_name(c.left, "_LOWEST_PID") and is_none(c.comparators[0]) and is_name(v.body, "_LOWEST_PID") \
                    and isinstance(v.orelse, ast.Subscript) and is_call(v.orelse.value, 0) \
                    and is_name(v.orelse.value.func, "pids") and isinstance(v.orelse.slice, ast.Constant) \
                    and v.orelse.slice.value == 0:
                return "PLowest %s" % q(t.id)
            bad(s, "lowest-pid expression")
        if is_name(t) and is_call(v, 0) and is_self_attr(v.func, "ppid"):
            return "PPpid %s" % q(t.id)
        if is_name(t) and is_call(v, 1) and is_name(v.func, "Process"):
            return "PNewProc %s %s" % (q(t.id), ex(v.args[0]))
        if isinstance(t, ast.Tuple) and len(t.elts) == 2 and all(is_name(e) for e in t.elts) and is_call(v, 1) \
                and is_self_attr(v.func, "_start_times") and is_name(v.args[0]):
            return "PStartTimes %s %s %s" % (q(t.elts[0].id), q(t.elts[1].id), q(v.args[0].id))
        bad(s, "assignment in parent()")
    if isinstance(s, ast.If) and not s.orelse:
        c = s.test
        if isinstance(c, ast.Compare) and len(c.ops) == 1 and isinstance(c.ops[0], ast.IsNot) and is_name(c.left) \
                and is_none(c.comparators[0]):
            return "PIfNotNone %s %s" % (q(c.left.id), lst(pstmt(x) for x in s.body))
        if len(s.body) == 1 and isinstance(s.body[0], ast.Return):
            r = s.body[0].value
            if r is None or is_none(r):
                return "PIfReturnNone %s" % cond(c)
            if is_name(r):
                return "PIfReturnProc %s %s" % (cond(c), q(r.id))
        bad(s, "if in parent()")
    if isinstance(s, ast.Try):
        if s.orelse or s.finalbody or len(s.handlers) != 1:
            bad(s, "try shape")
        return "PTry %s %s" % (lst(pstmt(x) for x in s.body), lst(handlers(s.handlers[0])))
    bad(s, "statement in parent()")


def parent_prog(fn):
    a = fn.args
    if [x.arg for x in a.args] != ["self"] or a.vararg or a.kwarg or a.kwonlyargs or a.posonlyargs or a.defaults \
            or fn.decorator_list:
        bad(fn, "signature of parent")
    body = list(fn.body)
    if body and isinstance(body[0], ast.Expr) and isinstance(body[0].value, ast.Constant) \
            and isinstance(body[0].value.value, str):
        body = body[1:]
    return lst(pstmt(s) for s in body)


def gen_text_parent(init_path):
    tree = ast.parse(open(init_path, encoding="utf-8").read())
    fns = [n for c in tree.body if isinstance(c, ast.ClassDef) and c.name == "Process"
           for n in c.body if isinstance(n, (ast.FunctionDef, ast.AsyncFunctionDef)) and n.name == "parent"]
    if len(fns) != 1 or not isinstance(fns[0], ast.FunctionDef):
        raise TranslateError("C05 translator: %d definitions of Process.parent" % len(fns))
    return ("\n(* Process.parent() of psutil/__init__.py, translated statement by statement (props/_c05_gen.py) *)\n"
            "Definition c05_parent : list pstmt :=\n  %s.\n" % parent_prog(fns[0]))
