"""C12 round 2: fail-closed translators (Python ast -> Gallina literals of coq/C12/PyGen.v) for
   psutil/_pslinux.py : Process.cmdline()   -> cprog
   psutil/__init__.py : Process.name()      -> nprog
Every statement / expression shape that is not listed here raises TranslateError (pv/core.py treats
that as a broken tie)."""
import ast
import os

from pv import gallina as G


class TranslateError(RuntimeError):
    pass


def _d(node):
    return ast.dump(node)[:300]


def _is_name(node, ident):
    return isinstance(node, ast.Name) and node.id == ident


def _is_self_attr(node, attr):
    return isinstance(node, ast.Attribute) and node.attr == attr and _is_name(node.value, "self")


def _strip_doc(body):
    body = list(body)
    if body and isinstance(body[0], ast.Expr) and isinstance(body[0].value, ast.Constant) and isinstance(body[0].value.value, str):
        body = body[1:]
    return body


def _method(tree, cls, name):
    cs = [n for n in tree.body if isinstance(n, ast.ClassDef) and n.name == cls]
    if len(cs) != 1:
        raise TranslateError("class %s: %d module-level definitions" % (cls, len(cs)))
    fs = [n for n in cs[0].body if isinstance(n, (ast.FunctionDef, ast.AsyncFunctionDef)) and n.name == name]
    if len(fs) != 1 or not isinstance(fs[0], ast.FunctionDef):
        raise TranslateError("%s.%s: not exactly one plain def" % (cls, name))
    f = fs[0]
    a = f.args
    if ([x.arg for x in a.args] != ["self"] or a.vararg or a.kwarg or a.kwonlyargs or a.posonlyargs or a.defaults):
        raise TranslateError("%s.%s: signature is not (self)" % (cls, name))
    return f


# ------------------------------------------------------------------ Process.cmdline() (_pslinux)
_SVARS = {"data": "VData", "sep": "VSep"}
_LVAR = "cmdline"


def _call_method(node, attr, nargs):
    """node is <expr>.<attr>(a1..an) without keywords -> (receiver, args) else None"""
    if (isinstance(node, ast.Call) and isinstance(node.func, ast.Attribute) and node.func.attr == attr
            and len(node.args) == nargs and not node.keywords):
        return node.func.value, node.args
    return None


def _sexpr(n):
    if isinstance(n, ast.Name) and n.id in _SVARS and isinstance(n.ctx, ast.Load):
        return "(SVar %s)" % _SVARS[n.id]
    if isinstance(n, ast.Constant) and isinstance(n.value, str) and n.value.isascii():
        return "(SLit %s)" % G.by(n.value.encode("ascii"))
    if isinstance(n, ast.IfExp):
        return "(SIfExp %s %s %s)" % (_bexpr(n.test), _sexpr(n.body), _sexpr(n.orelse))
    if isinstance(n, ast.Subscript) and isinstance(n.slice, ast.Slice):
        s = n.slice
        if (s.lower is None and s.step is None and isinstance(s.upper, ast.UnaryOp) and isinstance(s.upper.op, ast.USub)
                and isinstance(s.upper.operand, ast.Constant) and type(s.upper.operand.value) is int and s.upper.operand.value == 1):
            return "(SDropLast %s)" % _sexpr(n.value)
    raise TranslateError("cmdline: str expression not understood: " + _d(n))


def _bexpr(n):
    if isinstance(n, ast.UnaryOp) and isinstance(n.op, ast.Not):
        return "(BNot %s)" % _bexpr(n.operand)
    if isinstance(n, ast.BoolOp) and isinstance(n.op, ast.And) and len(n.values) >= 2:
        parts = [_bexpr(v) for v in n.values]
        # a and b and c  ==  a and (b and c): same short-circuit order
        out = parts[-1]
        for p in reversed(parts[:-1]):
            out = "(BAnd %s %s)" % (p, out)
        return out
    m = _call_method(n, "endswith", 1)
    if m:
        return "(BEndswith %s %s)" % (_sexpr(m[0]), _sexpr(m[1][0]))
    if isinstance(n, ast.Compare) and len(n.ops) == 1 and len(n.comparators) == 1:
        op, l, r = n.ops[0], n.left, n.comparators[0]
        if isinstance(op, ast.Eq):
            if (isinstance(l, ast.Call) and _is_name(l.func, "len") and len(l.args) == 1 and not l.keywords
                    and _is_name(l.args[0], _LVAR) and isinstance(r, ast.Constant) and type(r.value) is int and 0 <= r.value < 1000):
                return "(BLenEq %d%%nat)" % r.value
            return "(BEq %s %s)" % (_sexpr(l), _sexpr(r))
        if isinstance(op, ast.In):
            return "(BIn %s %s)" % (_sexpr(l), _sexpr(r))
    if isinstance(n, (ast.Name, ast.Constant)):
        return "(BTruthy %s)" % _sexpr(n)
    raise TranslateError("cmdline: condition not understood: " + _d(n))


def _lexpr(n):
    if _is_name(n, _LVAR):
        return "LVar"
    if isinstance(n, ast.List) and not n.elts:
        return "LEmpty"
    m = _call_method(n, "split", 1)
    if m:
        return "(LSplit %s %s)" % (_sexpr(m[0]), _sexpr(m[1][0]))
    raise TranslateError("cmdline: list expression not understood: " + _d(n))


def _read_file_stmt(st):
    """with open_text(f"{self._procfs_path}/{self.pid}/cmdline"[, newline=""]) as f: data = f.read()"""
    if not (isinstance(st, ast.With) and len(st.items) == 1 and len(st.body) == 1):
        return None
    it = st.items[0]
    c = it.context_expr
    if not (isinstance(c, ast.Call) and _is_name(c.func, "open_text") and len(c.args) == 1 and _is_name(it.optional_vars, "f")):
        return None
    p = c.args[0]
    ok = (isinstance(p, ast.JoinedStr) and len(p.values) == 4
          and isinstance(p.values[0], ast.FormattedValue) and _is_self_attr(p.values[0].value, "_procfs_path")
          and p.values[0].conversion == -1 and p.values[0].format_spec is None
          and isinstance(p.values[1], ast.Constant) and p.values[1].value == "/"
          and isinstance(p.values[2], ast.FormattedValue) and _is_self_attr(p.values[2].value, "pid")
          and p.values[2].conversion == -1 and p.values[2].format_spec is None
          and isinstance(p.values[3], ast.Constant) and p.values[3].value == "/cmdline")
    if not ok:
        raise TranslateError("cmdline: the file opened is not f\"{self._procfs_path}/{self.pid}/cmdline\": " + _d(p))
    raw = False
    for kw in c.keywords:
        if kw.arg == "newline" and isinstance(kw.value, ast.Constant) and kw.value.value == "":
            raw = True
        else:
            raise TranslateError("cmdline: open_text() keyword not understood: " + _d(kw))
    b = st.body[0]
    m = isinstance(b, ast.Assign) and len(b.targets) == 1 and _is_name(b.targets[0], "data") and _call_method(b.value, "read", 0)
    if not (m and _is_name(m[0], "f")):
        raise TranslateError("cmdline: body of the with statement is not `data = f.read()`: " + _d(b))
    return "(CReadFile %s)" % G.bo(raw)


def _cstmts(stmts):
    out = []
    for st in stmts:
        r = _read_file_stmt(st)
        if r:
            out.append(r)
        elif isinstance(st, ast.Assign) and len(st.targets) == 1 and isinstance(st.targets[0], ast.Name):
            t = st.targets[0].id
            if t in _SVARS:
                out.append("(CAssignS %s %s)" % (_SVARS[t], _sexpr(st.value)))
            elif t == _LVAR:
                out.append("(CAssignL %s)" % _lexpr(st.value))
            else:
                raise TranslateError("cmdline: assignment to an unknown local: " + _d(st))
        elif isinstance(st, ast.If) and not st.orelse:
            out.append("(CIf %s %s)" % (_bexpr(st.test), _cstmts(st.body)))
        elif (isinstance(st, ast.Expr) and isinstance(st.value, ast.Call) and _is_self_attr(st.value.func, "_raise_if_zombie")
              and not st.value.args and not st.value.keywords):
            out.append("CRaiseIfZombie")
        elif isinstance(st, ast.Return) and st.value is not None:
            out.append("(CReturn %s)" % _lexpr(st.value))
        else:
            raise TranslateError("cmdline: statement not understood: " + _d(st))
    return "[%s]" % "; ".join(out)


def translate_cmdline(tree):
    f = _method(tree, "Process", "cmdline")
    decs = f.decorator_list
    if not (len(decs) == 1 and _is_name(decs[0], "wrap_exceptions")):
        raise TranslateError("Process.cmdline: decorators are not exactly [@wrap_exceptions]")
    return _cstmts(_strip_doc(f.body))


# ------------------------------------------------------------------ psutil.Process.name() (__init__)
_ECLS = {"AccessDenied": "KAccessDenied", "ZombieProcess": "KZombieProcess", "NoSuchProcess": "KNoSuchProcess"}


def _fsenc(n, var):
    """os.fsencode(<var>) -> True ; <var> -> False ; else None"""
    if _is_name(n, var):
        return False
    if (isinstance(n, ast.Call) and isinstance(n.func, ast.Attribute) and n.func.attr == "fsencode" and _is_name(n.func.value, "os")
            and len(n.args) == 1 and not n.keywords and _is_name(n.args[0], var)):
        return True
    return None


def _ncond(n):
    if _is_name(n, "POSIX"):
        return "NPosix"
    if _is_name(n, "WINDOWS"):
        return "NWindows"
    if _is_name(n, "cmdline"):
        return "NCmdline"
    if isinstance(n, ast.BoolOp) and isinstance(n.op, ast.And) and len(n.values) >= 2:
        parts = [_ncond(v) for v in n.values]
        out = parts[-1]
        for p in reversed(parts[:-1]):
            out = "(NAnd %s %s)" % (p, out)
        return out
    if isinstance(n, ast.Compare) and len(n.ops) == 1 and len(n.comparators) == 1:
        op, l, r = n.ops[0], n.left, n.comparators[0]
        if isinstance(op, ast.IsNot) and _is_self_attr(l, "_name") and isinstance(r, ast.Constant) and r.value is None:
            return "NNameCached"
        if (isinstance(op, ast.GtE) and isinstance(l, ast.Call) and _is_name(l.func, "len") and len(l.args) == 1 and not l.keywords
                and isinstance(r, ast.Constant) and type(r.value) is int and 0 <= r.value < 1000):
            e = _fsenc(l.args[0], "name")
            if e is not None:
                return "(NLenGe %s %d%%nat)" % (G.bo(e), r.value)
    m = _call_method(n, "startswith", 1)
    if m:
        a, b = _fsenc(m[0], "extended_name"), _fsenc(m[1][0], "name")
        if a is not None and a == b:
            return "(NStartswith %s)" % G.bo(a)
    raise TranslateError("name: condition not understood: " + _d(n))


def _assign1(st):
    if isinstance(st, ast.Assign) and len(st.targets) == 1:
        return st.targets[0], st.value
    return None, None


def _nstmts(stmts):
    out = []
    for st in stmts:
        t, v = _assign1(st)
        if isinstance(st, ast.If) and not st.orelse:
            out.append("(NIf %s %s)" % (_ncond(st.test), _nstmts(st.body)))
        elif isinstance(st, ast.Try):
            if st.finalbody or len(st.handlers) != 1 or len(st.body) != 1:
                raise TranslateError("name: try statement not understood: " + _d(st))
            bt, bv = _assign1(st.body[0])
            m = bt is not None and _is_name(bt, "cmdline") and isinstance(bv, ast.Call) and _is_self_attr(bv.func, "cmdline") \
                and not bv.args and not bv.keywords
            if not m:
                raise TranslateError("name: try body is not `cmdline = self.cmdline()`: " + _d(st.body[0]))
            h = st.handlers[0]
            if h.name is not None or h.type is None or not (len(h.body) == 1 and isinstance(h.body[0], ast.Pass)):
                raise TranslateError("name: handler is not `except (...): pass`")
            types = h.type.elts if isinstance(h.type, ast.Tuple) else [h.type]
            ks = []
            for x in types:
                if not (isinstance(x, ast.Name) and x.id in _ECLS):
                    raise TranslateError("name: handler class not understood: " + _d(x))
                ks.append(_ECLS[x.id])
            out.append("(NTryCmdline [%s] %s)" % ("; ".join(ks), _nstmts(st.orelse)))
        elif t is not None and _is_name(t, "name"):
            if (isinstance(v, ast.Call) and isinstance(v.func, ast.Attribute) and v.func.attr == "name"
                    and _is_self_attr(v.func.value, "_proc") and not v.args and not v.keywords):
                out.append("NProcName")
            elif _is_name(v, "extended_name"):
                out.append("NNameExt")
            else:
                raise TranslateError("name: assignment to `name` not understood: " + _d(st))
        elif t is not None and _is_name(t, "extended_name"):
            ok = (isinstance(v, ast.Call) and isinstance(v.func, ast.Attribute) and v.func.attr == "basename"
                  and isinstance(v.func.value, ast.Attribute) and v.func.value.attr == "path" and _is_name(v.func.value.value, "os")
                  and len(v.args) == 1 and not v.keywords and isinstance(v.args[0], ast.Subscript)
                  and _is_name(v.args[0].value, "cmdline") and isinstance(v.args[0].slice, ast.Constant)
                  and type(v.args[0].slice.value) is int and v.args[0].slice.value == 0)
            if not ok:
                raise TranslateError("name: extended_name is not os.path.basename(cmdline[0]): " + _d(st))
            out.append("NExtBasename0")
        elif t is not None and _is_self_attr(t, "_name") and _is_name(v, "name"):
            out.append("NStoreName")
        elif (t is not None and isinstance(t, ast.Attribute) and t.attr == "_name" and _is_self_attr(t.value, "_proc")
              and _is_name(v, "name")):
            out.append("NStoreProcName")
        elif isinstance(st, ast.Return) and _is_name(st.value, "name"):
            out.append("NReturnName")
        elif isinstance(st, ast.Return) and _is_self_attr(st.value, "_name"):
            out.append("NReturnCached")
        else:
            raise TranslateError("name: statement not understood: " + _d(st))
    return "[%s]" % "; ".join(out)


def translate_name(tree):
    f = _method(tree, "Process", "name")
    if f.decorator_list:
        raise TranslateError("Process.name: unexpected decorators")
    return _nstmts(_strip_doc(f.body))


def gen_tables(impl_dir, out_dir):
    cp = translate_cmdline(ast.parse(open(os.path.join(impl_dir, "psutil", "_pslinux.py")).read()))
    np_ = translate_name(ast.parse(open(os.path.join(impl_dir, "psutil", "__init__.py")).read()))
    txt = "\n".join([
        "(* GENERATED by props/_c12_gen.py (gen_tables) from psutil/_pslinux.py and psutil/__init__.py of the tree under check -- do not edit. *)",
        "From PV Require Import C12.PyGen.", "",
        "(* psutil/_pslinux.py: Process.cmdline *)",
        "Definition gen_cmdline : cprog :=\n  %s." % cp, "",
        "(* psutil/__init__.py: Process.name *)",
        "Definition gen_name : nprog :=\n  %s." % np_, ""])
    path = os.path.join(out_dir, "C12_Tables.v")
    os.makedirs(out_dir, exist_ok=True)
    if not os.path.exists(path) or open(path).read() != txt:
        with open(path, "w") as f:
            f.write(txt)
