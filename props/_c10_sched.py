"""C10 helper: line-level pre-emption inside _WrapNumbers.run().

Thread A executes one call under a sys.settrace tracer that counts the 'line' events of the
frames of psutil/_common.py:_WrapNumbers.{run,_remove_dead_reminders,_add_dict} (the code that
must be atomic with respect to cache_clear()).  At the [point]-th event A stops; the controller
lets thread B execute a cache_clear() and gives it [wait] seconds: with the lock in place B blocks
until A has left wrap_numbers() (the clear then takes effect after the call), without it the clear
lands in the middle of run().  Then A resumes.
"""
import sys
import threading

FUNCS = ("run", "_remove_dead_reminders", "_add_dict")


def run_with_preemption(call_fn, clear_fn, point, wait=0.05, suffix="psutil/_common.py"):
    """-> dict(reached=bool, during=bool, call=<result of call_fn>, clear=<result of clear_fn>)"""
    paused, resume, a_done = threading.Event(), threading.Event(), threading.Event()
    st = {"n": 0, "reached": False}
    res = {}

    def local(frame, event, arg):
        if event == "line" and not st["reached"]:
            if st["n"] == point:
                st["reached"] = True
                paused.set()
                resume.wait(20)
            st["n"] += 1
        return local

    def tracer(frame, event, arg):
        co = frame.f_code
        if event == "call" and co.co_name in FUNCS and co.co_filename.endswith(suffix):
            return local
        return None

    def a_body():
        sys.settrace(tracer)
        try:
            res["call"] = call_fn()
        finally:
            sys.settrace(None)
            a_done.set()
            paused.set()          # wake the controller when the point was never reached

    def b_body():
        res["clear"] = clear_fn()

    a = threading.Thread(target=a_body, daemon=True)
    b = threading.Thread(target=b_body, daemon=True)
    a.start()
    if not paused.wait(20):
        raise RuntimeError("pre-emption harness: thread A neither paused nor finished")
    during = False
    if st["reached"] and not a_done.is_set():
        b.start()
        b.join(wait)
        during = not b.is_alive()
        resume.set()
        a.join(20)
        b.join(20)
    else:
        resume.set()
        a.join(20)
        b.start()
        b.join(20)
    if a.is_alive() or b.is_alive():
        raise RuntimeError("pre-emption harness: a thread did not finish")
    return {"reached": st["reached"], "during": during, "call": res.get("call"), "clear": res.get("clear")}


def run_with_injection(call_fn, point, exc, suffix="psutil/_common.py"):
    """Raise [exc] at the [point]-th 'line' event inside run/_remove_dead_reminders/_add_dict of the call
    (the line has not been executed yet: the exception stands for one raised by that line).
    -> dict(reached=bool, func=str|None, lineno=int|None, call=<result of call_fn>)"""
    st = {"n": 0, "reached": False, "func": None, "lineno": None}

    def local(frame, event, arg):
        if event == "line" and not st["reached"]:
            if st["n"] == point:
                st["reached"] = True
                st["func"] = frame.f_code.co_name
                st["lineno"] = frame.f_lineno
                raise exc
            st["n"] += 1
        return local

    def tracer(frame, event, arg):
        co = frame.f_code
        if event == "call" and co.co_name in FUNCS and co.co_filename.endswith(suffix):
            return local
        return None

    old = sys.gettrace()
    sys.settrace(tracer)
    try:
        res = call_fn()
    finally:
        sys.settrace(old)
    return {"reached": st["reached"], "func": st["func"], "lineno": st["lineno"], "call": res}


class FailingStream:
    """stands for sys.stderr: the k-th write raises [exc] (once), the others are swallowed"""

    def __init__(self, k, exc):
        self.k, self.exc, self.n = k, exc, 0

    def write(self, s):
        i = self.n
        self.n += 1
        if i == self.k:
            raise self.exc
        return len(s)

    def flush(self):
        pass


class PausedCall:
    """Run call_fn in a thread and stop it at the first 'line' event inside function [funcname] of psutil/_common.py
    (e.g. 'wrap_numbers': the caller holds _nowrap_lock; 'run': _wn.lock is held as well) until release() or for at most
    [hold] seconds (so that a fork that waits for the locks can go ahead)."""

    def __init__(self, call_fn, funcname, hold=0.4, suffix="psutil/_common.py"):
        self.paused, self.resume, self.done = threading.Event(), threading.Event(), threading.Event()
        self.result = None
        st = {"hit": False}

        def local(frame, event, arg):
            if event == "line" and not st["hit"]:
                st["hit"] = True
                self.paused.set()
                self.resume.wait(hold)
            return local

        def tracer(frame, event, arg):
            co = frame.f_code
            if event == "call" and co.co_name == funcname and co.co_filename.endswith(suffix):
                return local
            return None

        def body():
            sys.settrace(tracer)
            try:
                self.result = call_fn()
            finally:
                sys.settrace(None)
                self.done.set()
                self.paused.set()

        self.thread = threading.Thread(target=body, daemon=True)
        self.thread.start()

    def wait_paused(self, t=10):
        return self.paused.wait(t) and not self.done.is_set()

    def release(self):
        self.resume.set()

    def join(self, t=20):
        self.thread.join(t)
        return self.result
