"""C17 -- the C extension is memory-safe and decodes OS records faithfully.

The real extension (built from the working tree with clang ASan+UBSan) is fed utmp files,
mount tables and hostile arguments; every call runs in a forked child so that a sanitizer
abort is an observable answer.  Answers are compared with the Gallina model (coq/C17/Model.v)
and with what the property demands (coq/C17/Spec.v)."""
import json
import os
import struct

from pv import gallina as G
from pv.canon import B, Exc, T, Val, exc_name

ID = "C17"
COQ_REQUIRE = "C17.Run"
SANITIZE = True
WORKER_DEATH_IS_RESULT = True
CASE_TIMEOUT = 60
SHARD = 20

# model parameters: True = the code as it is now (model of record, after the repairs e85352e users, a87b45e ionice,
# 301715a ethtool speed, 0d52d5b disk_partitions); False = the legacy variant of the model, only for trial runs against a
# revert:  C17_LEGACY=utmp,ioprio,mnt,ethtool VERIF_REPO=<copy with the commit reverted> ./vcheck C17 quick
_LEGACY = set(filter(None, os.environ.get("C17_LEGACY", "").split(",")))
FIXED_UTMP = "utmp" not in _LEGACY
FIXED_IOPRIO = "ioprio" not in _LEGACY
FIXED_MNT_UTF8 = "mnt" not in _LEGACY
FIXED_ETHTOOL = "ethtool" not in _LEGACY
# proposed, NOT committed repairs (False = the code as it is): C17_PROPOSED=ifname for a trial run against a copy with
# notes/fixes/C17-ifname-fs-encoding.diff applied
_PROPOSED = set(filter(None, os.environ.get("C17_PROPOSED", "").split(",")))
FIXED_IFNAME = "ifname" in _PROPOSED

RULE = ("utmp files printed from records (every ut_type incl. negative, pid/time over the int32 range, line/user/host of length "
        "0,1,w-1,w with ASCII / non-UTF-8 / ':0' contents, embedded NULs, junk in the other fields) plus raw files with partial "
        "records; mount tables printed from entries (escapes for space/tab/newline/backslash, 'none', '#', non-UTF-8 and multi-byte "
        "bytes, fields up to 5000 bytes, 0-300 entries, all=True/False, /proc/filesystems drawn from a pool; tables with both spellings of the "
        "root device ('rootfs', '/dev/root') in either order with the root-device lookup failing or succeeding through a fake "
        "<procfs>/partitions, nothing monkeypatched) plus malformed raw tables; "
        "every entry point of _psutil_linux/_psutil_posix with ints {0,+-1,2^31+-1,2^63+-1,2^70,...}, str of length 0,15,16,17,4096, "
        "embedded NUL, lone surrogate, bytes, None, float, lists (setters only on the forked child itself or absent PIDs); "
        "Process.ionice(ioclass, value) through the public API; the live interface list against ioctl/sysfs read independently; "
        "2-4 free-running threads overlapping inside disk_partitions()/users()/the NIC ioctls on the same and on different fed files of 200-400 "
        "entries (every call must return the single-threaded answer for its own input); the loopback of a private network namespace renamed "
        "to ASCII / UTF-8 / non-UTF-8 names (net_if_addrs, net_if_stats, net_io_counters must agree on os.fsdecode(name)); "
        "sequences of calls made in ONE process (failing calls with ghost NIC names / absent PIDs, then the live-interface calls, "
        "net_if_stats(), net_if_addrs(), fed users()/disk_partitions(), with harness-owned descriptors opened in between): every step must "
        "answer as in a fresh process and the descriptors must survive; "
        "fed interface lists through an LD_PRELOAD getifaddrs() shim compiled at check time (AF_PACKET records with sll_halen in "
        "{0,1,4,6,8,16,20,32,255}, AF_INET/AF_INET6, unknown families, NULL addr/netmask/broadaddr, names up to IFNAMSIZ, every flag mix); "
        "strings with printf conversions (%s, %s%s%s%s, %n, %1$s, %d, %999d, %%, 100%done, %x..%n, %*d, %hhn, a lone %, random mixes) as the path of "
        "cext.disk_partitions / as psutil.PROCFS_PATH for psutil.disk_partitions(all=True) (file missing -> ENOENT, path through a regular file -> "
        "ENOTDIR) and as the name of the four NIC ioctl entry points (ENODEV), each in two child interpreters of the sanitizer build, "
        "PSUTIL_DEBUG unset and =1, stderr through a pipe: same clean OSError (errno, filename), exit status 0, and every stderr line that "
        "mentions the string shows it verbatim. "
        "Non-trivial = not the empty file / empty table; distinct = canonical case hash.")
TRUSTED = ["correspondence harness props/C17.py + props/_c17_iso.py + props/_c17_ifshim.py + pv/ (utmpname() redirection, fake PROCFS_PATH, "
           "fork isolation, getifaddrs() shim)",
           "clang 14 AddressSanitizer + UndefinedBehaviorSanitizer runtime as the observer of out-of-bounds accesses and integer overflow",
           "record formats transcribed in coq/C17/Spec.v (struct utmp x86-64, mounts line escapes, /proc/filesystems, IFF_* bits)",
           "glibc getutent/getmntent/getifaddrs/CPU_* macros: modelled (getmntent, CPU_SET) or trusted, not verified"]
ASSUMPTIONS = ["memory behaviour of the compiled code is observed only on the generated runs (sanitizer build); the Coq theorems are "
               "about the model of the decoding logic and of the index/integer arithmetic",
               "the root-device lookup (RootFsDeviceFinder) is an oracle of the model: the harness steers it through a fake <procfs>/partitions line for the "
               "device of '/' (existing node /dev/null = found, missing node = not found); its /sys fallbacks are not exercised; NUL bytes in the "
               "mounts file are out of the model",
               "live interface comparison asserts timing-free facts only (names, flags, MTU, MAC, addresses)"]
try:
    from props import _c17_ifshim as _S
    if _S.compiler() is None:
        ASSUMPTIONS.append("no C compiler found at check time: the fed interface list (getifaddrs shim) could not be built; "
                           "net_if_addrs() was compared with the live interface list only (ifaddrs cases skipped)")
except Exception:  # pragma: no cover
    pass
EXHAUSTIVE = {"quick": "argument classes x entry points: full product for one- and two-argument entry points; printf-conversion strings x "
                       "string-taking entry points (6 targets, failure branch, debug off/on): full product, never sampled",
              "thorough": "argument classes x entry points: full product incl. proc_ioprio_set (pid x ioclass x iodata) and ionice(ioclass, value)"}

W_LINE, W_ID, W_USER, W_HOST = 32, 4, 32, 256


def gen_tables(impl_dir, out_dir):
    """Facts of the C sources that thread safety rests on (regions without the GIL and the calls inside them, modifiable
    statics), regenerated from the tree under check into coq/Gen/C17_Tables.v; C17_gil_free_regions_safe and
    C17_no_shared_mutable_state are proved about the generated tables."""
    from props import _c17_csrc
    _c17_csrc.write(impl_dir, out_dir)


# ------------------------------------------------------------------ generators
def _hx(b):
    return bytes(b).hex()


def _rnd_bytes(rng, n, alphabet=None):
    if alphabet is None:
        return bytes(rng.randrange(1, 256) for _ in range(n))
    return bytes(rng.choice(alphabet) for _ in range(n))


ALNUM = b"abcdefghijklmnopqrstuvwxyzABCDEFGHIJKLMNOPQRSTUVWXYZ0123456789/_-."


def _field(rng, w):
    n = rng.choice([0, 1, 5, w - 1, w, w, rng.randint(0, w)])
    k = rng.random()
    if k < 0.55:
        s = _rnd_bytes(rng, n, ALNUM)
    elif k < 0.75:
        s = _rnd_bytes(rng, n)                       # any non-NUL byte, non-UTF-8 included
    elif k < 0.85:
        s = ("\u00e9\u4e16" * w).encode()[:n]        # multi-byte, possibly cut in the middle
    else:
        s = _rnd_bytes(rng, n, ALNUM)
        if n >= 3:                                   # embedded NUL (record no longer well formed)
            i = rng.randrange(0, n)
            s = s[:i] + b"\0" + s[i + 1:]
    return s


def _urec(rng, force_type=None):
    ty = force_type if force_type is not None else rng.choice([7, 7, 7, 7, 0, 1, 2, 5, 6, 8, 9, -1, 300])
    host = rng.choice([None, None, None, b":0", b":0.0", b":0.00", b":", b":1", b"", b":0x"])
    if host is None:
        host = _field(rng, W_HOST)
    junk = rng.random() < 0.25

    def other(n):
        return _rnd_bytes(rng, n) if junk else bytes(n)
    return {"type": ty, "pid": rng.choice([0, 1, 1234, 2 ** 31 - 1, -1, -2 ** 31, 4194304]),
            "line": _hx(_field(rng, W_LINE)), "id": _hx(_field(rng, W_ID)), "user": _hx(_field(rng, W_USER)),
            "host": _hx(host), "exit": _hx(other(4)), "session": _hx(other(4)),
            "sec": rng.choice([0, 1, 1700000000, 2 ** 31 - 1, -1, -2 ** 31]), "usec": _hx(other(4)),
            "addr": _hx(other(16)), "unused": _hx(bytes(20) if rng.random() < 0.9 else _rnd_bytes(rng, 20))}


def _utmp_cls(recs):
    cls = "utmp"
    for r in recs:
        if r["type"] == 7:
            if (len(r["line"]) // 2 == W_LINE or len(r["user"]) // 2 == W_USER or len(r["host"]) // 2 == W_HOST):
                return "utmp-fullwidth"
            if "00" in [r[k][i:i + 2] for k in ("line", "user", "host") for i in range(0, len(r[k]), 2)]:
                cls = "utmp-embedded-nul"
    return cls if recs else "trivial"


FS_POOL = [(False, "ext4"), (False, "ext3"), (False, "vfat"), (False, "btrfs"), (False, "xfs"), (True, "proc"), (True, "sysfs"),
           (True, "tmpfs"), (True, "zfs"), (True, "overlay"), (False, "fuseblk"), (True, "devtmpfs"), (False, "iso9660")]
MNT_ALPH = ALNUM + b" \t\n\\#,=:"


def _mfield(rng, kind):
    k = rng.random()
    if kind == "type":
        if k < 0.8:
            return rng.choice([n for _, n in FS_POOL] + ["ext2", "nfs"]).encode()
        if k < 0.9:
            return rng.choice([b"ex\xfft4", b"\xe9", "t\u00e9".encode(), b"ext 4", b"a\\b"])
        return _rnd_bytes(rng, rng.randint(1, 6), MNT_ALPH)
    if kind == "dev":
        if k < 0.15:
            return b"none"
        if k < 0.2:
            return rng.choice([b"/dev/root", b"rootfs", b"none ", b"nonee", b"/dev/sda1"])
        if k < 0.21:
            return rng.choice([b"#dev", b"a#b", b"", b"", b"/dev/disk/by-label/c#"])
    if kind == "opts" and k < 0.3:
        return rng.choice([b"rw", b"rw,relatime", b"ro,noatime,errors=remount-ro"])
    n = rng.choice([1, 2, 5, 9, 30, 100] if rng.random() < 0.985 else [3000, 4090, 5000])
    r = rng.random()
    if r < 0.6:
        s = _rnd_bytes(rng, n, MNT_ALPH)
    elif r < 0.8:
        s = _rnd_bytes(rng, n)
        if kind == "dev":
            s = s.replace(b"#", b"+")
    elif r < 0.9:
        s = ("\u00e9\u4e16\U0001f600" * n).encode()[:n]
    else:
        s = _rnd_bytes(rng, n, b"\\0141234 \t")
    if kind == "dev":
        s = s.replace(b"#", b"+")      # '#' in a device name is a finding class of its own: only the explicit choices above
        if not s.startswith(b"/") and rng.random() < 0.5:
            s = b"/" + s
    return s


def _ment(rng):
    return [_hx(_mfield(rng, "dev")), _hx(_mfield(rng, "dir")), _hx(_mfield(rng, "type")), _hx(_mfield(rng, "opts"))]


def _rootdev_cases(rng, n_random):
    """tables with BOTH spellings of the root device ('rootfs / rootfs' and one or more '/dev/root <mp> ext4'), either
    order, all=True/False, root-device lookup failing / succeeding"""
    h = lambda b: b.hex()   # noqa: E731
    rootfs = [h(b"rootfs"), h(b"/"), h(b"rootfs"), h(b"rw")]
    devroot = [h(b"/dev/root"), h(b"/"), h(b"ext4"), h(b"rw,relatime")]
    devroot2 = [h(b"/dev/root"), h(b"/mnt/bind"), h(b"ext4"), h(b"ro")]
    other = [h(b"/dev/sda2"), h(b"/home"), h(b"ext4"), h(b"rw")]
    proc = [h(b"proc"), h(b"/proc"), h(b"proc"), h(b"rw")]
    fs = [[True, "rootfs"], [True, "proc"], [False, "ext4"]]
    out = []
    for order in ([rootfs, devroot], [devroot, rootfs], [rootfs, proc, devroot, other, devroot2], [devroot2, other, devroot, proc, rootfs],
                  [devroot, devroot2], [rootfs], [devroot]):
        for allp in (True, False):
            for root in ("missing", "found"):
                out.append({"kind": "mounts", "cls": "mounts-rootdev", "all": allp, "root": root, "fs": fs, "ents": [list(e) for e in order]})
    pool = [rootfs, devroot, devroot2, other, proc, [h(b"none"), h(b"/sys"), h(b"sysfs"), h(b"rw")], [h(b"rootfs"), h(b"/old"), h(b"ext4"), h(b"rw")],
            [h(b"/dev/rootx"), h(b"/x"), h(b"ext4"), h(b"rw")]]
    for _ in range(n_random):
        ents = [list(rng.choice(pool)) for _ in range(rng.randint(2, 7))]
        out.append({"kind": "mounts", "cls": "mounts-rootdev", "all": rng.random() < 0.5, "root": rng.choice(["found", "missing"]),
                    "fs": [[rng.random() < 0.5, "rootfs"], [True, "proc"], [False, "ext4"]], "ents": ents})
    return out


def _esc(b):
    out = bytearray()
    for c in b:
        out += {32: b"\\040", 9: b"\\011", 10: b"\\012", 92: b"\\134"}.get(c, bytes([c]))
    return bytes(out)


def _esc_dev(b):
    return _esc(b).replace(b"#", b"\\043")


def _fields_len(e):
    """bytes of the printed line up to the end of the options (the kernel escapes '#' in the device name too)"""
    return len(_esc_dev(bytes.fromhex(e[0]))) + sum(len(_esc(bytes.fromhex(x))) for x in e[1:]) + 3


def _line_len(e):
    return _fields_len(e) + 5


def _is_utf8(b):
    try:
        b.decode("utf-8")
        return True
    except UnicodeDecodeError:
        return False


INTS = [0, 1, -1, 2 ** 31 - 1, 2 ** 31, -2 ** 31, -2 ** 31 - 1, 2 ** 63 - 1, 2 ** 63, -2 ** 63, -2 ** 63 - 1, 2 ** 70, -2 ** 70]


def _pi(n):
    return {"i": n}


def _ps(s):
    return {"s": [ord(c) for c in s]}


WRONG = [{"n": None}, {"f": 1.5}, _ps("x"), {"y": b"x".hex()}, {"l": []}, {"tf": True}]
STRS = [_ps(""), _ps("a" * 15), _ps("a" * 16), _ps("a" * 17), _ps("a" * 4096), _ps("lo"), _ps("lo\0x"), _ps("\udcff"), _ps("\u00e9" * 8),
        _ps("lo" + "\u00e9" * 7), _ps("\U0001f600" * 4), _ps("/nonexistent/mounts")]
NOTSTR = [{"n": None}, {"f": 1.5}, {"y": b"lo".hex()}, {"l": []}, _pi(0), {"tf": False}]
# PIDs the setters may be called with: 0 = the forked child itself, or PIDs that cannot exist / cannot be converted
SAFE_PIDS = [_pi(0), _pi(2 ** 31 - 1), _pi(-1), _pi(2 ** 31), _pi(-2 ** 31), _pi(-2 ** 31 - 1), _pi(2 ** 70), {"n": None}, _ps("1"), {"f": 1.5}]
IOCLASSES = [0, 1, 2, 3, 4, 7, 8, 2 ** 18 - 1, 2 ** 18, 2 ** 20, 2 ** 31 - 1, 2 ** 31, -1, -2 ** 31, -2 ** 31 - 1, 2 ** 70]
IODATA = [0, 4, 7, 8, -1, 2 ** 13, 2 ** 31 - 1, 2 ** 31]
SEQS = [{"l": []}, {"l": [_pi(0)]}, {"l": [_pi(-1)]}, {"l": [_pi(-2)]}, {"l": [_pi(0), _pi(-2)]}, {"l": [_pi(1023)]}, {"l": [_pi(1024)]},
        {"l": [_pi(0), _pi(1024)]}, {"l": [_pi(2 ** 63 - 1)]}, {"l": [_pi(2 ** 63)]}, {"l": [_pi(-2 ** 63)]}, {"l": [_pi(-2 ** 63 - 1)]},
        {"l": [_pi(0), _pi(2 ** 70)]}, {"l": [_pi(2 ** 64)]}, {"l": [_pi(2 ** 32)]}, {"l": [_pi(0), _ps("x")]}, {"l": [{"n": None}]}, {"l": [{"f": 1.5}]},
        {"l": [{"tf": True}]}, _ps("abc"), _ps(""), {"y": b"\x00\x01".hex()}, {"y": ""}, {"n": None}, _pi(5), {"f": 1.5},
        {"l": [_pi(i) for i in range(0, 1100, 7)]}, {"l": [_pi(0)] * 3000}, {"l": [_pi(0), _pi(0), _pi(1)]}, {"l": [_pi(8191)]}, {"l": [_pi(-8)]},
        {"l": [_pi(2 ** 64 - 1)]}]

ENTRY_COQ = {"check_pid_range": "EpCheckPid", "proc_ioprio_get": "EpIoprioGet", "proc_ioprio_set": "EpIoprioSet",
             "proc_cpu_affinity_get": "EpAffGet", "proc_cpu_affinity_set": "EpAffSet", "disk_partitions": "EpDiskPartitions",
             "users": "EpUsers", "net_if_duplex_speed": "EpDuplexSpeed", "linux_sysinfo": "EpSysinfo", "set_debug": "EpSetDebug",
             "getpagesize": "EpGetPagesize", "getpriority": "EpGetPriority", "setpriority": "EpSetPriority", "net_if_addrs": "EpIfAddrs",
             "net_if_mtu": "EpIfMtu", "net_if_flags": "EpIfFlags", "net_if_is_running": "EpIfRunning"}
POSIX_EPS = {"getpagesize", "getpriority", "setpriority", "net_if_addrs", "net_if_mtu", "net_if_flags", "net_if_is_running"}


def _entry_cases(rng, tier):
    out = []

    def add(ep, args, cls=None):
        out.append({"kind": "entry", "cls": cls or ("entry-" + ep), "ep": ep, "args": args})
    ints = [_pi(n) for n in INTS]
    for ep in ("check_pid_range", "proc_ioprio_get", "proc_cpu_affinity_get", "getpriority"):
        for a in ints + WRONG:
            add(ep, [a])
        add(ep, [])
        add(ep, [_pi(0), _pi(0)])
    for ep in ("net_if_duplex_speed", "net_if_mtu", "net_if_flags", "net_if_is_running", "disk_partitions"):
        for a in STRS + NOTSTR:
            add(ep, [a])
        add(ep, [])
        add(ep, [_ps("lo"), _ps("lo")])
    for ep in ("users", "linux_sysinfo", "getpagesize", "net_if_addrs"):
        for args in ([], [_pi(2 ** 70)], [{"n": None}, _ps("a" * 4096)]):
            add(ep, args)
    for a in ints + WRONG + [_ps("")]:
        add("set_debug", [a])
    add("set_debug", [])
    add("set_debug", [_pi(0)])     # leave debugging off
    for p in SAFE_PIDS:
        for v in ints + WRONG:
            add("setpriority", [p, v])
        for s in SEQS:
            add("proc_cpu_affinity_set", [p, s])
    add("setpriority", [_pi(0)])
    add("proc_cpu_affinity_set", [_pi(0)])
    add("proc_cpu_affinity_set", [_pi(0), {"l": []}, _pi(0)])
    trip = [(p, c, d) for p in SAFE_PIDS for c in IOCLASSES + [None] for d in IODATA + [None]]
    if tier != "thorough":
        trip = [(p, c, d) for (p, c, d) in trip if (p == _pi(0) and (rng.random() < 0.5 or d in (0, None))) or rng.random() < 0.04]
    for p, c, d in trip:
        add("proc_ioprio_set", [p, _pi(c) if c is not None else {"n": None}, _pi(d) if d is not None else _ps("x")])
    add("proc_ioprio_set", [_pi(0), _pi(2)])
    for c in IOCLASSES:
        for v in [None, 0, 4, 7, 8, -1, 2 ** 31]:
            out.append({"kind": "ionice", "cls": "ionice", "ioclass": c, "value": v})
    return out


IF_NAMES = [b"eth0", b"lo", b"ib0", b"ip6tnl0", b"a" * 15, b"a" * 16, "\u00e9th".encode(), b"wlp3s0", b"x", b""]
IF_FLAGS = [0x1043, 0x49, 0x10d1, 0, 0x12, 0x2, 0x10, 0x1003]
HALENS = [0, 1, 4, 6, 6, 6, 8, 16, 20, 32]
V4 = ["c0000202", "7f000001", "0a080001", "ffffff00", "ff000000", "c00002ff", "00000000", "ffffffff"]
V6 = ["fe8000000000000000fcfffffe000001", "00000000000000000000000000000001", "fd000000000000000000000000000002",
      "20010db8000000000000000000000001", "ffffffffffffffff0000000000000000", "ffffffffffffffffffffffffffffffff",
      "00000000000000000000000000000000"]


def _ll_tok(rng, n=None):
    n = rng.choice(HALENS) if n is None else n
    data = bytes(n) if rng.random() < 0.15 else (b"\xff" * n if rng.random() < 0.15 else _rnd_bytes(rng, n).replace(b"\x01", b"\x00"))
    return "L:%d:%d:%s" % (rng.choice([1, 32, 772, 769]), rng.randint(1, 40), data.hex())


def _ifa_rec(rng, kind=None):
    kind = kind or rng.choice(["ll", "ll", "ll", "v4", "v6", "none", "other"])
    name = rng.choice(IF_NAMES)
    if rng.random() < 0.03:
        name = b"\xffeth"                      # not UTF-8
    flags = rng.choice(IF_FLAGS)
    if kind == "ll":
        n = rng.choice(HALENS + ([255] if rng.random() < 0.1 else []))
        return {"name": name.hex(), "flags": flags, "addr": _ll_tok(rng, n), "mask": _ll_tok(rng) if rng.random() < 0.15 else "-",
                "baddr": _ll_tok(rng, rng.choice([n, n, 0, 6])) if rng.random() < 0.7 else "-"}
    if kind == "v4":
        return {"name": name.hex(), "flags": flags, "addr": "4:" + rng.choice(V4), "mask": "4:" + rng.choice(V4) if rng.random() < 0.85 else "-",
                "baddr": "4:" + rng.choice(V4) if rng.random() < 0.7 else "-"}
    if kind == "v6":
        return {"name": name.hex(), "flags": flags, "addr": "6:%s:0" % rng.choice(V6), "mask": "6:%s:0" % rng.choice(V6) if rng.random() < 0.85 else "-",
                "baddr": "6:%s:0" % rng.choice(V6) if rng.random() < 0.3 else "-"}
    if kind == "none":
        return {"name": name.hex(), "flags": flags, "addr": "-", "mask": "-", "baddr": "-"}
    return {"name": name.hex(), "flags": flags, "addr": "U:%d" % rng.choice([1, 16, 0]), "mask": "-", "baddr": "-"}


def _ifaddrs_cases(rng, n):
    out = []
    # every sll_halen once, with a broadcast address of the same length
    bad = {"name": b"d\xff\xfe".hex(), "flags": 0x49, "addr": "L:772:1:000000000000", "mask": "-", "baddr": "-"}
    out.append({"kind": "ifaddrs", "cls": "ifaddrs-nonutf8", "recs": [_ifa_rec(rng, "ll"), bad, _ifa_rec(rng, "v4")]})
    recs = [{"name": b"hw%d" % h, "flags": 0x1043, "addr": "L:1:%d:%s" % (h + 1, bytes(range(1, h + 1)).hex()), "mask": "-",
             "baddr": "L:1:%d:%s" % (h + 1, "ff" * h)} for h in (0, 1, 4, 6, 8, 16, 20, 32)]
    for r in recs:
        r["name"] = r["name"].hex()
    out.append({"kind": "ifaddrs", "cls": "ifaddrs-halen", "recs": recs})
    for _ in range(n):
        recs = [_ifa_rec(rng) for _ in range(rng.choice([1, 2, 4, 8]))]
        cls = "ifaddrs"
        if any(r["addr"].startswith("L:") and len(r["addr"].split(":")[3]) > 16 for r in recs):
            cls = "ifaddrs-longhw"
        out.append({"kind": "ifaddrs", "cls": cls, "recs": recs})
    return out


def _call(ep, *args):
    return {"op": "call", "ep": ep, "args": list(args)}


def _seq_cases(rng, n):
    """sequences of calls made in ONE process: failing calls (ghost / bad NIC names, absent PIDs), then the live-interface
    calls, fed users()/disk_partitions(), and harness-owned descriptors opened in between and checked at the end"""
    live = [c["name"] for c in _live_ifaces()] or ["lo"]
    rec = {"type": 7, "pid": 4242, "line": b"pts/3".hex(), "id": b"ts/3".hex(), "user": b"alice".hex(), "host": b":0".hex(),
           "exit": "00" * 4, "session": "00" * 4, "sec": 1700000000, "usec": "00" * 4, "addr": "00" * 16, "unused": "00" * 20}
    feeds = [{"op": "users", "recs": [rec]}, {"op": "users", "recs": []},
             {"op": "parts", "all": True, "filesystems": b"\text4\nnodev\tproc\n".hex(), "mounts": b"/dev/sda1 / ext4 rw 0 0\nproc /proc proc rw 0 0\n".hex()},
             {"op": "parts", "all": False, "filesystems": b"\text4\nnodev\tproc\n".hex(), "mounts": b"/dev/sda1 / ext4 rw 0 0\nproc /proc proc rw 0 0\n".hex()}]
    fails = [_call("net_if_mtu", _ps("ghost0")), _call("net_if_flags", _ps("ghost0")), _call("net_if_is_running", _ps("nope")),
             _call("net_if_duplex_speed", _ps("ghost")), _call("net_if_mtu", _ps("")), _call("net_if_mtu", _ps("a" * 16)),
             _call("net_if_flags", _ps("lo\0x")), _call("net_if_mtu", {"y": b"lo".hex()}), _call("getpriority", _pi(2 ** 31 - 1)),
             _call("proc_ioprio_get", _pi(2 ** 31 - 1)), _call("proc_cpu_affinity_get", _pi(2 ** 31 - 1)),
             _call("disk_partitions", _ps("/nonexistent/mounts")), _call("check_pid_range", _pi(-1)), _call("check_pid_range", _pi(2 ** 31))]

    def lives(names):
        out = []
        for nm in names:
            out += [_call("net_if_mtu", _ps(nm)), _call("net_if_flags", _ps(nm)), _call("net_if_is_running", _ps(nm)),
                    _call("net_if_duplex_speed", _ps(nm))]
        return out + [{"op": "stats"}, {"op": "addrs"}]
    out = []
    # directed: a failing call first / a failing call after a successful one with a descriptor opened in between
    out.append({"kind": "seq", "cls": "seq-fail-first", "steps": [_call("net_if_mtu", _ps("ghost0"))] + lives(live) + [{"op": "fdcheck"}]})
    out.append({"kind": "seq", "cls": "seq-fd-recycle", "steps": [{"op": "open"}, _call("net_if_mtu", _ps("lo")), _call("net_if_mtu", _ps("ghost0")),
                                                              {"op": "open"}, {"op": "open"}] + lives(live) + [{"op": "fdcheck"}]})
    for ep in ("net_if_flags", "net_if_is_running", "net_if_duplex_speed"):
        out.append({"kind": "seq", "cls": "seq-fd-recycle", "steps": [{"op": "open"}, _call(ep, _ps("lo")), _call(ep, _ps("ghost0")), {"op": "open"}]
                    + lives(["lo"]) + [{"op": "fdcheck"}]})
    for _ in range(n):
        steps = [{"op": "open"}]
        for _ in range(rng.randint(1, 4)):
            steps.append(rng.choice(fails))
            if rng.random() < 0.4:
                steps.append({"op": "open"})
            if rng.random() < 0.4:
                steps.append(rng.choice(feeds))
        steps += lives(rng.sample(live, min(len(live), rng.choice([1, 2]))))
        if rng.random() < 0.5:
            steps += [rng.choice(fails), rng.choice(feeds)] + lives(["lo"])
        steps.append({"op": "fdcheck"})
        out.append({"kind": "seq", "cls": "seq", "steps": steps})
    return out


IFNAME_POOL = [b"lo", b"nic0", "\u00e90".encode(), b"d\xff\xfe", b"\xe9th0", b"a" * 15, b"x\xc3", "\u4e16".encode() + b"0"]


def _ifname_cases():
    """the loopback interface of a PRIVATE network namespace renamed to each name of the pool (real kernel, no shim):
    net_if_addrs(), net_if_stats() and net_io_counters(pernic=True) must all list it under os.fsdecode(name)"""
    return [{"kind": "ifname", "cls": "ifname" if _is_utf8(nm) else "ifname-nonutf8", "name": nm.hex(),
             "cps": [ord(c) for c in os.fsdecode(nm)]} for nm in IFNAME_POOL]


# ---- caller-controlled strings with printf conversions on the FAILURE branches, debug mode on (wave 8)
FMT_MARK = "qZ7"
FMT_CONVS = ["%s", "%s%s%s%s", "%n", "%1$s", "%d", "%999d", "%%", "100%done", "%x%x%x%x%n", "%s%s%n", "%.0s%hhn", "%*d", "%", "%5$n", "_"]
FMT_NIC_CONVS = ["%s", "%s%s%s%s", "%n", "%1$s", "%d", "%999d", "%%", "100%done", "_"]
FMT_NIC_EPS = ["net_if_mtu", "net_if_flags", "net_if_is_running", "net_if_duplex_speed"]
FMT_ALPH = ["%s", "%n", "%d", "%x", "%p", "%ld", "%llu", "%c", "%%", "%5$s", "%*s", "%.9999s", "%hn", "%S", "%f", "%a", "ab", "/", ".", "%"]


def _fmt_cases(rng, tier):
    """Systematic block (never sampled): every target x every conversion string.  The string is MARK + conversions + 'Z'; paths
    are made inside the worker's private directory where nothing of that name exists (failure branch ENOENT), 'notdir' puts a
    regular file in the way (ENOTDIR).  Each case = two child interpreters (PSUTIL_DEBUG unset / =1) of the sanitizer build."""
    out = []

    def add(target, conv, how="missing"):
        out.append({"kind": "fmt", "cls": "fmt-" + target.replace("psutil.", "api-").replace("cext.", "c-") + ("" if how == "missing" else "-" + how),
                    "target": target, "how": how, "name": FMT_MARK + conv + "Z"})
    for conv in FMT_CONVS:
        add("cext.disk_partitions", conv)
        add("psutil.disk_partitions", conv)
    for conv in FMT_CONVS[:8:2]:
        add("cext.disk_partitions", conv, "notdir")
    for ep in FMT_NIC_EPS:
        for conv in FMT_NIC_CONVS:
            add(ep, conv)
    for _ in range({"quick": 4, "thorough": 150, "search": 10}[tier]):
        conv = "".join(rng.choice(FMT_ALPH) for _ in range(rng.randint(1, 8)))
        add(rng.choice(["cext.disk_partitions", "psutil.disk_partitions"] + FMT_NIC_EPS), conv, "missing")
    return out


FMT_CHILD = r"""
import json, os, sys
spec = json.loads(os.environ["C17_FMT_SPEC"])
import psutil
from psutil import _psplatform
cext, cext_posix = _psplatform.cext, _psplatform.cext_posix
t, s = spec["target"], spec["s"]
def call():
    if t == "cext.disk_partitions":
        return cext.disk_partitions(s)
    if t == "psutil.disk_partitions":
        psutil.PROCFS_PATH = s
        return psutil.disk_partitions(all=True)
    if t == "net_if_duplex_speed":
        return cext.net_if_duplex_speed(s)
    return getattr(cext_posix, t)(s)
sys.stderr.write("\nC17-CALL-BEGIN\n"); sys.stderr.flush()
try:
    out = ["val", repr(call())[:200]]
except OSError as e:
    fn = e.filename
    out = ["oserror", e.errno, None if fn is None else os.fsencode(fn).hex(), type(e).__name__]
except BaseException as e:
    out = ["exc", type(e).__name__, str(e)[:200]]
sys.stderr.flush()
sys.stdout.write("C17RESULT " + json.dumps(out) + "\n")
"""


def _fmt_child(spec, debug, timeout=50):
    import subprocess
    import sys
    env = dict(os.environ)
    env.pop("PSUTIL_DEBUG", None)
    if debug:
        env["PSUTIL_DEBUG"] = "1"
    env["C17_FMT_SPEC"] = json.dumps(spec)
    try:
        r = subprocess.run([sys.executable, "-c", FMT_CHILD], env=env, stdin=subprocess.DEVNULL, stdout=subprocess.PIPE, stderr=subprocess.PIPE,
                           timeout=timeout)
    except subprocess.TimeoutExpired:
        return {"rc": "timeout", "out": None, "err": [], "san": ""}
    res = None
    for ln in r.stdout.decode("utf-8", "replace").splitlines():
        if ln.startswith("C17RESULT "):
            res = json.loads(ln[10:])
    err = r.stderr.decode("latin-1")
    tail = err.split("\nC17-CALL-BEGIN\n", 1)[1] if "\nC17-CALL-BEGIN\n" in err else err
    san = " | ".join(ln for ln in tail.splitlines() if "runtime error" in ln or "ERROR: AddressSanitizer" in ln or "SUMMARY" in ln
                     or "%n in writable" in ln or "Fatal Python error" in ln)[:500]
    return {"rc": r.returncode, "out": res, "err": [ln[:300] for ln in tail.splitlines()][:12], "san": san}


def _threads_cases(rng, tier):
    """2-4 free-running threads overlapping inside the same entry point: disk_partitions() on the same and on different
    mounts files of 200-400 entries (cext level and public API), users() on one utmp file, the NIC ioctls / net_if_stats()
    mixed with failing calls.  Every call must return the sequential answer for ITS input."""
    out = []
    for k in range({"quick": 1, "thorough": 4, "search": 1}[tier]):
        out.append({"kind": "threads", "cls": "threads", "seed": rng.randrange(1 << 30), "nthreads": rng.choice([3, 4]) if k == 0 else rng.choice([2, 3, 4]),
                    "entries": rng.choice([200, 300, 400]), "budget": 3.0 if tier != "thorough" else 6.0})
    return out


def _sa_term(tok):
    import ipaddress
    if tok == "-":
        return "None"
    if tok[0] == "L":
        return "(Some (SaLL %s))" % _hb(tok.split(":")[3])
    if tok[0] == "4":
        return "(Some (SaText 2 %s))" % G.by(str(ipaddress.IPv4Address(bytes.fromhex(tok[2:]))))
    if tok[0] == "6":
        return "(Some (SaText 10 %s))" % G.by(str(ipaddress.IPv6Address(bytes.fromhex(tok.split(":")[1]))))
    return "(Some (SaOther %s))" % G.z(int(tok[2:]))


def _group_rows(rows):
    """rows [name, fam, addr, mask, bcast, ptp] in psutil's order -> what the dict of net_if_addrs() looks like"""
    d = {}
    for r in rows:
        d.setdefault(r[0]["b"], []).append(r[1:])
    return [[k, v] for k, v in d.items()]


def _live_ifaces():
    """Independent reading of the kernel's interface list (ioctl through Python's fcntl, sysfs, /proc/net/if_inet6)."""
    import fcntl
    import ipaddress
    import socket
    out = []
    try:
        names = sorted(n for _, n in socket.if_nameindex())
    except OSError:
        return out
    s = socket.socket(socket.AF_INET, socket.SOCK_DGRAM)
    try:
        inet6 = {}
        try:
            for ln in open("/proc/net/if_inet6"):
                f = ln.split()
                inet6.setdefault(f[5], []).append(str(ipaddress.IPv6Address(bytes.fromhex(f[0]))))
        except OSError:
            pass
        for n in names:
            ifr = struct.pack("16s24x", n.encode())
            try:
                flags = struct.unpack_from("H", fcntl.ioctl(s, 0x8913, ifr), 16)[0]
                mtu = struct.unpack_from("i", fcntl.ioctl(s, 0x8921, ifr), 16)[0]
                mac = open("/sys/class/net/%s/address" % n).read().strip()
                halen = int(open("/sys/class/net/%s/addr_len" % n).read())
            except (OSError, ValueError):
                continue
            eth = None
            try:
                import array
                ecmd = array.array("B", struct.pack("I40x", 1))          # ETHTOOL_GSET
                fcntl.ioctl(s, 0x8946, struct.pack("16sP16x", n.encode(), ecmd.buffer_info()[0]))
                raw = ecmd.tobytes()
                eth = [struct.unpack_from("H", raw, 28)[0], struct.unpack_from("H", raw, 12)[0], raw[14]]   # speed_hi, speed, duplex
            except OSError as e:
                import errno
                eth = None if e.errno in (errno.EOPNOTSUPP, errno.EINVAL) else "err"
            if eth == "err":
                continue
            inet = []
            try:
                a = fcntl.ioctl(s, 0x8915, ifr)[20:24]
                m = fcntl.ioctl(s, 0x891b, ifr)[20:24]
                inet.append([socket.inet_ntoa(a), socket.inet_ntoa(m)])
            except OSError:
                pass
            out.append({"kind": "netif", "cls": "netif-speed-unknown" if eth and eth[0] >= 2 ** 15 else "netif", "name": n, "flags": flags, "mtu": mtu,
                        "mac": mac if halen > 0 and mac else None, "eth": eth, "inet": inet, "inet6": sorted(inet6.get(n, [])), "names": names})
    finally:
        s.close()
    for c in out:
        c["others"] = [{"eth": o["eth"]} for o in out if o is not c]
    return out


def gen_cases(rng, tier):
    n_utmp = {"quick": 90, "thorough": 1500, "search": 250}[tier]
    n_mnt = {"quick": 75, "thorough": 1200, "search": 250}[tier]
    cases = []
    # ---- login records
    cases.append({"kind": "utmp", "cls": "trivial", "recs": []})
    for _ in range(n_utmp):
        n = rng.choice([1, 1, 1, 2, 2, 3, 5, 8, 20])
        recs = [_urec(rng) for _ in range(n)]
        cases.append({"kind": "utmp", "cls": _utmp_cls(recs), "recs": recs})
    for _ in range(n_utmp // 4):
        k = rng.random()
        if k < 0.5:    # whole records of random bytes + a partial tail
            body = b"".join(struct.pack("<hxxi", rng.choice([7, 7, 1, 8]), rng.choice([5, -5])) + _rnd_bytes(rng, 376).replace(
                b"\xff", b"\0") for _ in range(rng.randint(0, 3)))
            body += _rnd_bytes(rng, rng.choice([0, 1, 100, 383]))
        elif k < 0.8:  # a USER_PROCESS record without any NUL behind ut_line (read leaves the record)
            body = struct.pack("<hxxi", 7, 77) + b"A" * 376
            body += rng.choice([b"", struct.pack("<hxxi", 7, 78) + b"\0" * 376])
        else:
            body = _rnd_bytes(rng, rng.choice([0, 1, 383, 384, 385, 767, 768]))
        cases.append({"kind": "utmp_raw", "cls": "utmp-raw" if body else "trivial", "file": body.hex()})
    # ---- mount tables
    cases.append({"kind": "mounts", "cls": "trivial", "all": False, "fs": [], "ents": []})
    for _ in range(n_mnt):
        n = rng.choice([1, 1, 2, 3, 5, 8, 13, 40]) if rng.random() < 0.96 else rng.choice([150, 300])
        ents = [_ment(rng) for _ in range(n)]
        if n > 13:     # many entries: keep the generated Gallina term small
            ents = [[x[:24] or "61" for x in e] for e in ents]
        while sum(len(x) for e in ents for x in e) > 16000:
            ents.pop()
        fs = [[nd, nm] for nd, nm in FS_POOL if rng.random() < 0.7]
        if rng.random() < 0.3:
            rng.shuffle(fs)
        allp = rng.random() < 0.4
        cls = "mounts-all" if allp else "mounts"
        if any(_fields_len(e) > 4095 for e in ents):
            cls = "mounts-longline"
        elif any(e[0] == "" for e in ents):
            cls = "mounts-emptydev"
        elif any(b"#" in bytes.fromhex(e[0]) for e in ents):
            cls = "mounts-hashdev"
        elif any(not _is_utf8(bytes.fromhex(e[2])) or not _is_utf8(bytes.fromhex(e[3])) for e in ents):
            cls = "mounts-nonutf8"
        if any(bytes.fromhex(e[0]) in (b"/dev/root", b"rootfs") for e in ents) and cls in ("mounts", "mounts-all"):
            cls = "mounts-rootdev"
        cases.append({"kind": "mounts", "cls": cls, "all": allp, "root": rng.choice(["found", "missing"]), "fs": fs, "ents": ents})
    cases.extend(_rootdev_cases(rng, {"quick": 8, "thorough": 60, "search": 12}[tier]))
    raw_fs = [b"", b"\text4\nnodev\tproc\n", b"nodev\tzfs\n\tvfat\n", b"ext4\n", b"\n\n\text4\n", b"nodev\n", b"nodevice\text4\n",
              b"  nodev\tzfs  \n\t ext4 \n", b"\text4", b"nodev\tzfs\textra\n"]
    raw_mnt = [b"", b"\n", b"#comment\n", b"/dev/sda1 / ext4 rw 0 0\n", b"/dev/sda1 / ext4 rw 0 0", b"  \t/dev/sda1\t\t/a   ext4 rw  \t\n#c\n\n  \n/dev/x\n/dev/y /m\n",
               b"/dev/a /a ext4 rw 0 0 extra \\040 \n/dev/a\\04 /a\\0401\\ ext4 rw\\1341 0 0\n", b"/dev/a\\\\b /x\\\\040 ext4 rw\n",
               b"/dev/a /b\\", b"/dev/a /b\\0", b"/dev/a /b\\04", b"\\040 \\011 \\012 \\134\n", b"none /proc proc rw 0 0\nnone /sys sysfs rw 0 0\n",
               b"/dev/sda1 /a\0b ext4 rw 0 0\n/dev/sdb /b ext4 rw 0 0\n", b" \n\t\n/dev/z /z ext4 rw\n", b"/dev/sda1 /" + b"x" * 4080 + b" ext4 rw 0 0\n/dev/sdb /b ext4 rw 0 0\n",
               b"/dev/sda1 /" + b"x" * 4090 + b"\n", b"/dev/sda1 /m ext4 " + b"o" * 4077 + b"\n/dev/b /b ext4 rw\n", b"/dev/sda1 /m ext4 " + b"o" * 4076 + b"\n/dev/b /b ext4 rw\n",
               b"/dev/sda1 /m vfat rw\r\n", b"rootfs / rootfs rw 0 0\n/dev/root / ext4 rw 0 0\n", b"/dev/root / ext4 rw 0 0\nrootfs / rootfs rw 0 0\n/dev/root /b ext4 ro 0 0\n", b"/dev/a /a ext4 r\xffw 0 0\n", b"/dev/\xff /\xfe ext4 rw 0 0\n", b"x" * 9000, b"/dev/a\t/a\text4\trw\t0\t0\n" * 3]
    for _ in range(n_mnt // 3):
        m = rng.choice(raw_mnt)
        if rng.random() < 0.3:
            m = m + rng.choice(raw_mnt)
        cases.append({"kind": "mounts_raw", "cls": "mounts-raw" if m else "trivial", "all": rng.random() < 0.5, "root": rng.choice(["found", "missing"]),
                      "filesystems": rng.choice(raw_fs).hex(), "mounts": m.hex()})
    # ---- arguments
    for hi, lo, dup in [(0, 0, 255), (0, 1000, 1), (0, 10, 0), (65535, 65535, 255), (32767, 65535, 1), (32768, 0, 1), (1, 34464, 1), (0, 1000, 7)]:
        cases.append({"kind": "speed", "cls": "speed", "hi": hi, "lo": lo, "duplex": dup})
    cases.extend(_ifaddrs_cases(rng, {"quick": 10, "thorough": 150, "search": 20}[tier]))
    cases.extend(_seq_cases(rng, {"quick": 5, "thorough": 120, "search": 15}[tier]))
    cases.extend(_threads_cases(rng, tier))
    cases.extend(_fmt_cases(rng, tier))
    if tier != "search":
        cases.extend(_ifname_cases())
    if tier != "search":
        cases.extend(_entry_cases(rng, tier))
        cases.extend(_live_ifaces())
    else:
        ec = _entry_cases(rng, "quick")
        cases.extend(rng.sample(ec, min(len(ec), 500)))
    return cases


# ------------------------------------------------------------------ Coq terms
ROOT_FOUND = b"/dev/null"     # fake <procfs>/partitions names "null" for the device of "/": the lookup succeeds with /dev/null


def _root_term(case):
    return "(Some %s)" % G.by(ROOT_FOUND) if case.get("root") == "found" else "None"


def _hb(h):
    return G.by(bytes.fromhex(h))


def _urec_term(r):
    return "(Build_urec %s %s %s %s %s %s %s %s %s %s %s %s)" % (
        G.z(r["type"]), G.z(r["pid"]), _hb(r["line"]), _hb(r["id"]), _hb(r["user"]), _hb(r["host"]), _hb(r["exit"]),
        _hb(r["session"]), G.z(r["sec"]), _hb(r["usec"]), _hb(r["addr"]), _hb(r["unused"]))


def _pyval(v):
    if "i" in v:
        return "(PInt %s)" % G.z(v["i"])
    if "tf" in v:
        return "(PBool %s)" % G.bo(v["tf"])
    if "f" in v:
        return "PFloat"
    if "n" in v:
        return "PNone"
    if "s" in v:
        return "(PStr %s)" % G.zs(v["s"])
    if "y" in v:
        return "(PBytes %s)" % _hb(v["y"])
    if "l" in v:
        return "(PList %s)" % G.lst([_pyval(x) for x in v["l"]])
    raise ValueError(v)


def coq_term(case):
    k = case["kind"]
    if k == "utmp":
        return "run_utmp %s %s" % (G.bo(FIXED_UTMP), G.lst([_urec_term(r) for r in case["recs"]]))
    if k == "utmp_raw":
        return "run_utmp_raw %s %s" % (G.bo(FIXED_UTMP), _hb(case["file"]))
    if k == "mounts":
        fs = G.lst(["(Build_kfs %s %s)" % (G.bo(nd), G.by(nm)) for nd, nm in case["fs"]])
        es = G.lst(["(Build_ment %s %s %s %s)" % tuple(_hb(x) for x in e) for e in case["ents"]])
        return "run_mounts %s %s %s %s %s" % (G.bo(FIXED_MNT_UTF8), G.bo(case["all"]), _root_term(case), fs, es)
    if k == "mounts_raw":
        return "run_mounts_raw %s %s %s %s %s" % (G.bo(FIXED_MNT_UTF8), G.bo(case["all"]), _root_term(case), _hb(case["filesystems"]), _hb(case["mounts"]))
    if k == "entry":
        return "run_entry %s %s %s" % (G.bo(FIXED_IOPRIO), ENTRY_COQ[case["ep"]], G.lst([_pyval(a) for a in case["args"]]))
    if k == "ionice":
        return "run_ionice %s 0 %s %s" % (G.bo(FIXED_IOPRIO), G.z(case["ioclass"]), G.z(case["value"] or 0))
    if k == "fmt":
        ep = {"cext.disk_partitions": "disk_partitions", "psutil.disk_partitions": "disk_partitions"}.get(case["target"], case["target"])
        return "run_entry %s %s %s" % (G.bo(FIXED_IOPRIO), ENTRY_COQ[ep], G.lst([_pyval(_ps(case["name"]))]))
    if k == "ifname":
        return "run_ifname %s %s %s" % (G.bo(FIXED_IFNAME), _hb(case["name"]), G.zs(case["cps"]))
    if k == "threads":
        import random as _r
        r = _r.Random(case["seed"])
        n = case["nthreads"]
        sched = [r.randrange(n) for _ in range(40)]
        return "run_threads %s %s" % (G.z(n), G.lst(["%d%%nat" % i for i in sched]))
    if k == "seq":
        calls = [st for st in case["steps"] if st["op"] == "call"]
        return "run_seq %s %s" % (G.bo(FIXED_IOPRIO), G.lst(["(%s, %s)" % (ENTRY_COQ[c["ep"]], G.lst([_pyval(a) for a in c["args"]])) for c in calls]))
    if k == "ifaddrs":
        return "run_ifaddrs %s %s" % (G.bo(FIXED_IFNAME), G.lst(["(Build_ifa %s %s %s %s %s)" % (_hb(r["name"]), G.z(r["flags"]), _sa_term(r["addr"]),
                                                                     _sa_term(r["mask"]), _sa_term(r["baddr"])) for r in case["recs"]]))
    if k == "speed":
        return "run_speed %s %s %s %s" % (G.bo(FIXED_ETHTOOL), G.z(case["hi"]), G.z(case["lo"]), G.z(case["duplex"]))
    if k == "netif":
        mac = bytes.fromhex(case["mac"].replace(":", "")) if case["mac"] else b""
        eth = case["eth"] or [0, 0, 255]      # EOPNOTSUPP / EINVAL: duplex unknown, speed 0
        return "JL [run_flags %s; run_mac %s; run_speed %s %s %s %s]" % (
            G.z(case["flags"]), G.by(mac), G.bo(FIXED_ETHTOOL), G.z(eth[0]), G.z(eth[1]), G.z(eth[2]))
    raise ValueError(k)


def _oom(x):
    return isinstance(x, dict) and x.get("t") == "OutOfModel"


def coq_struct(case, raw):
    k = case["kind"]
    if k == "utmp":
        return {"printed": raw[0], "model": raw[1], "spec": raw[2]}
    if k == "utmp_raw":
        return {"model": raw[0], "spec": None}
    if k == "mounts":
        m = [raw[2], raw[3]]
        return {"printed": [raw[0], raw[1]], "parts": m, "model": None if any(_oom(x) for x in m) else m, "spec": raw[4]}
    if k == "mounts_raw":
        m = [raw[0], raw[1]]
        return {"parts": m, "model": None if any(_oom(x) for x in m) else m, "spec": None}
    if k in ("entry", "ionice"):
        if FIXED_IFNAME and k == "entry" and case["ep"] in ("net_if_mtu", "net_if_flags", "net_if_is_running", "net_if_duplex_speed") \
                and len(case["args"]) == 1 and ("y" in case["args"][0] or "s" in case["args"][0]):
            a = case["args"][0]
            try:
                bts = bytes.fromhex(a["y"]) if "y" in a else os.fsencode("".join(chr(c) for c in a["s"]))
                raw = T("Exc", T("ValueError")) if b"\0" in bts else {"t": "Os", "a": [{"t": "ioctl", "a": []}, [], {"b": bts[:15].hex()}]}
            except UnicodeError:
                raw = T("Exc", T("UnicodeError"))
        os_reached = isinstance(raw, dict) and raw.get("t") == "Os"
        return {"cres": raw, "model": None if os_reached else raw, "spec": None}
    if k == "fmt":
        return {"cres": raw, "model": None, "spec": None}
    if k == "ifname":
        nm = [{"b": case["name"]}]
        return {"model": [raw[0], raw[1], Val(nm)], "spec": [Val(nm), Val(nm), Val(nm)]}
    if k == "threads":
        return {"sim": raw, "model": None, "spec": None}
    if k == "seq":
        return {"cres": raw, "model": None, "spec": None}
    if k == "ifaddrs":
        m = raw[0]
        if _oom(m):
            model = None
        elif m.get("t") == "Val":
            model = Val(_group_rows(m["a"][0]))
        else:
            model = m
        spec = None if raw[1] is None else sorted(json.dumps(r, sort_keys=True) for r in raw[1]["a"][0])
        return {"model": model, "spec": spec}
    if k == "speed":
        ub = isinstance(raw, dict) and raw.get("t") == "UB"
        return {"model": raw, "spec": None, "ub": ub}
    if k == "netif":
        names = [x["t"] for x in raw[0]]
        if isinstance(raw[2], dict) and raw[2].get("t") == "UB":
            return {"model": raw[2], "spec": None, "ub": True}

        def row(mac):
            return [names, case["mtu"], mac, sorted(case["inet"]), case["inet6"], "running" in names, case["names"], raw[2]]
        mm = bytes.fromhex(raw[1][0]["b"]).decode() if raw[1][0] is not None else None
        sm = bytes.fromhex(raw[1][1]["b"]).decode() if case["mac"] else None
        return {"model": row(mm), "spec": row(sm), "ub": False}
    raise ValueError(k)


# ------------------------------------------------------------------ verdicts
def _is_abort(x):
    return isinstance(x, dict) and x.get("t") in ("Abort", "UB", "WorkerDied", "Timeout")


def finding_key(case, coq):
    k = case["kind"]
    if k == "utmp" and not FIXED_UTMP:
        for r in case["recs"]:
            if r["type"] == 7 and (len(r["line"]) // 2 >= W_LINE or len(r["user"]) // 2 >= W_USER or len(r["host"]) // 2 >= W_HOST):
                return "users-fullwidth-field"
    if k == "utmp_raw" and not FIXED_UTMP:
        f = bytes.fromhex(case["file"])
        for i in range(0, len(f) - 383, 384):
            r = f[i:i + 384]
            if struct.unpack_from("<h", r)[0] == 7 and (0 not in r[8:40] or 0 not in r[44:76] or 0 not in r[76:332]):
                return "users-fullwidth-field"
    if k == "ifname" and not FIXED_IFNAME and not _is_utf8(bytes.fromhex(case["name"])):
        return "ifname-not-utf8"
    if k == "ifaddrs" and not FIXED_IFNAME and any(not _is_utf8(bytes.fromhex(r["name"])) for r in case["recs"]):
        return "ifname-not-utf8"
    if k == "mounts":
        if any(_fields_len(e) > 4095 for e in case["ents"]):
            return "mounts-line-over-4095"
        if any(e[0] == "" for e in case["ents"]):
            return "mounts-empty-device"
        if any(b"#" in bytes.fromhex(e[0]) for e in case["ents"]):
            return "mounts-hash-device"
        if not FIXED_MNT_UTF8 and any(not _is_utf8(bytes.fromhex(e[2])) or not _is_utf8(bytes.fromhex(e[3])) for e in case["ents"]):
            return "mounts-nonutf8-type-opts"
    if k == "entry" and case["ep"] == "proc_ioprio_set" and len(case["args"]) == 3:
        c = case["args"][1]
        if "i" in c and not (0 <= c["i"] < 2 ** 18) and not FIXED_IOPRIO:
            return "ioprio-shift-overflow"
    if k == "ionice" and not FIXED_IOPRIO and not (0 <= case["ioclass"] < 2 ** 18):
        return "ioprio-shift-overflow"
    if k == "netif" and not FIXED_ETHTOOL and case.get("eth") and case["eth"][0] >= 2 ** 15:
        return "ethtool-speed-shift"
    if k == "speed" and not FIXED_ETHTOOL and case["hi"] >= 2 ** 15:
        return "ethtool-speed-shift"
    return None


def _step_name(st):
    return st["op"] if st["op"] != "call" else "%s(%s)" % (st["ep"], ", ".join(repr(_py(a))[:30] for a in st["args"]))


def _judge_call(ep, cres, impl):
    from pv.core import Verdict
    tag = cres["t"]
    if tag == "UB":
        # the model computes an out-of-range C integer: the property is violated on the model; the sanitizer must see it too
        if impl == cres:
            return Verdict("violation", "signed integer overflow in C (UBSan): %s" % (impl,))
        if _is_abort(impl):
            return Verdict("violation", "crash / sanitizer abort: %s" % (str(impl)[:300],))
        return Verdict("corr", "model predicts undefined behaviour, implementation answered %s" % (str(impl)[:200],))
    if _is_abort(impl):
        return Verdict("violation", "crash / sanitizer abort: %s" % (str(impl)[:400],))
    if tag == "Os":
        if impl.get("t") == "Val" or impl == Exc("OSError") or impl.get("t") == "Exc" and impl["a"][0]["t"] in (
                "NoSuchProcess", "AccessDenied", "ZombieProcess"):
            if ep in ("net_if_mtu", "net_if_flags", "net_if_is_running", "net_if_duplex_speed"):
                # the name the kernel sees is the model's 15-byte cut: "lo" must answer, an absent name must not
                seen = bytes.fromhex(cres["a"][2]["b"])
                if seen == b"lo" and impl.get("t") != "Val":
                    return Verdict("corr", "interface 'lo' exists but the call raised %s" % (impl,))
                if not os.path.exists(os.path.join(b"/sys/class/net", seen or b"\xff")) and impl.get("t") == "Val":
                    return Verdict("corr", "no interface %r but the call returned %s" % (seen, impl))
            return Verdict("ok")
        return Verdict("corr", "arguments reach the OS in the model, implementation raised %s" % (impl,))
    return Verdict("ok") if impl == cres else Verdict("corr", "impl %s != model %s" % (impl, cres))


def judge(case, coq, impl):
    from pv.core import Verdict
    k = case["kind"]
    if isinstance(impl, dict) and impl.get("t") == "Skip":
        return Verdict("skip", str(impl.get("a")))
    if k in ("entry", "ionice"):
        return _judge_call(case.get("ep"), coq["cres"], impl)
    if k == "fmt":
        nm = case["name"].encode()
        nic = case["target"] in FMT_NIC_EPS
        cres = coq["cres"]
        want = nm[:15] if nic else nm
        if not (isinstance(cres, dict) and cres.get("t") == "Os" and cres["a"][-1] == {"b": want.hex()}):
            return Verdict("corr", "model: the string %r does not reach the OS call byte for byte (%s)" % (case["name"], str(cres)[:200]))
        if not isinstance(impl, dict) or "on" not in impl:
            return Verdict("violation", "crash / sanitizer abort: %s" % (str(impl)[:400],))
        what = "%s(%r) where the %s (failure branch)" % (case["target"], case["name"], "interface does not exist" if nic else
                                                          "file is missing" if case["how"] == "missing" else "path runs through a regular file")
        for mode in ("off", "on"):
            r = impl[mode]
            if r["rc"] != 0 or r["out"] is None:
                return Verdict("violation", "%s with PSUTIL_DEBUG %s: the interpreter died / sanitizer report (exit status %s) instead of raising: %s" % (
                    what, "unset" if mode == "off" else "=1", r["rc"], r["san"] or " | ".join(r["err"][-4:])))
        off, on = impl["off"]["out"], impl["on"]["out"]
        if not nic:
            exp = ["oserror", 2 if case["how"] == "missing" else 20, impl["path"], "FileNotFoundError" if case["how"] == "missing" else "NotADirectoryError"]
            if off != exp:
                return Verdict("violation", "%s: demanded a clean OSError errno/filename %s, got %s" % (what, exp, off))
        elif off[0] != "oserror" or off[2] is not None:
            return Verdict("violation", "%s: demanded OSError from the ioctl, got %s" % (what, off))
        if on != off:
            return Verdict("violation", "%s: with PSUTIL_DEBUG=1 the outcome is %s, without it %s" % (what, on, off))
        full = bytes.fromhex(impl["s"]).decode("latin-1")
        lit = [full, full[:15]] if nic else [full]
        for mode in ("off", "on"):
            for ln in impl[mode]["err"]:
                if FMT_MARK in ln and not any(x in ln for x in lit):
                    return Verdict("violation", "%s with PSUTIL_DEBUG %s: the diagnostic on stderr does not show the string literally (it was "
                                   "interpreted as a format?): %r" % (what, "unset" if mode == "off" else "=1", ln))
        return Verdict("ok")
    if k == "threads":
        if coq["sim"] != [True, False]:
            return Verdict("corr", "interleaving model: GIL variant consistent / no-GIL variant consistent = %s (expected [True, False])" % (coq["sim"],))
        if _is_abort(impl) or not isinstance(impl, dict) or "bad" not in impl:
            return Verdict("violation", "crash / sanitizer abort with threads inside the extension: %s" % (str(impl)[:400],))
        if impl["bad"]:
            return Verdict("violation", "with %d threads overlapping inside the extension %d of %d calls did not return the single-threaded answer "
                           "for their own input; first: %s" % (case["nthreads"], len(impl["bad"]), impl["calls"], impl["bad"][0]))
        return Verdict("ok")
    if k == "seq":
        if _is_abort(impl) or not isinstance(impl, dict) or "seq" not in impl:
            return Verdict("violation", "crash / sanitizer abort in a sequence of calls: %s" % (str(impl)[:400],))
        seq, fresh = impl["seq"], impl["fresh"]
        for i, (st, a, b) in enumerate(zip(case["steps"], seq, fresh)):
            if _is_abort(a):
                return Verdict("violation", "step %d (%s): crash / sanitizer abort: %s" % (i, _step_name(st), str(a)[:300]))
            if a != b:
                fds = [x for st2, x in zip(case["steps"], seq) if st2["op"] == "fdcheck"]
                return Verdict("violation", "step %d (%s) answers %s after the earlier calls of the same process, %s in a fresh process%s"
                               % (i, _step_name(st), str(a)[:160], str(b)[:160],
                                  "; application descriptors at the end: %s" % fds[-1] if fds else ""))
        calls = [(st, a) for st, a in zip(case["steps"], seq) if st["op"] == "call"]
        for (st, a), cres in zip(calls, coq["cres"]):
            v = _judge_call(st["ep"], cres, a)
            if v.kind != "ok":
                return v
        return Verdict("ok")
    if k in ("netif", "speed") and coq.get("ub"):
        if impl == coq["model"]:
            return Verdict("violation", "signed integer overflow in C (UBSan): speed_hi << 16 in psutil_ethtool_cmd_speed")
        if _is_abort(impl):
            return Verdict("violation", "crash / sanitizer abort: %s" % (str(impl)[:400],))
        return Verdict("corr", "model predicts undefined behaviour, implementation answered %s" % (str(impl)[:200],))
    if k in ("utmp", "utmp_raw") and coq["model"] == T("OOB"):
        # the model reads past the end of the record: an out-of-bounds read whatever the sanitizer shows
        if impl == T("OOB"):
            return Verdict("violation", "out-of-bounds read in psutil_users (AddressSanitizer: heap-buffer-overflow in strlen)")
        if _is_abort(impl):
            return Verdict("violation", "crash / sanitizer abort: %s" % (str(impl)[:400],))
        return Verdict("corr", "model predicts a read past the utmp record, implementation answered %s" % (str(impl)[:200],))
    parts = impl if isinstance(impl, list) else [impl]
    if any(_is_abort(p) or p == T("OOB") for p in parts):
        return Verdict("violation", "crash / sanitizer abort: %s" % (str(impl)[:400],))
    if k == "ifaddrs":
        if coq["spec"] is not None:
            got = None
            if isinstance(impl, dict) and impl.get("t") == "Val":
                got = sorted(json.dumps([{"b": name}] + row, sort_keys=True) for name, rows in impl["a"][0] for row in rows)
            if got != coq["spec"]:
                return Verdict("violation", "net_if_addrs() over the fed interface list != spec (rows compared as a multiset)")
        if coq["model"] is not None and impl != coq["model"]:
            return Verdict("corr", "impl != model")
        return Verdict("ok")
    if k == "ifname":
        if _is_abort(impl):
            return Verdict("violation", "crash / sanitizer abort: %s" % (str(impl)[:400],))
        if impl != coq["spec"]:
            return Verdict("violation", "interface %r of a private network namespace: net_if_addrs / net_if_stats / net_io_counters name it %s, "
                           "demanded %s" % (bytes.fromhex(case["name"]), str(impl)[:300], str(coq["spec"])[:120]))
        return Verdict("ok") if impl == coq["model"] else Verdict("corr", "impl != model")
    if k in ("utmp", "utmp_raw", "netif", "speed"):
        if coq["spec"] is not None and impl != coq["spec"]:
            return Verdict("violation", "impl != spec")
        if coq["model"] is not None and impl != coq["model"]:
            return Verdict("corr", "impl != model")
        return Verdict("ok")
    if k in ("mounts", "mounts_raw"):
        if coq["spec"] is not None and impl[1] != coq["spec"]:
            return Verdict("violation", "disk_partitions() != spec")
        for name, m, i in zip(("cext.disk_partitions", "psutil.disk_partitions"), coq["parts"], impl):
            if not _oom(m) and m != i:
                return Verdict("corr", "%s: impl != model" % name)
        return Verdict("ok")
    raise ValueError(k)


# ------------------------------------------------------------------ implementation side
def _abort_value(st, err):
    if "runtime error: left shift" in err and ("proc.c" in err or "net.c" in err):
        return T("UB", T("shift"))
    if "AddressSanitizer: heap-buffer-overflow" in err and "READ of size" in err and "psutil_users" in err:
        return T("OOB")     # out-of-bounds read in psutil_users (strlen of an unterminated utmp field)
    keep = [ln for ln in err.splitlines() if "runtime error" in ln or "ERROR: AddressSanitizer" in ln or "SUMMARY" in ln]
    return T("Abort", "wait status %d: %s" % (st, " | ".join(keep)[:600] or err[-400:]))


def _iso(fn):
    from props._c17_iso import isolated
    r = isolated(fn)
    if r[0] == "ok":
        return r[1]
    return _abort_value(r[1], r[2])


def _outcome(fn, conv):
    try:
        v = fn()
    except BaseException as e:  # noqa
        if isinstance(e, (KeyboardInterrupt, SystemExit)):
            raise
        return Exc(exc_name(e))
    return Val(conv(v))


def _py(v):
    if "i" in v:
        return v["i"]
    if "tf" in v:
        return v["tf"]
    if "f" in v:
        return v["f"]
    if "n" in v:
        return None
    if "s" in v:
        return "".join(chr(c) for c in v["s"])
    if "y" in v:
        return bytes.fromhex(v["y"])
    if "l" in v:
        return [_py(x) for x in v["l"]]
    raise ValueError(v)


def _users_rows(rows):
    out = []
    for r in rows:
        assert float(r.started).is_integer(), r
        out.append([B(os.fsencode(r.name)), None if r.terminal is None else B(os.fsencode(r.terminal)), B(os.fsencode(r.host)),
                    int(r.started), r.pid])
    return out


def impl_run(case, coq, env):
    import psutil
    from psutil import _psplatform
    cext, cext_posix = _psplatform.cext, _psplatform.cext_posix
    k = case["kind"]
    work = env["work"]
    if k in ("utmp", "utmp_raw"):
        import ctypes
        content = bytes.fromhex(coq["printed"]["b"]) if k == "utmp" else bytes.fromhex(case["file"])
        path = os.path.join(work, "utmp")
        with open(path, "wb") as f:
            f.write(content)

        def call():
            libc = ctypes.CDLL(None)
            assert libc.utmpname(path.encode()) == 0
            return _outcome(psutil.users, _users_rows)
        return _iso(call)
    if k in ("mounts", "mounts_raw"):
        root = os.path.join(work, "proc")
        os.makedirs(os.path.join(root, "self"), exist_ok=True)
        fsb = bytes.fromhex(coq["printed"][0]["b"]) if k == "mounts" else bytes.fromhex(case["filesystems"])
        mb = bytes.fromhex(coq["printed"][1]["b"]) if k == "mounts" else bytes.fromhex(case["mounts"])
        with open(os.path.join(root, "filesystems"), "wb") as f:
            f.write(fsb)
        mpath = os.path.join(root, "self", "mounts")
        with open(mpath, "wb") as f:
            f.write(mb)
        dev = os.stat("/").st_dev
        mj, mn = os.major(dev), os.minor(dev)
        with open(os.path.join(root, "partitions"), "w") as f:
            # RootFsDeviceFinder.ask_proc_partitions(): two header lines, then "major minor #blocks name"; the lookup
            # succeeds iff the named node exists under /dev.  Decoy lines carry other numbers.
            f.write("major minor  #blocks  name\n\n")
            f.write("%4d %7d %10d zero\n" % (mj + 1, mn, 1024))
            f.write("%4d %7d %10d %s\n" % (mj, mn, 4096, "null" if case.get("root") == "found" else "c17-no-such-node"))
            f.write("%4d %7d %10d full\n" % (mj, mn + 1, 2048))

        def call():
            psutil.PROCFS_PATH = root
            a = _outcome(lambda: cext.disk_partitions(mpath), lambda rows: [[B(os.fsencode(x)) for x in r] for r in rows])
            b = _outcome(lambda: psutil.disk_partitions(all=case["all"]),
                         lambda rows: [[B(os.fsencode(r.device)), B(os.fsencode(r.mountpoint)), B(os.fsencode(r.fstype)), B(os.fsencode(r.opts))] for r in rows])
            return [a, b]
        return _iso(call)
    if k == "entry":
        mod = cext_posix if case["ep"] in POSIX_EPS else cext
        fn = getattr(mod, case["ep"])
        args = [_py(a) for a in case["args"]]
        return _iso(lambda: _outcome(lambda: fn(*args), lambda v: None if v is None else T("Some", repr(v)[:80])))
    if k == "ionice":
        def call():
            p = psutil.Process()
            return _outcome(lambda: p.ionice(case["ioclass"], case["value"]), lambda v: None if v is None else T("Some", repr(v)[:80]))
        return _iso(call)
    if k == "ifname":
        import fcntl
        import socket
        new = bytes.fromhex(case["name"])

        def call():
            try:
                os.unshare(0x40000000)                        # CLONE_NEWNET: this forked child only
            except (OSError, AttributeError) as e:
                return T("Skip", "private network namespace unavailable: %s" % e)
            s = socket.socket(socket.AF_INET, socket.SOCK_DGRAM)
            try:
                if new != b"lo":
                    fcntl.ioctl(s, 0x8923, struct.pack("16s16s8x", b"lo", new))                         # SIOCSIFNAME
                fl = struct.unpack_from("H", fcntl.ioctl(s, 0x8913, struct.pack("16sH22x", new, 0)), 16)[0]
                fcntl.ioctl(s, 0x8914, struct.pack("16sH22x", new, fl | 1))                            # up
            except OSError as e:
                return T("Skip", "cannot rename the loopback of the private namespace: %s" % e)
            finally:
                s.close()

            def keys(d):
                return sorted(B(os.fsencode(x)) for x in d)
            a = _outcome(psutil.net_if_addrs, keys)
            st = _outcome(psutil.net_if_stats, keys)
            io = _outcome(lambda: psutil.net_io_counters(pernic=True), keys)
            if st.get("t") == "Val":
                v = psutil.net_if_stats().get(os.fsdecode(new))
                if v is not None and not (v.mtu == 65536 and v.isup and "loopback" in v.flags.split(",")):
                    st = T("BadStats", repr(v))
            return [a, st, io]
        return _iso(call)
    if k == "threads":
        import ctypes
        import random as _r
        import sys
        import threading
        import time
        r = _r.Random(case["seed"])
        n = case["nthreads"]
        tdir = os.path.join(work, "thr")
        os.makedirs(os.path.join(tdir, "proc", "self"), exist_ok=True)
        # mounts files: threads 0 and 1 share one file, the others have their own; entries differ in every field
        files = []
        for t in range(n):
            if t == 1:
                files.append(files[0])
                continue
            path = os.path.join(tdir, "mounts%d" % t)
            with open(path, "wb") as f:
                for i in range(case["entries"] + 17 * t):
                    f.write(b"/dev/t%dd%d /mnt/t%d/%d fs%dx%d rw,thread=%d,entry=%d,%s 0 0\n" % (t, i, t, i, t, i % 7, t, i, b"o" * (i % 40)))
            files.append(path)
        with open(os.path.join(tdir, "proc", "filesystems"), "wb") as f:
            f.write(b"\text4\nnodev\tproc\n")
        os.replace(files[0], os.path.join(tdir, "proc", "self", "mounts"))
        files[0] = files[1] = os.path.join(tdir, "proc", "self", "mounts")
        rec = struct.pack("<hxxi32s4s32s256s4s4si4s16s20s", 7, 4242, b"pts/3", b"ts/3", b"alice", b"example.org", b"", b"", 1700000000, b"", b"", b"")
        utmp = os.path.join(tdir, "utmp")
        with open(utmp, "wb") as f:
            f.write(rec * 50)
        live = [c["name"] for c in _live_ifaces()] or ["lo"]

        def call():
            psutil.PROCFS_PATH = os.path.join(tdir, "proc")      # only disk_partitions() reads through it here
            assert ctypes.CDLL(None).utmpname(utmp.encode()) == 0
            jobs = {}          # name -> function of the thread number
            for t in range(n):
                jobs["cext.disk_partitions(file %d)" % t] = (lambda t=t: repr(cext.disk_partitions(files[t])))
            jobs["psutil.disk_partitions(all=True)"] = lambda: repr(psutil.disk_partitions(all=True))
            jobs["psutil.users()"] = lambda: repr(psutil.users())
            for nm in live[:2]:
                jobs["net_if_mtu(%s)" % nm] = lambda nm=nm: repr(cext_posix.net_if_mtu(nm))
                jobs["net_if_flags(%s)" % nm] = lambda nm=nm: repr(cext_posix.net_if_flags(nm))
            jobs["net_if_mtu(ghost0)"] = lambda: _outcome(lambda: cext_posix.net_if_mtu("ghost0"), repr)

            expected = {k: fn() for k, fn in jobs.items()}       # single-threaded answers, before any thread exists
            names = sorted(jobs)
            plan = []                                             # per thread: its own file mostly, plus the shared jobs
            for t in range(n):
                mine = ["cext.disk_partitions(file %d)" % t] * 6 + ["psutil.disk_partitions(all=True)"] * 2 + [x for x in names if not x.startswith("cext.")]
                plan.append(mine)
            bad, count = [], [0]
            lock = threading.Lock()
            deadline = time.monotonic() + case["budget"]
            start = threading.Barrier(n)

            def worker(t):
                rr = _r.Random(case["seed"] * 31 + t)
                start.wait()
                it = 0
                while time.monotonic() < deadline and it < 400:
                    it += 1
                    name = rr.choice(plan[t])
                    try:
                        got = jobs[name]()
                    except BaseException as e:  # noqa
                        got = "raised %s: %s" % (type(e).__name__, str(e)[:80])
                    with lock:
                        count[0] += 1
                        if got != expected[name] and len(bad) < 20:
                            exp = expected[name]
                            i = next((j for j in range(min(len(got), len(exp))) if got[j] != exp[j]), min(len(got), len(exp)))
                            bad.append("thread %d, call %d, %s: answer differs from the single-threaded one at character %d: got ...%s... expected ...%s..."
                                       % (t, it, name, i, got[max(0, i - 60):i + 80], exp[max(0, i - 60):i + 80]))
            old = sys.getswitchinterval()
            sys.setswitchinterval(1e-5)
            try:
                ths = [threading.Thread(target=worker, args=(t,)) for t in range(n)]
                for th in ths:
                    th.start()
                for th in ths:
                    th.join()
            finally:
                sys.setswitchinterval(old)
            return {"calls": count[0], "bad": bad}
        return _iso(call)
    if k == "seq":
        import ctypes

        def some(v):
            return None if v is None else T("Some", repr(v)[:300])

        def step(st, state):
            op = st["op"]
            if op == "call":
                fn = getattr(cext_posix if st["ep"] in POSIX_EPS else cext, st["ep"])
                args = [_py(a) for a in st["args"]]
                return _outcome(lambda: fn(*args), some)
            if op == "stats":
                return _outcome(psutil.net_if_stats, lambda d: sorted([n, bool(v.isup), int(v.duplex), v.speed, v.mtu, v.flags] for n, v in d.items()))
            if op == "addrs":
                return _outcome(psutil.net_if_addrs, lambda d: sorted([n, [[int(r.family), r.address, r.netmask, r.broadcast, r.ptp] for r in v]]
                                                                        for n, v in d.items()))
            if op == "users":
                content = b"".join(struct.pack("<hxxi32s4s32s256s4s4si4s16s20s", r["type"], r["pid"], *[bytes.fromhex(r[f]) for f in ("line", "id", "user", "host", "exit", "session")],
                                               r["sec"], *[bytes.fromhex(r[f]) for f in ("usec", "addr", "unused")]) for r in st["recs"])
                path = os.path.join(work, "seq_utmp")
                with open(path, "wb") as f:
                    f.write(content)
                assert ctypes.CDLL(None).utmpname(path.encode()) == 0
                return _outcome(psutil.users, _users_rows)
            if op == "parts":
                root = os.path.join(work, "seq_proc")
                os.makedirs(os.path.join(root, "self"), exist_ok=True)
                with open(os.path.join(root, "filesystems"), "wb") as f:
                    f.write(bytes.fromhex(st["filesystems"]))
                with open(os.path.join(root, "self", "mounts"), "wb") as f:
                    f.write(bytes.fromhex(st["mounts"]))
                old = psutil.PROCFS_PATH
                psutil.PROCFS_PATH = root
                try:
                    return _outcome(lambda: psutil.disk_partitions(all=st["all"]),
                                    lambda rows: [[B(os.fsencode(x)) for x in (r.device, r.mountpoint, r.fstype, r.opts)] for r in rows])
                finally:
                    psutil.PROCFS_PATH = old
            if op == "open":          # a descriptor owned by the harness (the "application")
                n = len(state["fds"])
                path = os.path.join(work, "seq_app_%d" % n)
                marker = ("application data %d" % n).encode()
                fd = os.open(path, os.O_RDWR | os.O_CREAT | os.O_TRUNC, 0o600)
                os.write(fd, marker)
                state["fds"].append((fd, os.fstat(fd).st_ino, marker))
                return "opened"
            if op == "fdcheck":
                for fd, ino, marker in state["fds"]:
                    try:
                        if os.fstat(fd).st_ino != ino or os.pread(fd, len(marker), 0) != marker:
                            return "descriptor %d of the application now refers to something else" % fd
                    except OSError as e:
                        return "descriptor %d of the application is gone: %s" % (fd, e.strerror)
                return "fds-ok"
            raise ValueError(op)

        def whole():
            state = {"fds": []}
            return [step(st, state) for st in case["steps"]]
        seq = _iso(whole)
        if not isinstance(seq, list):
            return seq           # abort of the whole sequence
        fresh = []
        for st in case["steps"]:
            if st["op"] == "open":
                fresh.append("opened")
            elif st["op"] == "fdcheck":
                fresh.append("fds-ok")
            else:
                fresh.append(_iso(lambda st=st: step(st, {"fds": []})))
        return {"seq": seq, "fresh": fresh}
    if k == "fmt":
        nm = case["name"]
        if case["target"] in FMT_NIC_EPS:
            sarg, path = nm, None
        else:
            base = os.path.join(work, "fmt")
            os.makedirs(base, exist_ok=True)
            if case["how"] == "notdir":
                with open(os.path.join(base, nm), "w") as f:
                    f.write("x")
                sarg = os.path.join(base, nm, "mounts")
            else:
                sarg = os.path.join(base, nm)
                assert not os.path.lexists(sarg)
            path = os.fsencode(sarg + "/self/mounts" if case["target"] == "psutil.disk_partitions" else sarg).hex()
        spec = {"target": case["target"], "s": sarg}
        try:
            return {"s": os.fsencode(sarg).hex(), "path": path, "off": _fmt_child(spec, False), "on": _fmt_child(spec, True)}
        finally:
            if path is not None and case["how"] == "notdir":
                os.unlink(os.path.join(base, nm))
    if k == "ifaddrs":
        from props import _c17_ifshim as S
        so = S.build(work)
        if so is None:
            return T("Skip", "no C compiler: fed interface list unavailable, net_if_addrs() compared live-only")
        r = S.run(so, work, case["recs"])
        if r[0] != "ok":
            return _abort_value(r[1], r[2])
        if r[1][0] == "exc":
            return Exc(r[1][1])

        def b(x):
            return None if x is None else {"b": x}
        return Val([[name, [[row[0], b(row[1]), b(row[2]), b(row[3]), b(row[4])] for row in rows]] for name, rows in r[1][1]])
    if k == "speed":
        live = [c for c in _live_ifaces() if c["eth"] == [case["hi"], case["lo"], case["duplex"]]]
        if not live:
            return T("Skip", "no live interface with this ethtool answer")
        n = live[0]["name"]

        def call():
            d, sp = cext.net_if_duplex_speed(n)
            return [_outcome(lambda: {cext.DUPLEX_FULL: 2, cext.DUPLEX_HALF: 1, cext.DUPLEX_UNKNOWN: 0}[d], int), sp]
        return _iso(call)
    if k == "netif":
        import ipaddress
        import socket
        n = case["name"]
        now = [c for c in _live_ifaces() if c["name"] == n]
        if not now or any(now[0][f] != case[f] for f in ("flags", "mtu", "mac", "eth", "inet", "inet6", "names")):
            return T("Skip", "stale live-interface case (the interface list changed since the case was recorded)")

        def call():
            addrs = psutil.net_if_addrs()
            mine = addrs.get(n, [])
            mac = [a.address for a in mine if a.family == psutil.AF_LINK]
            inet = sorted([a.address, a.netmask] for a in mine if a.family == socket.AF_INET)
            inet6 = sorted(str(ipaddress.IPv6Address(a.address.split("%")[0])) for a in mine if a.family == socket.AF_INET6)
            flags = cext_posix.net_if_flags(n)
            mtu = cext_posix.net_if_mtu(n)
            assert cext_posix.net_if_is_running(n) == ("running" in flags)
            # the public call covers every interface: it is only made when no interface triggers the ethtool finding
            if not any(c.get("eth") and c["eth"][0] >= 2 ** 15 for c in [case] + case.get("others", [])) or FIXED_ETHTOOL:
                stats = psutil.net_if_stats()
                st = stats[n]
                assert st.flags == ",".join(flags) and st.mtu == mtu and st.isup == ("running" in flags), (st, flags, mtu)
                assert sorted(addrs) == sorted(stats), (sorted(addrs), sorted(stats))
                ds = [Val(int(st.duplex)), st.speed]
            else:
                d, sp = cext.net_if_duplex_speed(n)      # aborts under UBSan when speed_hi >= 0x8000
                ds = [Val({cext.DUPLEX_FULL: 2, cext.DUPLEX_HALF: 1, cext.DUPLEX_UNKNOWN: 0}[d]), sp]
            want = sorted(case["inet"])   # the primary IPv4 address read through SIOCGIFADDR must be among those reported
            got = [x for x in inet if x in want] if want else []
            return [flags, mtu, mac[0] if len(mac) == 1 else (None if not mac else mac), got, inet6, "running" in flags, sorted(addrs), ds]
        return _iso(call)
    raise ValueError(k)


MANIFEST = {
    "text": "Theorems (Coq, closed under the global context) about the model of the extension's decoding logic and index/integer arithmetic, "
            "as the code is after the repairs e85352e/a87b45e/301715a/0d52d5b: users() returns for every file of well-formed login records "
            "exactly user/terminal/host(:0 -> localhost)/time/pid of the USER_PROCESS records, strings cut at the field width, and never reads "
            "outside a record; PSUTIL_STRNCPY and the MAC formatter write only inside their buffers and terminate them, for every source string; "
            "the copied interface name is the first 15 bytes of the argument and the MAC text is the lower-case hex pairs joined by ':' "
            "(padded with :00 to six bytes by net_if_addrs), for every input and every previous buffer content; "
            "net_if_addrs() over any interface list gives one row per node with an address of a known family, the hardware address with all "
            "its sll_halen bytes, netmask and broadcast-or-peer by the flags, the Python layer only reordering and padding; "
            "thread safety: under an interleaving model of getmntent()'s static storage every thread's result is the sequential decode of its own "
            "file for every schedule as long as read+decode of an entry is atomic (GIL held), refuted for the variant that drops the GIL in "
            "between; tables generated from the C sources on every run show that no GIL-free region calls a function returning static "
            "storage, that the extension has no modifiable statics beyond the module tables and the debug flag, and that the FORMAT argument of every "
            "printf-family call and of every printf-like macro (psutil_debug) is a string literal -- no caller-controlled string is ever a format "
            "(C17_format_arguments_literal; tied by child-interpreter probes with %-conversions in paths / interface names on the failure branches, debug mode on); "
            "CPU_SET on any long touches bit < 1024 or nothing; the getaffinity sizing loop terminates without int overflow for every kernel "
            "answer; check_pid_range and the argument conversion of all 17 entry points yield a value, a call into the OS or "
            "TypeError/OverflowError/ValueError/UnicodeError for every argument tuple -- no undefined behaviour; ionice() rejects an ioclass "
            "outside 0..3 and hands class*2^13+data to the kernel; the ethtool speed is defined for every answer; mount-table decoding "
            "round-trips the kernel's escapes for every entry; for every printed /proc/filesystems and every mounts table "
            "disk_partitions() keeps exactly the entries with a device and a disk-backed type (all=True: every entry, whatever bytes it "
            "contains), '/dev/root' and 'rootfs' shown as the looked-up root device or as they are when the lookup fails, each row a function "
            "of its own entry and the lookup result only (independent of the other entries and of their order), for lines up to 4095 bytes; above that exactly the first 4095 bytes are parsed (boundary theorems; known finding), "
            "a '#' in the device name comes back as \\043 and an empty device name shifts the fields (known findings, refuted theorems); "
            "an interface name that is not UTF-8 makes net_if_addrs()/net_if_stats() raise (known finding with a proposed repair, proved "
            "total for the repaired variant). The repaired defects are kept as refuted theorems about the legacy variants "
            "of the model (full-width utmp fields read across field borders and past the record; signed 'ioclass << 13' and 'speed_hi << 16'; "
            "strict UTF-8 on mount type/options). The compiled code is tied to the model by running the real extension built with clang "
            "ASan+UBSan on generated utmp files, mount tables, interface lists fed through a getifaddrs() shim compiled at check time, and an argument sweep over all entry "
            "points, each call in a forked child, plus sequences of calls inside one process that must answer as in a fresh process and leave "
            "the application's descriptors alone; a sanitizer report is a failing input.",
    "note": "Partial by nature: memory safety of the compiled C is observed (sanitizers) on the generated runs, not proved; Trusted: Coq kernel + "
            "vm_compute; hand-written model coq/C17/Model.v; record formats in coq/C17/Spec.v; glibc; the sanitizer runtime; the harness.",
}
