"""C03 round 2: fail-closed translator of the exception-translation layer of psutil/_pslinux.py
(wrap_exceptions.wrapper, Process._is_zombie, Process._raise_if_zombie, Process._raise_if_not_alive) into terms of
coq/C03/PyGen.v (pstmt / pblock / phandlers).  Any statement or expression shape that is not listed here raises
TranslateError (pv/core.py: the tie is broken -> search for a failing input -> no-failing-input-found)."""
import ast
import os


class TranslateError(RuntimeError):
    pass


def _bad(where, node):
    raise TranslateError("%s: not understood: %s" % (where, (ast.dump(node) if isinstance(node, ast.AST) else repr(node))[:300]))


def _gs(s):
    if not all(32 <= ord(c) < 127 and c != '"' for c in s):
        raise TranslateError("string literal not plain ASCII: %r" % s)
    return '"%s"%%string' % s


def _is_self_attr(node, attr):
    return isinstance(node, ast.Attribute) and isinstance(node.value, ast.Name) and node.value.id == "self" \
        and node.attr == attr and isinstance(node.ctx, ast.Load)


class _Fn:
    """translation of one function body; [alias] = local names bound to self.pid / self._name"""

    def __init__(self, where):
        self.where = where
        self.alias = {}

    # ---- expressions
    def is_pid(self, node):
        return _is_self_attr(node, "pid") or (isinstance(node, ast.Name) and self.alias.get(node.id) == "pid")

    def is_name(self, node):
        return _is_self_attr(node, "_name") or (isinstance(node, ast.Name) and self.alias.get(node.id) == "_name")

    def proc_file(self, node):
        """f"{self._procfs_path}/{<pid>}[/<file>]" -> '<file>' ('' = the directory)"""
        if not isinstance(node, ast.JoinedStr) or len(node.values) not in (3, 4):
            _bad(self.where + " path", node)
        v = node.values
        ok = isinstance(v[0], ast.FormattedValue) and _is_self_attr(v[0].value, "_procfs_path") and v[0].conversion == -1 \
            and v[0].format_spec is None \
            and isinstance(v[1], ast.Constant) and v[1].value == "/" \
            and isinstance(v[2], ast.FormattedValue) and self.is_pid(v[2].value) and v[2].conversion == -1 \
            and v[2].format_spec is None
        if not ok:
            _bad(self.where + " path", node)
        if len(v) == 3:
            return ""
        if not (isinstance(v[3], ast.Constant) and isinstance(v[3].value, str) and v[3].value.startswith("/")
                and "/" not in v[3].value[1:] and len(v[3].value) > 1):
            _bad(self.where + " path", node)
        return v[3].value[1:]

    def self_call(self, node):
        """self.<m>() with no arguments -> m"""
        if isinstance(node, ast.Call) and not node.args and not node.keywords and isinstance(node.func, ast.Attribute) \
                and isinstance(node.func.value, ast.Name) and node.func.value.id == "self":
            return node.func.attr
        return None

    def mod_call(self, node, mod, fn):
        """<mod>.<fn>(<one positional argument>) -> the argument"""
        if not (isinstance(node, ast.Call) and len(node.args) == 1 and not node.keywords):
            return None
        f = node.func
        names = []
        while isinstance(f, ast.Attribute):
            names.append(f.attr)
            f = f.value
        if not isinstance(f, ast.Name):
            return None
        names.append(f.id)
        return node.args[0] if ".".join(reversed(names)) == (mod + "." + fn if mod else fn) else None

    def cond(self, node):
        if isinstance(node, ast.UnaryOp) and isinstance(node.op, ast.Not):
            a = self.mod_call(node.operand, "os.path", "exists")
            if a is not None:
                return "(CNotPathExists %s)" % _gs(self.proc_file(a))
        m = self.self_call(node)
        if m is not None:
            return "(CSelfCall %s)" % _gs(m)
        if ast.dump(node) == ast.dump(ast.parse("fallback is not UNSET").body[0].value):
            return "CFallbackGiven"
        _bad(self.where + " condition", node)

    def classes(self, node):
        if isinstance(node, ast.Name):
            return [node.id]
        if isinstance(node, ast.Tuple) and node.elts and all(isinstance(e, ast.Name) for e in node.elts):
            return [e.id for e in node.elts]
        _bad(self.where + " except clause", node)

    # ---- statements
    def stmt(self, st):
        w = self.where
        if isinstance(st, ast.Return):
            v = st.value
            if isinstance(v, ast.Constant) and isinstance(v.value, bool):
                return "(PReturnB (BConst %s))" % ("true" if v.value else "false")
            # return fun(self, *args, **kwargs)
            if isinstance(v, ast.Call) and isinstance(v.func, ast.Name) and v.func.id == "fun" and len(v.args) == 2 \
                    and isinstance(v.args[0], ast.Name) and v.args[0].id == "self" \
                    and isinstance(v.args[1], ast.Starred) and isinstance(v.args[1].value, ast.Name) \
                    and v.args[1].value.id == "args" and len(v.keywords) == 1 and v.keywords[0].arg is None \
                    and isinstance(v.keywords[0].value, ast.Name) and v.keywords[0].value.id == "kwargs":
                return "PReturnFun"
            if v is not None and ast.dump(v) == ast.dump(ast.parse("readlink(path)").body[0].value):
                return "PReturnReadlink"
            if isinstance(v, ast.Name) and v.id == "fallback":
                return "PReturnFallback"
            # return self._readlink(f"{self._procfs_path}/{self.pid}/<file>"[, fallback=<constant>])
            if isinstance(v, ast.Call) and _is_self_attr(v.func, "_readlink") and len(v.args) == 1 \
                    and (not v.keywords or (len(v.keywords) == 1 and v.keywords[0].arg == "fallback"
                                            and isinstance(v.keywords[0].value, ast.Constant)
                                            and isinstance(v.keywords[0].value.value, str))):
                return "(PReturnSelfReadlink %s %s)" % (_gs(self.proc_file(v.args[0])), "true" if v.keywords else "false")
            _bad(w + " return", st)
        if isinstance(st, ast.Raise):
            if st.exc is None and st.cause is None:
                return "PReraise"
            e = st.exc
            # raise Cls(pid, name[, self._ppid]) [from <the handled exception>]
            if isinstance(e, ast.Call) and isinstance(e.func, ast.Name) and not e.keywords and len(e.args) in (2, 3) \
                    and self.is_pid(e.args[0]) and self.is_name(e.args[1]) \
                    and (len(e.args) == 2 or _is_self_attr(e.args[2], "_ppid")) \
                    and (st.cause is None or isinstance(st.cause, ast.Name)):
                return "(PRaisePs %s)" % _gs(e.func.id)
            _bad(w + " raise", st)
        if isinstance(st, ast.Expr):
            m = self.self_call(st.value)
            if m is not None:
                return "(PSelfCall %s)" % _gs(m)
            a = self.mod_call(st.value, "os", "stat")
            if a is not None:
                return "(POsStat %s)" % _gs(self.proc_file(a))
            a = self.mod_call(st.value, "os", "lstat")
            if a is not None:
                return "(POsLstat %s)" % _gs(self.proc_file(a))
            _bad(w + " expression statement", st)
        if isinstance(st, ast.If):
            if st.orelse:
                _bad(w + " if with else", st)
            return "(PIf %s %s)" % (self.cond(st.test), self.block(st.body))
        if isinstance(st, ast.Try):
            if st.finalbody:
                _bad(w + " try/finally", st)
            hs = "HNil"
            for h in reversed(st.handlers):
                if h.type is None:
                    _bad(w + " bare except", h)
                hs = "(HCons [%s] %s %s)" % ("; ".join(_gs(c) for c in self.classes(h.type)), self.block(h.body), hs)
            return "(PTry %s %s %s)" % (self.block(st.body), hs, self.block(st.orelse))
        if isinstance(st, ast.Assign) and len(st.targets) == 1 and isinstance(st.targets[0], ast.Name) \
                and st.targets[0].id == "data":
            a = self.mod_call(st.value, "", "bcat")
            if a is not None:
                return "(PAssignBcat %s)" % _gs(self.proc_file(a))
        _bad(w + " statement", st)

    _STATUS_IS_Z = ast.dump(ast.parse(
        "rpar = data.rfind(b')')\nstatus = data[rpar + 2 : rpar + 3]\nreturn status == b'Z'\n"))

    def block(self, stmts):
        stmts = list(stmts)
        # the tail "rpar = data.rfind(b')'); status = data[rpar + 2 : rpar + 3]; return status == b'Z'"
        tail = None
        if len(stmts) >= 3 and ast.dump(ast.Module(body=stmts[-3:], type_ignores=[])) == self._STATUS_IS_Z:
            stmts, tail = stmts[:-3], "(PReturnB BStatusIsZ)"
        out = [self.stmt(s) for s in stmts if not isinstance(s, ast.Pass)] + ([tail] if tail else [])
        r = "BNil"
        for s in reversed(out):
            r = "(BCons %s %s)" % (s, r)
        return r


def _strip_doc(body):
    if body and isinstance(body[0], ast.Expr) and isinstance(body[0].value, ast.Constant) and isinstance(body[0].value.value, str):
        return body[1:]
    return body


def _plain_def(fn, where, args):
    a = fn.args
    if [x.arg for x in a.args] != args[0] or (a.vararg.arg if a.vararg else None) != args[1] \
            or (a.kwarg.arg if a.kwarg else None) != args[2] or a.kwonlyargs or a.posonlyargs or a.defaults:
        raise TranslateError("%s: unexpected signature" % where)


def _method(cls, name, decorated=False):
    fns = [n for n in cls.body if isinstance(n, ast.FunctionDef) and n.name == name]
    if len(fns) != 1:
        raise TranslateError("Process.%s: %d definitions" % (name, len(fns)))
    if fns[0].decorator_list and not decorated:
        raise TranslateError("Process.%s: decorated" % name)
    if name == "_readlink":
        # def _readlink(self, path, fallback=UNSET)
        if ast.dump(fns[0].args) != ast.dump(ast.parse("def f(self, path, fallback=UNSET): pass").body[0].args):
            raise TranslateError("Process._readlink: unexpected signature")
    else:
        _plain_def(fns[0], "Process." + name, (["self"], None, None))
    return fns[0]


def _wrapped_method(cls, name):
    """-> Gallina [pymeth]: is the method decorated with exactly @wrap_exceptions, and its body"""
    fn = _method(cls, name, decorated=True)
    decs = [ast.dump(d) for d in fn.decorator_list]
    if decs == [ast.dump(ast.parse("wrap_exceptions").body[0].value)]:
        wrapped = "true"
    elif not decs:
        wrapped = "false"
    else:
        raise TranslateError("Process.%s: decorators not understood" % name)
    return "{| m_wrapped := %s; m_body := %s |}" % (wrapped, _Fn("Process." + name).block(_strip_doc(fn.body)))


def translate(impl_dir):
    """-> Gallina text of the record [gen_src : pysrc]"""
    tree = ast.parse(open(os.path.join(impl_dir, "psutil", "_pslinux.py")).read())
    # ---- wrap_exceptions
    ws = [n for n in tree.body if isinstance(n, ast.FunctionDef) and n.name == "wrap_exceptions"]
    if len(ws) != 1:
        raise TranslateError("wrap_exceptions: %d module-level definitions" % len(ws))
    w = ws[0]
    _plain_def(w, "wrap_exceptions", (["fun"], None, None))
    body = _strip_doc(w.body)
    # def wrapper(self, *args, **kwargs): ... ; return wrapper
    if not (len(body) == 2 and isinstance(body[0], ast.FunctionDef) and isinstance(body[1], ast.Return)
            and isinstance(body[1].value, ast.Name) and body[1].value.id == body[0].name):
        raise TranslateError("wrap_exceptions: body is not `def wrapper(...)` + `return wrapper`")
    inner = body[0]
    _plain_def(inner, "wrap_exceptions.wrapper", (["self"], "args", "kwargs"))
    decs = [ast.dump(d) for d in inner.decorator_list]
    if decs != [ast.dump(ast.parse("functools.wraps(fun)").body[0].value)]:
        raise TranslateError("wrap_exceptions.wrapper: decorators other than @functools.wraps(fun)")
    ib = _strip_doc(inner.body)
    f = _Fn("wrap_exceptions.wrapper")
    # pid, name = self.pid, self._name
    if ib and ast.dump(ib[0]) == ast.dump(ast.parse("pid, name = self.pid, self._name").body[0]):
        f.alias = {"pid": "pid", "name": "_name"}
        ib = ib[1:]
    wrapper = f.block(ib)
    # ---- class Process helpers
    cs = [n for n in tree.body if isinstance(n, ast.ClassDef) and n.name == "Process"]
    if len(cs) != 1:
        raise TranslateError("class Process: %d definitions" % len(cs))
    parts = {}
    for name in ("_is_zombie", "_raise_if_zombie", "_raise_if_not_alive", "_readlink"):
        parts[name] = _Fn("Process." + name).block(_strip_doc(_method(cs[0], name).body))
    return ("{| py_is_zombie :=\n     %s;\n   py_raise_if_zombie :=\n     %s;\n   py_wrapper :=\n     %s;\n"
            "   py_raise_if_not_alive :=\n     %s;\n   py_readlink :=\n     %s;\n   py_exe :=\n     %s;\n"
            "   py_cwd :=\n     %s |}" % (parts["_is_zombie"], parts["_raise_if_zombie"], wrapper,
                                          parts["_raise_if_not_alive"], parts["_readlink"],
                                          _wrapped_method(cs[0], "exe"), _wrapped_method(cs[0], "cwd")))


def gen_tables(impl_dir, out_dir):
    txt = "\n".join([
        "(* GENERATED by props/_c03_gen.py (gen_tables) from psutil/_pslinux.py of the tree under check -- do not edit. *)",
        "From PV Require Import C03.PyGen.", "From Coq Require Import String List.", "Import ListNotations.", "",
        "Definition gen_src : pysrc :=\n  %s." % translate(impl_dir), ""])
    path = os.path.join(out_dir, "C03_Tables.v")
    os.makedirs(out_dir, exist_ok=True)
    if not os.path.exists(path) or open(path).read() != txt:
        with open(path, "w") as fh:
            fh.write(txt)
