"""Deterministic line-level scheduler for real threads (C16).

Each worker thread runs under a sys.settrace tracer that is active only inside psutil's
_common.py / __init__.py.  At every *shared-state line* (the lines of memoize_when_activated,
cache_activate/cache_deactivate and oneshot() that read or write `_cache` / take the lock --
the same lines that are the steps of the Coq model, coq/C16/Model.v `pc`) the thread stops and
waits for the controller.  A schedule is a list of thread indexes: entry t lets thread t execute
its pending line and run on up to its next shared-state line (or to the end of its program).
Naming a finished thread is a no-op, exactly as in the model's `sched_step`.
"""
import linecache
import sys
import threading

# (file suffix, function name) -> set of stripped source lines that are pause points
PAUSE = {
    ("_common.py", "wrapper"): {
        "ret = self._cache[fun]", "return fun(self)", "ret = fun(self)", "self._cache[fun] = ret",
        # the proposed repair (notes/fixes/C16-bind-cache-once.diff)
        "cache = self._cache", "ret = cache[fun]", "cache[fun] = ret",
    },
    ("_common.py", "cache_activate"): {"proc._cache = {}"},
    ("_common.py", "cache_deactivate"): {"del proc._cache"},
    ("__init__.py", "oneshot"): {"with self._lock:", 'if hasattr(self, "_cache"):'},
}
ONCE_PER_FRAME = {"with self._lock:"}   # the `with` line fires again when the block is left


class Deadlock(Exception):
    pass


class Controller:
    def __init__(self, psutil_dir, targets=(), timeout=10.0):
        self.psutil_dir = psutil_dir
        self.targets = tuple(targets)   # only lines executing on these objects are pause points
        self.cv = threading.Condition()
        self.state = {}      # tid -> "running" | "paused" | "done"
        self.timeout = timeout
        self.errors = []
        self.steps = 0
        self._seen_with = {}

    # ---- tracer
    def _global_trace(self, tid):
        def local(frame, event, arg):
            if event == "line":
                code = frame.f_code
                lines = PAUSE.get((self._suffix(code.co_filename), code.co_name))
                if lines:
                    txt = linecache.getline(code.co_filename, frame.f_lineno).strip()
                    if txt in lines and self._on_target(frame):
                        if txt in ONCE_PER_FRAME:
                            if id(frame) in self._seen_with:
                                return local
                            self._seen_with[id(frame)] = frame
                        self.pause(tid)
            return local

        def glob(frame, event, arg):
            if event != "call":
                return None
            code = frame.f_code
            if (self._suffix(code.co_filename), code.co_name) in PAUSE:
                return local
            return None
        return glob

    def _on_target(self, frame):
        if not self.targets:
            return True
        obj = frame.f_locals.get("self", frame.f_locals.get("proc"))
        return any(obj is t for t in self.targets)

    def _suffix(self, fn):
        if fn.startswith(self.psutil_dir):
            return fn[len(self.psutil_dir):].lstrip("/")
        return None

    # ---- called by worker threads
    def pause(self, tid):
        with self.cv:
            self.state[tid] = "paused"
            self.cv.notify_all()
            ok = self.cv.wait_for(lambda: self.state[tid] == "running", timeout=self.timeout * 6)
            if not ok:
                raise Deadlock("thread %d was never resumed" % tid)

    def _body(self, tid, fn):
        sys.settrace(self._global_trace(tid))
        try:
            fn(lambda: self.pause(tid))
        except BaseException as e:  # noqa
            self.errors.append((tid, repr(e)))
        finally:
            sys.settrace(None)
            with self.cv:
                self.state[tid] = "done"
                self.cv.notify_all()

    # ---- controller side
    def run(self, fns, schedule):
        """fns[i](pause) is thread i's program; pause() is an explicit pause point for harness-level steps."""
        n = len(fns)
        ths = []
        for i, fn in enumerate(fns):
            self.state[i] = "running"
            t = threading.Thread(target=self._body, args=(i, fn), daemon=True)
            ths.append(t)
        for t in ths:
            t.start()
        with self.cv:
            ok = self.cv.wait_for(lambda: all(self.state[i] != "running" for i in range(n)), timeout=self.timeout)
            if not ok:
                raise Deadlock("threads did not reach their first pause point")
            for tid in schedule:
                if self.state.get(tid) != "paused":
                    continue
                self.state[tid] = "running"
                self.steps += 1
                self.cv.notify_all()
                ok = self.cv.wait_for(lambda: self.state[tid] != "running", timeout=self.timeout)
                if not ok:
                    raise Deadlock("thread %d did not reach a pause point (blocked?)" % tid)
            unfinished = [i for i in range(n) if self.state[i] != "done"]
        if unfinished:
            # schedule too short: let the rest run to completion one after the other (reported to the caller)
            for i in unfinished:
                with self.cv:
                    while self.state[i] != "done":
                        if self.state[i] == "paused":
                            self.state[i] = "running"
                            self.cv.notify_all()
                        if not self.cv.wait_for(lambda: self.state[i] != "running", timeout=self.timeout):
                            raise Deadlock("thread %d stuck while draining" % i)
        for t in ths:
            t.join(self.timeout)
        self._seen_with.clear()
        return unfinished
