"""C15 helpers: virtual kernel + virtual clock under the real psutil, runners, and the
Python transcription of the property oracle (coq/C15/Spec.v: spec_wait, spec_partition)."""
import os
import time
from fractions import Fraction as F

from pv.canon import T

CAP = F(1, 25)
IVAL0 = F(1, 10000)


def q(x):
    x = F(x)
    return [x.numerator, x.denominator]


def unq(v):
    return None if v is None else F(v[0], v[1])


def snapq(x):
    fx = F(x)
    sn = fx.limit_denominator(10 ** 7)
    return q(sn if abs(sn - fx) <= F(1, 10 ** 12) else fx)


class Hang(BaseException):
    """the call under test would never return"""


def eintr_map(lst):
    """EINTR schedule of a process: entries are a call index (signal at once) or [index, [num, den]] = the
    signal arrives that long after the call was made (matters only when the call blocks)"""
    out = {}
    for e in lst:
        if isinstance(e, int):
            out.setdefault(e, F(0))
        else:
            out.setdefault(e[0], unq(e[1]))
    return out


def status_word(s):
    return s[1] * 256 if s[0] == "code" else s[1] + (128 if s[2] else 0)


def spec_code(s):
    return s[1] if s[0] == "code" else -s[1]


class VKernel:
    def __init__(self, mode, start, fp, procs):
        self.mode = mode
        self.clock = F(start)
        self.fp = fp
        self.procs = {}
        for p in procs:
            self.procs[p["pid"]] = {"kind": p["kind"], "exit": unq(p["exit"]), "status": status_word(p["status"]),
                                    "eintr": eintr_map(p["eintr"]), "ncalls": 0, "reaped": False, "infs": True,
                                    "reused": False}
        self.sleeps = []
        self.kills = []
        self.ops = 0

    # ---- clock
    def timer(self):
        return self.clock if self.mode == "exact" else float(self.clock)

    def sleep(self, x):
        if x < 0:
            raise ValueError("sleep length must be non-negative")
        fx = F(x)
        snap = fx.limit_denominator(10 ** 7)
        if abs(snap - fx) > F(1, 10 ** 12):
            snap = fx
        self.sleeps.append(snap)
        if len(self.sleeps) > 4000:
            raise Hang()
        self.clock += snap
        self.sync()

    def advance(self, dt):
        self.clock += dt
        self.sync()

    def sync(self):
        for pid, p in self.procs.items():
            if p["infs"] and p["kind"] == "nonchild" and p["exit"] is not None and p["exit"] <= self.clock:
                self.fp.remove(pid)
                p["infs"] = False

    # ---- kernel calls
    def waitpid(self, pid, flags):
        self.ops += 1
        if self.ops > 20000:
            raise Hang()
        p = self.procs.get(pid)
        if p is None:
            raise ChildProcessError(10, "No child processes")
        idx = p["ncalls"]
        p["ncalls"] += 1
        if idx in p["eintr"]:
            blocks = not (flags & os.WNOHANG) and p["kind"] == "child" and not p["reaped"]
            if blocks:
                # a blocking call returns at whichever comes first: the exit or the signal (tie: the signal)
                te = self.clock + p["eintr"][idx]
                tx = None if p["exit"] is None else max(p["exit"], self.clock)
                if tx is not None and tx < te:
                    self.clock = tx
                    self.sync()
                    return self._reap(pid, p)
                self.clock = te
                self.sync()
            raise InterruptedError(4, "Interrupted system call")
        if p["kind"] != "child" or p["reaped"]:
            raise ChildProcessError(10, "No child processes")
        if p["exit"] is not None and p["exit"] <= self.clock:
            return self._reap(pid, p)
        if flags & os.WNOHANG:
            return (0, 0)
        if p["exit"] is None:
            raise Hang()
        self.clock = p["exit"]
        self.sync()
        return self._reap(pid, p)

    def _reap(self, pid, p):
        p["reaped"] = True
        if p["infs"]:
            self.fp.remove(pid)
            p["infs"] = False
        return (pid, p["status"])

    # ---- the wrapped subprocess.Popen object's own reaping (poll / wait / communicate / __exit__)
    def sub_waitpid(self, pid, block):
        p = self.procs[pid]
        if p["reaped"] or p["kind"] != "child":
            raise ChildProcessError(10, "No child processes")
        if p["exit"] is not None and p["exit"] <= self.clock:
            return self._reap(pid, p)[1]
        if not block:
            return None
        if p["exit"] is None:
            raise Hang()
        self.clock = p["exit"]
        self.sync()
        return self._reap(pid, p)[1]

    def reuse(self, pid):
        """the kernel hands the PID of a reaped process to a stranger (another start time)"""
        p = self.procs[pid]
        if p["reaped"] and not p["reused"]:
            p["reused"] = True
            self.fp.add(pid, comm=b"stranger", starttime=424242)

    def kill(self, pid, sig):
        """os.kill: succeeds (and changes nothing: the exit schedule is fixed) while the PID is in the
        process table -- running or a zombie waiting to be reaped -- else ESRCH"""
        self.sync()
        p = self.procs.get(pid)
        if p is None or not (p["infs"] or p["reused"]):
            raise ProcessLookupError(3, "No such process")
        self.kills.append((pid, int(sig), p["reused"]))

    def pid_exists(self, pid):
        self.ops += 1
        if self.ops > 20000:
            raise Hang()
        p = self.procs.get(pid)
        if p is None:
            return False
        if p["kind"] == "never":
            return False
        if p["kind"] == "child":
            return (not p["reaped"]) or p["reused"]
        return not (p["exit"] is not None and p["exit"] <= self.clock)


class FakePopen:
    """subprocess.Popen's attribute protocol over the virtual kernel (what psutil.Popen delegates to)"""

    def __init__(self, vk, pid):
        self._vk = vk
        self.pid = pid
        self.args = ["virtual-child"]
        self.returncode = None
        self.stdin = self.stdout = self.stderr = None

    def _set(self, word):
        self.returncode = (word >> 8) & 0xff if word & 0x7f == 0 else -(word & 0x7f)

    def _try(self, block):
        if self.returncode is None:
            try:
                w = self._vk.sub_waitpid(self.pid, block)
            except ChildProcessError:
                self.returncode = 0      # what subprocess does when somebody else reaped its child
                return self.returncode
            if w is not None:
                self._set(w)
        return self.returncode

    def poll(self):
        return self._try(False)

    def wait(self, timeout=None):
        return self._try(True)

    def communicate(self, input=None, timeout=None):
        self._try(True)
        return (None, None)

    def __enter__(self):
        return self

    def __exit__(self, *a):
        self._try(True)


class SubShim:
    """stands for the `subprocess` module inside psutil/__init__.py: Popen is the fake, the rest is real"""

    def __init__(self, vk):
        self._vk = vk

    def Popen(self, pid, **kw):
        return FakePopen(self._vk, pid)

    def __getattr__(self, name):
        import subprocess
        return getattr(subprocess, name)


class Patched:
    """Install the virtual kernel under the imported psutil; restore everything on exit."""

    def __init__(self, vk):
        self.vk = vk

    def __enter__(self):
        import psutil
        from psutil import _psposix
        vk = self.vk
        self.saved = (os.waitpid, time.monotonic, time.time, time.sleep, psutil._timer, _psposix.wait_pid.__defaults__,
                      _psposix.pid_exists, os.kill, psutil.subprocess)
        psutil.subprocess = SubShim(vk)
        d = list(_psposix.wait_pid.__defaults__)
        # (timeout, proc_name, _waitpid, _timer, _min, _sleep, _pid_exists)
        d[2], d[3], d[5], d[6] = vk.waitpid, vk.timer, vk.sleep, vk.pid_exists
        _psposix.wait_pid.__defaults__ = tuple(d)
        _psposix.pid_exists = vk.pid_exists
        os.waitpid = vk.waitpid
        os.kill = vk.kill
        time.monotonic = vk.timer
        time.time = vk.timer
        time.sleep = vk.sleep
        psutil._timer = vk.timer
        return self

    def __exit__(self, *a):
        import psutil
        from psutil import _psposix
        (os.waitpid, time.monotonic, time.time, time.sleep, psutil._timer, _psposix.wait_pid.__defaults__,
         _psposix.pid_exists, os.kill, psutil.subprocess) = self.saved
        return False


def tmq(v):
    """the rational the model sees for an encoded timeout: [num, den]; "nan" is classified by the code's test
    `not timeout >= 0` with the negative numbers (-> -1); "-0.0" is zero"""
    if v is None:
        return None
    if v == "nan":
        return F(-1)
    if v == "-0.0":
        return F(0)
    return unq(v)


def _tm_arg(v, mode):
    if v is None:
        return None
    if v == "nan":
        return float("nan")
    if v == "-0.0":
        # the float run passes a real negative zero; the exact run (Fraction clock) passes the integer 0, because
        # Fraction + float would round the deadline and blur the exact comparison with the model
        return -0.0 if mode == "float" else 0
    f = unq(v)
    if mode == "float":
        return float(f)
    return int(f) if f.denominator == 1 else f


def _res(fn):
    """canonical result of a wait-like call"""
    import psutil
    try:
        r = fn()
    except psutil.TimeoutExpired as e:
        return T("Timeout", q(F(e.seconds)), e.pid)
    except Hang:
        return T("Hang")
    except ValueError:
        return T("ValueError")
    except TypeError:
        return T("TypeError")
    except BaseException as e:  # noqa
        if isinstance(e, (KeyboardInterrupt, SystemExit)) or type(e).__name__ == "CaseTimeout":
            raise
        return T("Raised", type(e).__name__)
    if r is None:
        return None
    if isinstance(r, int) and not isinstance(r, bool):
        return T("Int", int(r))
    return T("Value", repr(r))


OTHER_CALLS = ("is_running", "kill", "terminate", "send_signal", "suspend", "resume", "children", "name", "status",
               "ppid", "parent", "cpu_times", "as_dict")


def other_call(proc, name):
    """an interposed public call on the object between two wait()s; whatever it answers or raises is its own
    business (C01-C06) -- C15 only demands that it leaves the memoised wait() result alone"""
    import signal
    import psutil
    try:
        if name == "send_signal":
            proc.send_signal(signal.SIGTERM)
        elif name == "as_dict":
            proc.as_dict(attrs=["name", "status", "ppid"])
        else:
            getattr(proc, name)()
    except Exception:  # noqa  (their answers are C01-C06's business)
        pass


def run_decode(word):
    """drive the status decoding through wait_pid with a kernel that hands back `word` at once"""
    from psutil import _psposix
    saved = os.waitpid
    os.waitpid = lambda pid, flags: (pid, word)
    try:
        return _res(lambda: _psposix.wait_pid(4242))
    finally:
        os.waitpid = saved


def _fake(env, tag):
    import psutil
    from pv import fakeproc
    root = os.path.join(env["work"], "proc_" + tag)
    fp = fakeproc.FakeProc(root)
    fp.add(1, comm=b"init", ppid=0, starttime=1)     # a system always has PID 1 (parent()/children() list the table)
    fakeproc.attach(psutil, root)
    return fp


def run_wait(case, env, mode):
    import psutil
    from psutil import _psposix
    p = case["proc"]
    fp = _fake(env, "w")
    pid = p["pid"]
    vk = VKernel(mode, unq(case["start"]), fp, [p])
    proc = None
    if pid > 0:
        fp.add(pid, starttime=777)
        proc = psutil.Process(pid)
        if p["kind"] == "never":
            fp.remove(pid)
            vk.procs[pid]["infs"] = False
        vk.sync()
    out = []
    with Patched(vk):
        for op in case["ops"]:
            if op[0] == "advance":
                vk.advance(unq(op[1]))
                continue
            if op[0] == "call":
                if proc is not None:
                    other_call(proc, op[1])
                continue
            n0 = len(vk.sleeps)
            tm = _tm_arg(op[1], mode)
            if op[0] == "wait":
                if proc is None:
                    return T("Skip", "no Process object for pid <= 0")
                r = _res(lambda: proc.wait(tm))
            else:
                r = _res(lambda: _psposix.wait_pid(pid, tm))
            out.append([r, q(vk.clock), [q(s) for s in vk.sleeps[n0:]], vk.procs[pid]["ncalls"]])
    return out


# ---- the arguments of wait_procs: callback kinds, container of procs, type of the timeout
CB_TRUTHY = ("ok", "lambda", "bound", "partial")
CB_FALSY = ("falsy_list", "falsy_len", "falsy_bool")      # callable, but bool(callback) is False
CB_CALLABLE = CB_TRUTHY + CB_FALSY
CB_BAD = ("bad", "bad_str")


def make_callback(kind, record):
    """record(proc) is the harness's recorder; the returned object is what wait_procs gets as callback="""
    import functools
    if kind == "none":
        return None
    if kind == "bad":
        return 1
    if kind == "bad_str":
        return "not callable"
    if kind == "ok":
        return record
    if kind == "lambda":
        return lambda proc: record(proc)
    if kind == "bound":
        class Sink:
            def on_terminate(self, proc):
                record(proc)
        return Sink().on_terminate
    if kind == "partial":
        return functools.partial(lambda tag, proc: record(proc), "tag")
    if kind == "falsy_list":
        class Collector(list):            # empty (falsy) until its first call
            def __call__(self, proc):
                record(proc)
                self.append(proc)
        return Collector()
    if kind == "falsy_len":
        class Sized:
            def __len__(self):
                return 0

            def __call__(self, proc):
                record(proc)
        return Sized()
    if kind == "falsy_bool":
        class Quiet:
            def __bool__(self):
                return False

            def __call__(self, proc):
                record(proc)
        return Quiet()
    raise ValueError(kind)


def _container(objs, how):
    if how == "tuple":
        return tuple(objs)
    if how == "generator":
        return (o for o in objs)
    if how == "set":
        return set(objs)
    return list(objs)


def _tm_typed(v, typ, mode):
    """timeout as int / float / bool / Fraction when the value allows it (else as _tm_arg chooses)"""
    if v is None or typ == "auto":
        return _tm_arg(v, mode)
    f = unq(v)
    if typ == "bool" and f in (0, 1):
        return bool(f)
    if typ == "int" and f.denominator == 1:
        return int(f)
    if typ == "fraction":
        return f if mode == "exact" else float(f)
    if typ == "float":
        d = f.denominator
        if mode == "float" or d & (d - 1) == 0:      # exact run: only floats that are exact (Fraction + float rounds)
            return float(f)
    return _tm_arg(v, mode)


def _int(x):
    return None if x is None else int(x)


def run_popen(case, env, mode):
    """a history of one psutil.Popen object (wrapping the fake subprocess.Popen)"""
    import psutil
    p = case["proc"]
    fp = _fake(env, "po")
    pid = p["pid"]
    vk = VKernel(mode, unq(case["start"]), fp, [p])
    fp.add(pid, starttime=777)
    out = []
    with Patched(vk):
        obj = psutil.Popen(pid)
        if not isinstance(obj._Popen__subproc, FakePopen):
            return T("Skip", "subprocess shim not in effect")
        for op in case["ops"]:
            k = op[0]
            if k == "advance":
                vk.advance(unq(op[1]))
            elif k == "call":
                other_call(obj, op[1])
            elif k == "reuse":
                vk.reuse(pid)
            elif k == "wait":
                n0 = len(vk.sleeps)
                tm = _tm_arg(op[1], mode)
                r = _res(lambda: obj.wait(tm))
                out.append([r, q(vk.clock), [q(x) for x in vk.sleeps[n0:]], vk.procs[pid]["ncalls"]])
            else:
                try:
                    if k == "poll":
                        obj.poll()
                    elif k == "communicate":
                        obj.communicate()
                    elif k == "exit":
                        obj.__enter__()
                        obj.__exit__(None, None, None)
                    else:
                        raise ValueError(k)
                    out.append([_int(obj.returncode), q(vk.clock)])
                except Hang:
                    out.append(T("Hang"))
    return out


def spec_popen(case, obs, tol=0):
    """oracle for a Popen history: before anybody collected the status, wait() obeys spec_wait; once it has been
    collected (by poll/communicate/__exit__ or by wait itself) every wait returns it at once -- 0 included"""
    p = case["proc"]
    code = spec_code(p["status"])
    ex = unq(p["exit"])
    t = unq(case["start"])
    fails = []
    collected = None
    ncalls = 0
    j = 0
    for op in case["ops"]:
        k = op[0]
        if k == "advance":
            t += unq(op[1])
            continue
        if k in ("call", "reuse"):
            continue
        if j >= len(obs):
            fails.append("missing observation")
            break
        o = obs[j]
        j += 1
        if k == "wait":
            res, ret, sleeps, nc = o
            ret = unq(ret)
            sleeps = [unq(x) for x in sleeps]
            tm = tmq(op[1])
            if tm is not None and tm < 0:
                # a Popen is a Process: a negative (or NaN) timeout raises ValueError in every state, nothing touched
                if res != T("ValueError") or abs(ret - t) > tol or sleeps or nc != ncalls:
                    fails.append("op %d: wait(%s) must raise ValueError and touch nothing, got %r (slept %d, waitpid calls %d->%d)"
                                 % (j - 1, op[1], res, len(sleeps), ncalls, nc))
            elif collected is not None:
                if res != T("Int", collected) or abs(ret - t) > tol or sleeps or nc != ncalls:
                    fails.append("op %d: status %d was already collected but wait(%s) gave %r (slept %d, %s s, waitpid calls %d->%d)"
                                 % (j - 1, collected, tm, res, len(sleeps), ret - t, ncalls, nc))
            else:
                fails += ["op %d: %s" % (j - 1, f) for f in spec_wait(p, t, tm, res, ret, sleeps, True, tol)]
                if isinstance(res, dict) and res.get("t") == "Int":
                    collected = res["a"][0]
            t, ncalls = ret, nc
        else:
            if isinstance(o, dict):
                if not (k != "poll" and ex is None and collected is None):
                    fails.append("op %d: %s never returned" % (j - 1, k))
                break
            rc, ret = o
            ret = unq(ret)
            if collected is not None:
                if rc != collected or abs(ret - t) > tol:
                    fails.append("op %d: %s gave returncode %r after %d had been collected" % (j - 1, k, rc, collected))
            elif ex is not None and ex <= t + tol:
                if rc != code or abs(ret - t) > tol:
                    fails.append("op %d: %s gave %r at %s, expected %d at once" % (j - 1, k, rc, ret, code))
                collected = code
            elif k == "poll":
                if rc is not None or abs(ret - t) > tol:
                    fails.append("op %d: poll() of a running child gave %r" % (j - 1, rc))
            else:
                if rc != code or ex is None or abs(ret - ex) > tol:
                    fails.append("op %d: %s gave %r at %s, expected %d at %s" % (j - 1, k, rc, ret, code, ex))
                collected = code
            t = ret
    return fails


# ---- wait_procs: steering the iteration order of the set `alive`
_POOL = {}


def _pool(env):
    """slot (0..5) -> a PID whose Process hash has (hash & 31) == slot.  The hash is hash(Process._ident) =
    hash((pid, start time)); one real object gives the second component, candidates are verified on real objects."""
    import psutil
    key = env["work"]
    if key in _POOL:
        return _POOL[key]
    fp = _fake(env, "pool")
    fp.add(999, starttime=777)
    probe = psutil.Process(999)
    ident2 = probe._ident[1]
    assert hash(probe) == hash((999, ident2))
    slots = {}
    for pid in range(1000, 30000):
        h = hash((pid, ident2)) & 31
        if h < 6 and h not in slots:
            fp.add(pid, starttime=777)
            if hash(psutil.Process(pid)) & 31 == h:
                slots[h] = pid
            fp.remove(pid)
            if len(slots) == 6:
                break
    if len(slots) < 6:
        raise RuntimeError("no PID pool")
    _POOL[key] = slots
    return slots


def run_procs(case, env, mode):
    import itertools
    import psutil
    pool = _pool(env)
    ps = case["procs"]
    n = len(ps)
    prio = case["prio"]
    fp = _fake(env, "p")
    pids = [None] * n
    for rank, i in enumerate(prio):
        pids[i] = pool[rank]
    idx_of = {pids[i]: i for i in range(n)}
    kp = [dict(p, pid=pids[i]) for i, p in enumerate(ps)]
    vk = VKernel(mode, unq(case["start"]), fp, kp)
    objs = []
    popen = {int(k): v for k, v in case.get("popen", {}).items()}
    with Patched(vk):
        for i, p in enumerate(ps):
            fp.add(pids[i], starttime=777)
            objs.append(psutil.Popen(pids[i]) if i in popen else psutil.Process(pids[i]))
        # handles: [process index, key]; key 0 = the object above, key k > 0 = another, equal Process object of
        # the same process (as parent.children() + [Process(pid)] would give)
        handles = case.get("handles") or [[i, 0] for i in range(n)]
        hobj = {(i, 0): objs[i] for i in range(n)}
        for i, k in handles:
            if (i, k) not in hobj:
                hobj[(i, k)] = psutil.Process(pids[i])
        inputs = [hobj[(i, k)] for i, k in handles]
    # the steering assumption, checked on the concrete objects: every sub-set iterates in priority order
    full = set(objs)
    for r in range(0, n + 1):
        for gone in itertools.combinations(range(n), r):
            want = [i for i in prio if i not in gone]
            got = [idx_of[o.pid] for o in (full - {objs[i] for i in gone})]
            if want != got:
                return T("Skip", "set order not steerable")
    for i, p in enumerate(ps):
        if p["kind"] == "never":
            fp.remove(pids[i])
            vk.procs[pids[i]]["infs"] = False
    vk.sync()
    waits, cbs = [], []
    orig_wait = psutil.Process.wait

    orig_pwait = psutil.Popen.wait

    waited_ids, cb_ids = [], []

    def rec_wait(self, timeout=None):
        if not isinstance(self, psutil.Popen):      # a Popen is logged once, at its own wait()
            waited_ids.append(id(self))
            waits.append([idx_of.get(self.pid, -1), snapq(timeout) if timeout is not None else None])
        return orig_wait(self, timeout)

    def rec_pwait(self, timeout=None):
        waited_ids.append(id(self))
        waits.append([idx_of.get(self.pid, -1), snapq(timeout) if timeout is not None else None])
        return orig_pwait(self, timeout)

    def callback(proc):
        cb_ids.append(id(proc))
        cbs.append(idx_of.get(proc.pid, -1))
        if "returncode" not in vars(proc):
            cbs.append(-2)

    cb = make_callback(case["cb"], callback)
    tm = _tm_typed(case["timeout"], case.get("tm_type", "auto"), mode)
    res = {}
    # objects that were already waited for (their process had ended before), then used through other calls
    pre_bad = []
    with Patched(vk):
        # psutil.Popen objects whose child had ended: the status is collected first through the wrapped subprocess
        # object (or through psutil's wait), the PID may then be recycled
        for i, how in sorted(popen.items()):
            want = spec_code(ps[i]["status"])
            try:
                if how["reap"] == "none":
                    continue             # an un-collected Popen: nothing happens before wait_procs
                if how["reap"] == "poll":
                    objs[i].poll()
                elif how["reap"] == "communicate":
                    objs[i].communicate()
                elif how["reap"] == "exit":
                    objs[i].__enter__()
                    objs[i].__exit__(None, None, None)
                else:
                    objs[i].wait()
                got = _int(objs[i]._Popen__subproc.returncode)
            except BaseException as e:  # noqa
                if isinstance(e, (KeyboardInterrupt, SystemExit)) or type(e).__name__ == "CaseTimeout":
                    raise
                got = "raised %s" % type(e).__name__
            if got != want:
                pre_bad.append("%s of Popen %d collected %r, expected %r" % (how["reap"], i, got, want))
            if how.get("reuse"):
                vk.reuse(pids[i])
            for nm in case.get("inter", []):
                other_call(objs[i], nm)
        for i in case.get("prewait", []):
            r0 = _res(lambda: objs[i].wait())
            want = T("Int", spec_code(ps[i]["status"])) if ps[i]["kind"] == "child" else None
            if r0 != want:
                pre_bad.append("pre-wait of process %d returned %r, expected %r" % (i, r0, want))
            for nm in case.get("inter", []):
                other_call(objs[i], nm)
    if vk.sleeps or vk.clock != unq(case["start"]):
        pre_bad.append("pre-wait of an ended process slept or took time")
    del vk.sleeps[:]
    psutil.Process.wait = rec_wait
    psutil.Popen.wait = rec_pwait
    try:
        with Patched(vk):
            try:
                r = psutil.wait_procs(_container(inputs, case.get("procs_as", "list")), timeout=tm, callback=cb)
                exc = None
            except BaseException as e:  # noqa
                if isinstance(e, (KeyboardInterrupt, SystemExit)) or type(e).__name__ == "CaseTimeout":
                    raise
                r = None
                exc = T("Hang") if isinstance(e, Hang) else T(type(e).__name__ if isinstance(e, (ValueError, TypeError)) else "Raised:" + type(e).__name__)
    finally:
        psutil.Process.wait = orig_wait
        psutil.Popen.wait = orig_pwait
    gone = alive = []
    shape_ok = True
    if r is not None:
        try:
            g, a = r
            shape_ok = isinstance(g, list) and isinstance(a, list)
            gone = sorted(idx_of.get(o.pid, -1) for o in g)
            alive = sorted(idx_of.get(o.pid, -1) for o in a)
        except Exception:
            shape_ok = False
    rc = []
    alias_bad = []
    in_ids = {id(o) for o in inputs}
    ret_objs = (list(r[0]) + list(r[1])) if (r is not None and shape_ok) else []
    for o in ret_objs:
        if id(o) not in in_ids:
            alias_bad.append("an object that was not in the input is returned (pid index %s)" % idx_of.get(o.pid))
        if id(o) not in waited_ids:
            alias_bad.append("process %s is returned without having been waited for" % idx_of.get(o.pid))
    if len({id(o) for o in ret_objs}) != len(ret_objs):
        alias_bad.append("the same object is returned twice")
    if r is not None and shape_ok:
        for o in r[0]:
            if case["cb"] in CB_CALLABLE and cb_ids.count(id(o)) != 1:
                alias_bad.append("gone object of process %s got %d callbacks" % (idx_of.get(o.pid), cb_ids.count(id(o))))
    # returncode as wait_procs set it on the object itself (a Popen also delegates the name): one row per process
    seen_rc = {}
    for o in list(hobj.values()):
        if "returncode" in vars(o):
            i = idx_of.get(o.pid, -1)
            v = vars(o)["returncode"]
            seen_rc.setdefault(i, []).append(None if v is None else (T("Int", int(v)) if isinstance(v, int) else T("Value", repr(v))))
    for i in sorted(seen_rc):
        if len(seen_rc[i]) > 1:
            alias_bad.append("returncode was set on %d objects of process %d" % (len(seen_rc[i]), i))
        rc.append([i, seen_rc[i][0]])
    res = {"exc": exc, "gone": gone, "alive": alive, "rc": rc, "cbs": cbs, "sleeps": [q(s) for s in vk.sleeps],
           "ret": q(vk.clock), "waits": waits}
    if not shape_ok:
        res["exc"] = T("BadShape")
    if pre_bad:
        res["exc"] = T("PreWait", "; ".join(pre_bad))
    if alias_bad:
        res["exc"] = T("Alias", "; ".join(alias_bad))
    return res


# ------------------------------------------------------------------ the property oracle (Python transcription)
def _ended(p, t, tol=0):
    ex = unq(p["exit"])
    return ex is not None and ex <= t + tol


def spec_wait(p, start, tm, res, ret, sleeps, strict, tol):
    """failures of one un-cached wait(tm) call started at `start` (cf. spec_wait in coq/C15/Spec.v)"""
    fails = []
    tag = res.get("t") if isinstance(res, dict) else None
    if tm is not None and tm < 0:
        if tag != "ValueError":
            fails.append("negative timeout: expected ValueError, got %r" % (res,))
        if ret != start or sleeps:
            fails.append("negative timeout: time passed or slept")
        return fails
    stol = F(1, 10 ** 12)
    if sleeps and abs(sleeps[0] - IVAL0) > stol:
        fails.append("first poll interval %s is not 0.1 ms" % sleeps[0])
    for s in sleeps:
        if not (0 < s <= CAP + stol):
            fails.append("poll interval %s outside (0, 40 ms]" % s)
            break
    if tm is not None and tm == 0 and sleeps:
        fails.append("timeout=0 slept %d times" % len(sleeps))
    if ret < start - tol:
        fails.append("clock went backwards")
    kind = p["kind"]
    if tag == "Int":
        if kind != "child":
            fails.append("exit status for a process that is not a child")
        elif not _ended(p, ret, tol):
            fails.append("returned a status at %s before the process ended (%s)" % (ret, unq(p["exit"])))
        elif res["a"][0] != spec_code(p["status"]):
            fails.append("wrong status %r, expected %d" % (res["a"][0], spec_code(p["status"])))
    elif res is None:
        if kind == "child":
            fails.append("None for a child")
        elif kind == "nonchild":
            if not _ended(p, ret, tol):
                fails.append("returned None at %s before the process was gone (%s)" % (ret, unq(p["exit"])))
        else:
            if not p["eintr"] and (abs(ret - start) > tol or sleeps):
                fails.append("PID never existed: did not return at once")
    elif tag == "Timeout":
        if tm is None:
            fails.append("TimeoutExpired without a timeout")
        else:
            sec, pid = unq(res["a"][0]), res["a"][1]
            if abs(sec - tm) > tol or pid != p["pid"]:
                fails.append("TimeoutExpired carries seconds=%s pid=%s, expected %s/%s" % (sec, pid, tm, p["pid"]))
            if ret < start + tm - tol:
                fails.append("TimeoutExpired at %s before the deadline %s" % (ret, start + tm))
            if not ret < start + tm + CAP + tol:
                fails.append("TimeoutExpired at %s, more than one 40 ms poll after the deadline %s" % (ret, start + tm))
            if strict and (kind == "never" or _ended(p, ret, -tol if tol else 0)):
                fails.append("TimeoutExpired although the process had ended (%s) by %s" % (unq(p["exit"]), ret))
    elif tag == "Hang":
        if not (tm is None and p["exit"] is None and kind == "child"):
            fails.append("the call never returns")
    else:
        fails.append("unexpected outcome %r" % (res,))
    return fails


def spec_ops(case, obs, strict=True, tol=0):
    """oracle over a sequence of wait()/wait_pid() calls on one process (cache included)"""
    p = case["proc"]
    t = unq(case["start"])
    fails = []
    cached = False
    cache_val = None
    ncalls = 0
    j = 0
    for op in case["ops"]:
        if op[0] == "advance":
            t += unq(op[1])
            continue
        if op[0] == "call":
            continue
        if j >= len(obs):
            fails.append("missing observation")
            break
        res, ret, sleeps, nc = obs[j]
        st = strict[j] if isinstance(strict, list) else strict
        j += 1
        ret = unq(ret)
        sleeps = [unq(s) for s in sleeps]
        tm = tmq(op[1])
        if op[0] == "raw" and tm is not None and tm < 0 and p["pid"] > 0:
            pass    # wait_pid() itself has no contract for negative timeouts (Process.wait validates)
        elif op[0] == "raw" and p["pid"] <= 0:
            if not (isinstance(res, dict) and res.get("t") == "ValueError"):
                fails.append("wait_pid(pid<=0): expected ValueError")
        elif op[0] == "wait" and cached and not (tm is not None and tm < 0):
            if res != cache_val or abs(ret - t) > tol or sleeps or nc != ncalls:
                fails.append("cached wait(): got %r (cached %r), slept %d, waitpid calls %d->%d" % (res, cache_val, len(sleeps), ncalls, nc))
        else:
            # (direct wait_pid calls are generated as single-op cases only)
            fails += ["op %d: %s" % (j - 1, f) for f in spec_wait(p, t, tm, res, ret, sleeps, st, tol)]
            if op[0] == "wait" and (res is None or (isinstance(res, dict) and res.get("t") == "Int")):
                cached, cache_val = True, res
        t = ret
        ncalls = nc
    return fails


def spec_procs(case, o, tol=0):
    """oracle for one wait_procs() call (cf. spec_partition + deadline in coq/C15/Spec.v)"""
    fails = []
    ps = case["procs"]
    n = len(ps)
    tm = unq(case["timeout"])
    start = unq(case["start"])
    ret = unq(o["ret"])
    exc = o["exc"]
    if tm is not None and tm < 0:
        return [] if (isinstance(exc, dict) and exc.get("t") == "ValueError") else ["negative timeout: expected ValueError, got %r" % (exc,)]
    if case["cb"] in CB_BAD:
        return [] if (isinstance(exc, dict) and exc.get("t") == "TypeError") else ["callback not callable: expected TypeError, got %r" % (exc,)]
    if exc is not None:
        return ["wait_procs raised %r" % (exc,)]
    gone, alive = o["gone"], o["alive"]
    want_cover = sorted({h[0] for h in case["handles"]}) if case.get("handles") else list(range(n))
    if sorted(gone + alive) != want_cover:
        fails.append("gone %r / alive %r are not the distinct processes of the input %r, each once" % (gone, alive, want_cover))
    rc = {i: v for i, v in o["rc"]}
    if len(rc) != len(o["rc"]):
        fails.append("duplicate returncode rows")
    for i in gone:
        if not 0 <= i < n:
            continue
        p = ps[i]
        if i not in rc:
            fails.append("gone process %d has no returncode" % i)
            continue
        if p["kind"] == "child":
            want = T("Int", spec_code(p["status"]))
            if rc[i] != want:
                fails.append("process %d returncode %r, expected %r" % (i, rc[i], want))
            if not _ended(p, ret, tol):
                fails.append("process %d reported gone before it ended" % i)
        else:
            if rc[i] is not None:
                fails.append("process %d (not a child) returncode %r" % (i, rc[i]))
            if p["kind"] == "nonchild" and not _ended(p, ret, tol):
                fails.append("process %d reported gone before it was gone" % i)
    for i in alive:
        if i in rc:
            fails.append("alive process %d has a returncode" % i)
    want_cbs = sorted(gone) if case["cb"] in CB_CALLABLE else []    # every callable, whatever its truth value
    if sorted(o["cbs"]) != want_cbs:
        fails.append("callbacks %r, expected once for each of %r" % (o["cbs"], want_cbs))
    stol = F(1, 10 ** 12)
    for s in o["sleeps"]:
        s = unq(s)
        if not (0 < s <= CAP + stol):
            fails.append("poll interval %s outside (0, 40 ms]" % s)
            break
    if tm is not None:
        if not ret < start + tm + CAP + tol:
            fails.append("returned at %s, later than timeout %s + one 40 ms poll" % (ret - start, tm))
        if tm == 0 and o["sleeps"]:
            fails.append("timeout=0 slept")
    return fails
