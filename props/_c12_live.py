"""C12 live cases: real children on the running kernel.

A case fixes what the child will be (argv, environment, working directory, executable file, optionally a title written
over the argv area).  Coq prints the bytes /proc/<pid>/{cmdline,environ} and the exe/cwd link targets are predicted to
hold (Spec.k_cmdline, k_environ, k_link).  Here the child is spawned, the REAL /proc bytes are compared with the
prediction -- a mismatch means the transcription of the kernel format is wrong: LiveMismatch, a harness error, never a
verdict -- and then the real psutil is asked about the real /proc entry.
"""
import os
import shutil
import subprocess

CHILD_C = r"""
#include <stdio.h>
#include <stdlib.h>
#include <string.h>
#include <unistd.h>
/* PV_TITLE_HEX: bytes to write over the argv area (setproctitle style), PV_TITLE_MODE: "exact" (title at least as long
   as the area, one NUL after it) or "padded" (title shorter, rest of the area zeroed). PV_EXIT: leave at once (zombie). */
static int hexval(int c) { return c <= '9' ? c - '0' : c - 'a' + 10; }
int main(int argc, char **argv) {
    const char *t = getenv("PV_TITLE_HEX");
    const char *m = getenv("PV_TITLE_MODE");
    if (getenv("PV_EXIT")) return 0;
    if (t && m && argc > 0) {
        char *start = argv[0];
        char *end = argv[argc - 1] + strlen(argv[argc - 1]) + 1;
        size_t n = strlen(t) / 2, i;
        static unsigned char buf[65536];
        for (i = 0; i < n && i < sizeof buf; i++) buf[i] = (unsigned char)(hexval(t[2 * i]) * 16 + hexval(t[2 * i + 1]));
        if (m[0] == 'e') { memcpy(start, buf, n); start[n] = 0; }
        else { memset(start, 0, (size_t)(end - start)); memcpy(start, buf, n); }
    }
    fputs("ready\n", stdout);
    fflush(stdout);
    for (;;) pause();
}
"""


class LiveMismatch(RuntimeError):
    pass


def build_child(work):
    src = os.path.join(work, "pvchild.c")
    exe = os.path.join(work, "pvchild")
    if not os.path.exists(exe):
        with open(src, "w") as f:
            f.write(CHILD_C)
        subprocess.run(["gcc", "-O1", "-o", exe, src], check=True, stdout=subprocess.PIPE, stderr=subprocess.STDOUT)
    return exe


class Child:
    """a forked+execve'd child (execve through libc so that the environment is passed as the exact list of entries:
    duplicate names, entries without '=', empty names -- a dict could not express them)"""

    def __init__(self, path, argv, envp, cwd):
        import ctypes
        r, w = os.pipe()
        libc = ctypes.CDLL(None, use_errno=True)
        arr = lambda items: (ctypes.c_char_p * (len(items) + 1))(*(list(items) + [None]))
        c_argv, c_envp, c_path, c_cwd = arr(argv), arr(envp), os.fsencode(path), os.fsencode(cwd)
        pid = os.fork()
        if pid == 0:
            try:
                os.chdir(c_cwd)
                os.dup2(w, 1)
                devnull = os.open(os.devnull, os.O_RDONLY)
                os.dup2(devnull, 0)
                os.closerange(3, 256)
                libc.execve(c_path, c_argv, c_envp)
            finally:
                os._exit(127)
        os.close(w)
        self.pid = pid
        self.stdout = os.fdopen(r, "rb", buffering=0)

    def kill(self):
        os.kill(self.pid, 9)

    def wait(self):
        os.waitpid(self.pid, 0)


def spawn(case, base, child, rebase):
    """-> Child. `base` is a fresh real directory; `rebase` maps placeholder paths to it."""
    exe_path = os.fsdecode(rebase(bytes.fromhex(case["exe_path"])))
    os.makedirs(os.path.dirname(exe_path), exist_ok=True)
    shutil.copy(child, exe_path)
    os.chmod(exe_path, 0o755)
    cwd_path = os.fsdecode(rebase(bytes.fromhex(case["cwd_path"])))
    os.makedirs(cwd_path, exist_ok=True)
    argv = [rebase(bytes.fromhex(a)) for a in case["argv"]]
    envp = [rebase(bytes.fromhex(e)) for e in case["env"]]
    if case.get("title") is not None:
        envp += [b"PV_TITLE_HEX=" + rebase(bytes.fromhex(case["title"])).hex().encode(), b"PV_TITLE_MODE=" + case["title_mode"].encode()]
    if case.get("zombie"):
        envp += [b"PV_EXIT=1"]
    p = Child(exe_path, argv, envp, cwd_path)
    if case.get("zombie"):
        # wait until the kernel shows state Z (do not reap)
        import time
        for _ in range(5000):
            with open("/proc/%d/stat" % p.pid, "rb") as f:
                d = f.read()
            if d[d.rfind(b")") + 2:d.rfind(b")") + 3] == b"Z":
                break
            time.sleep(0.001)
        else:
            raise LiveMismatch("child did not become a zombie")
    else:
        line = p.stdout.readline()
        if line != b"ready\n":
            raise LiveMismatch("child did not start: %r" % (line,))
        if case["exe_unlink"]:
            os.unlink(exe_path)
        if case["cwd_rmdir"]:
            os.rmdir(cwd_path)
    return p


def real_bytes(pid):
    """what the running kernel shows, as bytes"""
    def rd(name):
        try:
            with open("/proc/%d/%s" % (pid, name), "rb") as f:
                return f.read()
        except OSError as e:     # e.g. ESRCH when opening a zombie's environ
            return "errno %d" % e.errno

    def lk(name):
        try:
            return os.readlink(b"/proc/%d/%s" % (pid, name.encode()))
        except OSError as e:
            return "errno %d" % e.errno
    comm = rd("comm")
    if not isinstance(comm, bytes):
        raise LiveMismatch("cannot read comm: %s" % comm)
    return {"cmdline": rd("cmdline"), "environ": rd("environ"),
            "exe": lk("exe"), "cwd": lk("cwd"), "comm": comm[:-1] if comm.endswith(b"\n") else comm}


def reap(p):
    try:
        p.kill()
    except OSError:
        pass
    try:
        p.stdout.close()
    except Exception:
        pass
    p.wait()
