"""C11 -- live cases: real sockets, the running kernel's /proc/net/{tcp,tcp6,udp,udp6,unix} and /proc/<pid>/fd.

snapshot(): (harness process, at case generation) opens real sockets, reads the five real files ONCE, parses every line
  into the record the Coq printers take (layout included: leading blanks, padding, the free tail), checks what the
  socket API says about our own sockets against the kernel's lines (address byte order, port, state code, inode =
  fstat().st_ino = the /proc/self/fd link, '@' for an abstract name) and returns a `live` case.  Coq then prints the
  records with Spec.k_files and check_printed() compares the bytes with the real files: a mismatch is a wrong
  transcription of the kernel format -> RuntimeError (exit 2), never a verdict.
real_proc_problems(): (worker) opens the sockets again and asks psutil over the REAL /proc.
"""
import os
import socket
import struct
import sys
import tempfile

FILES = ("tcp", "tcp6", "udp", "udp6", "unix")
TABLE = {"tcp": "tcp4", "tcp6": "tcp6", "udp": "udp4", "udp6": "udp6", "unix": "unix"}
LE = sys.byteorder == "little"
KIND_ADMITS = {  # the documented kind table: kind -> set of (family, type class) with type class 'tcp' / 'udp' / 'unix'
    "all": {(2, "tcp"), (10, "tcp"), (2, "udp"), (10, "udp"), (1, "unix")},
    "inet": {(2, "tcp"), (10, "tcp"), (2, "udp"), (10, "udp")}, "inet4": {(2, "tcp"), (2, "udp")},
    "inet6": {(10, "tcp"), (10, "udp")}, "tcp": {(2, "tcp"), (10, "tcp")}, "tcp4": {(2, "tcp")}, "tcp6": {(10, "tcp")},
    "udp": {(2, "udp"), (10, "udp")}, "udp4": {(2, "udp")}, "udp6": {(10, "udp")}, "unix": {(1, "unix")}}


class LiveError(RuntimeError):
    pass


# ------------------------------------------------------------------ real sockets
def open_sockets(workdir):
    """Real sockets of every class the sandbox permits.  Returns (list of dicts describing them, what is unavailable)."""
    socks, missing = [], []

    def add(s, cls, fam, status, path=None):
        ent = {"sock": s, "fd": s.fileno(), "cls": cls, "fam": fam, "ino": os.fstat(s.fileno()).st_ino, "status": status}
        if fam == 1:
            ent["path"] = path
        else:
            la = s.getsockname()
            ent["laddr"] = [la[0], la[1]]
            try:
                ra = s.getpeername()
                ent["raddr"] = [ra[0], ra[1]]
            except OSError:
                ent["raddr"] = None
        socks.append(ent)
        return ent
    for fam, famno, addr in ((socket.AF_INET, 2, "127.0.0.1"), (socket.AF_INET6, 10, "::1")):
        try:
            ls = socket.socket(fam, socket.SOCK_STREAM)
            ls.bind((addr, 0))
            ls.listen(2)
            c = socket.socket(fam, socket.SOCK_STREAM)
            c.connect(ls.getsockname()[:2])
            a, _ = ls.accept()
            add(ls, "tcp", famno, "LISTEN")
            add(c, "tcp", famno, "ESTABLISHED")
            add(a, "tcp", famno, "ESTABLISHED")
        except OSError as e:
            missing.append("tcp over %s: %s" % (addr, e))
        try:
            u = socket.socket(fam, socket.SOCK_DGRAM)
            u.bind((addr, 0))
            add(u, "udp", famno, "NONE")
            u2 = socket.socket(fam, socket.SOCK_DGRAM)
            u2.bind((addr, 0))
            u2.connect(u.getsockname()[:2])
            add(u2, "udp", famno, "NONE")
        except OSError as e:
            missing.append("udp over %s: %s" % (addr, e))
    d = tempfile.mkdtemp(prefix="c11live.", dir=workdir)
    tag = "%d" % os.getpid()
    for ty in (socket.SOCK_STREAM, socket.SOCK_DGRAM, socket.SOCK_SEQPACKET):
        nm = {socket.SOCK_STREAM: "s", socket.SOCK_DGRAM: "d", socket.SOCK_SEQPACKET: "q"}[ty]
        p = os.path.join(d, "sock %s with blank" % nm)
        s = socket.socket(socket.AF_UNIX, ty)
        s.bind(p)
        if ty != socket.SOCK_DGRAM:
            s.listen(1)
        add(s, "unix", 1, "NONE", os.fsencode(p))
        a = socket.socket(socket.AF_UNIX, ty)
        a.bind(b"\0c11-live-%s-%s with\0nul" % (tag.encode(), nm.encode()))     # abstract: printed '@...', NUL -> '@'
        add(a, "unix", 1, "NONE", b"@c11-live-%s-%s with@nul" % (tag.encode(), nm.encode()))
        add(socket.socket(socket.AF_UNIX, ty), "unix", 1, "NONE", None)           # unbound
    x, y = socket.socketpair(socket.AF_UNIX, socket.SOCK_STREAM)                  # connected, unnamed
    add(x, "unix", 1, "NONE", None)
    add(y, "unix", 1, "NONE", None)
    return socks, missing, d


def close_sockets(socks, d):
    for e in socks:
        try:
            e["sock"].close()
        except OSError:
            pass
    for root, _, files in os.walk(d):
        for f in files:
            try:
                os.unlink(os.path.join(root, f))
            except OSError:
                pass
    try:
        os.rmdir(d)
    except OSError:
        pass


# ------------------------------------------------------------------ parsing the real files into spec records
def _tokens_with_layout(body, n):
    """First n blank-separated tokens of a line body: (leading blanks, tokens, blanks after each token - 1, rest)."""
    i = 0
    while i < len(body) and body[i:i + 1] == b" ":
        i += 1
    lead, toks, pads = i, [], []
    for _ in range(n):
        j = i
        while j < len(body) and body[j:j + 1] != b" ":
            j += 1
        if j == i:
            raise ValueError("fewer than %d fields" % n)
        toks.append(body[i:j])
        k = j
        while k < len(body) and body[k:k + 1] == b" ":
            k += 1
        pads.append(k - j)
        i = k
    return lead, toks, pads, i


def _ip_from_hex(h):
    """The kernel prints each 32-bit group of the network-order address as a HOST integer (%08X)."""
    raw = bytes.fromhex(h.decode())
    if len(raw) not in (4, 16):
        raise ValueError("address of %d bytes" % len(raw))
    out = b""
    for g in range(0, len(raw), 4):
        out += raw[g:g + 4][::-1] if LE else raw[g:g + 4]
    return list(out)


def parse_inet_line(line):
    body = line[:-1]
    lead, toks, pads, end = _tokens_with_layout(body, 10)
    la, lp = toks[1].split(b":")
    ra, rp = toks[2].split(b":")
    # the inode is the 10th token; what follows it (blank + further fields + padding) is the free tail
    ino_end = end - pads[9]
    return {"lip": _ip_from_hex(la), "lport": int(lp, 16), "rip": _ip_from_hex(ra), "rport": int(rp, 16),
            "st": int(toks[3], 16), "inode": int(toks[9]),
            "raw": {"lead": lead, "pads": [p - 1 for p in pads[:9]], "sl": toks[0].decode(), "mid": [t.decode() for t in toks[4:9]],
                    "ino": toks[9].decode(), "tail": body[ino_end:].hex()}}


def parse_unix_line(line):
    body = line[:-1]
    lead, toks, pads, end = _tokens_with_layout(body, 7)
    if lead:
        raise ValueError("leading blanks")
    ino_end = end - pads[6]
    rest = body[ino_end:]
    path = None
    if rest:
        if rest[:1] != b" ":
            raise ValueError("no blank before the name")
        path = rest[1:]
    ty = int(toks[4], 16)
    if ty not in (1, 2, 5):
        raise ValueError("socket type %d" % ty)
    return {"type": ty, "inode": int(toks[6]), "path": None if path is None else path.hex(),
            "raw": {"pads": [p - 1 for p in pads[:6]], "num": toks[0].decode(), "ref": toks[1].decode(), "proto": toks[2].decode(),
                    "flags": toks[3].decode(), "st": toks[5].decode(), "ino": toks[6].decode()}}


def snapshot(workdir="/var/tmp"):
    socks, missing, d = open_sockets(workdir)
    try:
        real = {}
        for n in FILES:
            try:
                with open("/proc/net/" + n, "rb") as f:
                    real[n] = f.read()
            except OSError as e:
                real[n] = None
                missing.append("/proc/net/%s: %s" % (n, e))
        fds = []
        for name in sorted(os.listdir("/proc/self/fd"), key=int):
            try:
                fds.append([int(name), os.readlink("/proc/self/fd/" + name)])
            except OSError:
                pass
        mine = [{k: v for k, v in e.items() if k != "sock"} for e in socks]
        for e in mine:
            if e.get("path") is not None:
                e["path"] = e["path"].hex()
    finally:
        close_sockets(socks, d)
    case = {"kind": "live", "cls": "live", "le": LE, "o": [True, True], "deg": {}, "mine": mine, "missing": missing}
    expected, skipped = {}, []
    own = {e["ino"] for e in mine}
    for n in FILES:
        tab = TABLE[n]
        if real[n] is None:
            case[tab] = None if n.endswith("6") else []
            expected[n] = None
            continue
        lines = real[n].split(b"\n")
        if lines[-1] != b"":
            raise LiveError("C11 live: /proc/net/%s does not end with a newline" % n)
        lines = [ln + b"\n" for ln in lines[:-1]]
        recs, kept = [], [lines[0]]
        for ln in lines[1:]:
            try:
                rec = parse_unix_line(ln) if n == "unix" else parse_inet_line(ln)
                if n != "unix" and (tab.startswith("tcp") and not 1 <= rec["st"] <= 11):
                    raise ValueError("TCP state %d" % rec["st"])
            except Exception as ex:   # a line outside the spec's domain
                ino = None
                try:
                    ino = int(ln.split()[6 if n == "unix" else 9])
                except Exception:
                    pass
                if ino in own:
                    raise LiveError("C11 live: the kernel's line for OUR socket is outside the spec's format (%s): %r" % (ex, ln))
                skipped.append([n, ln.hex(), str(ex)])
                continue
            recs.append(rec)
            kept.append(ln)
        case[tab] = recs
        expected[n] = b"".join(kept).hex()
    case["real"] = expected
    case["skipped"] = skipped
    case["procs"] = [{"pid": os.getpid(), "visible": True,
                      "fds": [{"fd": fd, "t": (["sock", int(t[8:-1])] if t.startswith("socket:[") and t.endswith("]") and t[8:-1].isdigit()
                                               else ["other", t])} for fd, t in fds]}]
    _check_api_view(case)
    return case


def _check_api_view(case):
    """What the socket API says about our sockets vs. what the spec reads out of the kernel's lines and fd links."""
    links = {f["fd"]: f["t"] for f in case["procs"][0]["fds"]}
    for e in case["mine"]:
        if links.get(e["fd"]) != ["sock", e["ino"]]:
            raise LiveError("C11 live: /proc/self/fd/%d -> %r, fstat says inode %d" % (e["fd"], links.get(e["fd"]), e["ino"]))
        if e["cls"] == "unix":
            recs = [r for r in case["unix"] if r["inode"] == e["ino"]]
        else:
            tab = ("tcp" if e["cls"] == "tcp" else "udp") + ("6" if e["fam"] == 10 else "4")
            recs = [r for r in (case[tab] or []) if r["inode"] == e["ino"]]
        if len(recs) != 1:
            raise LiveError("C11 live: %d kernel lines for our socket %r" % (len(recs), e))
        r = recs[0]
        if e["cls"] == "unix":
            ty = {"s": 1, "d": 2, "q": 5}
            if r["path"] != e["path"]:
                raise LiveError("C11 live: kernel prints the name %r, expected %r" % (r["path"], e["path"]))
            continue
        fam = socket.AF_INET if e["fam"] == 2 else socket.AF_INET6
        want_l = [list(socket.inet_pton(fam, e["laddr"][0])), e["laddr"][1]]
        want_r = ([list(socket.inet_pton(fam, e["raddr"][0])), e["raddr"][1]] if e["raddr"] else
                  [[0] * (4 if e["fam"] == 2 else 16), 0])
        st = {"LISTEN": 10, "ESTABLISHED": 1}.get(e["status"]) if e["cls"] == "tcp" else (1 if e["raddr"] else 7)
        got = ([r["lip"], r["lport"]], [r["rip"], r["rport"]], r["st"])
        if got != (want_l, want_r, st):
            raise LiveError("C11 live: kernel line decodes to %r, the socket API says %r (byte order / state code?)"
                            % (got, (want_l, want_r, st)))


def check_printed(case, printed):
    """printed: list of 5 (bytes or None) from Spec.k_files; must equal the real files (minus the skipped foreign lines)."""
    for n, got in zip(FILES, printed):
        want = case["real"][n]
        want = None if want is None else bytes.fromhex(want)
        if got != want:
            detail = ""
            if got is not None and want is not None:
                gl, wl = got.split(b"\n"), want.split(b"\n")
                for i, (a, b) in enumerate(zip(gl, wl)):
                    if a != b:
                        detail = "line %d: spec %r / kernel %r" % (i, a, b)
                        break
                else:
                    detail = "%d lines / %d lines" % (len(gl), len(wl))
            raise LiveError("C11 live: Spec.k_files prints /proc/net/%s differently from the running kernel: %s" % (n, detail))


# ------------------------------------------------------------------ psutil over the REAL /proc (worker)
def real_proc_problems(psutil, workdir, conv_rows_sys, conv_rows_proc, B, T):
    """Open the sockets in this process, ask psutil over the real /proc, compare with the socket API's view."""
    saved = psutil.PROCFS_PATH
    psutil.PROCFS_PATH = "/proc"
    socks, missing, d = open_sockets(workdir)
    problems = []
    try:
        pid = os.getpid()
        mine = {e["fd"]: e for e in socks}

        def expected_row(e, with_pid):
            if e["cls"] == "unix":
                ty = e["sock"].type
                row = [e["fd"], T("AddressFamily", 1), T("SocketKind", int(ty)), B(e["path"] or b""), B(b""), B(b"NONE")]
            else:
                fam = socket.AF_INET if e["fam"] == 2 else socket.AF_INET6
                la = [B(socket.inet_pton(fam, e["laddr"][0])), e["laddr"][1]]
                ra = [B(socket.inet_pton(fam, e["raddr"][0])), e["raddr"][1]] if e["raddr"] else {"t": "Empty", "a": []}
                row = [e["fd"], T("AddressFamily", e["fam"]), T("SocketKind", 1 if e["cls"] == "tcp" else 2), la, ra,
                       B(e["status"].encode())]
            if with_pid:
                row.append(pid)
            return row
        for kind, adm in KIND_ADMITS.items():
            want_fds = [e for e in socks if (e["fam"], e["cls"]) in adm]
            for per_process in (True, False):
                try:
                    rows = (psutil.Process(pid).net_connections(kind) if per_process else psutil.net_connections(kind))
                except Exception as ex:  # noqa
                    problems.append("%s net_connections(%r) over the real /proc raised %r" % ("Process" if per_process else "system", kind, ex))
                    continue
                conv = (conv_rows_proc if per_process else conv_rows_sys)(rows)
                got = [r for r in conv if isinstance(r, list) and r[0] in mine and (per_process or r[6] == pid)]
                want = [expected_row(e, not per_process) for e in want_fds]
                key = lambda r: repr(r)  # noqa
                if sorted(got, key=key) != sorted(want, key=key):
                    problems.append("%s net_connections(%r) over the real /proc: got %r, the sockets we opened are %r"
                                    % ("Process" if per_process else "system", kind, sorted(got, key=key), sorted(want, key=key)))
    finally:
        close_sockets(socks, d)
        psutil.PROCFS_PATH = saved
    return problems, missing
