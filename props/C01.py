"""C01 -- signals and setters never reach a recycled PID or a process group."""
from props import _proc_common as PC
from props._proc_common import coq_struct, coq_term, impl_run, impl_setup  # noqa: F401  (interface of pv.core)

ID = "C01"
COQ_REQUIRE = PC.COQ_REQUIRE
COQ_DIRS = PC.COQ_DIRS
RULE = ("histories of kernel events (spawn/exit->zombie/reap/PID reuse by a live process or a zombie/clock step) and psutil "
        "calls over PIDs {0,1,2,3,7,2^31-1} (Process() also on -1,-7,5,2^31,2^64), start ticks from 21 values (bases 0..2^40, 10^12, each +0/+1/+2) with PID reuse at adjacent ticks (p=0.6), process names with 0-3 blanks/parentheses/15 bytes, thread-count changes, incl. adjacent "
        "ticks, drawn from a weighted grammar with motifs 'process ends, 0-2 queries (is_running/ppid/process_iter/"
        "create_time/boot_time/==/hash), PID reused or not, then a signal or setter on the old object' and 'clock step + "
        "boot_time() + second object'; 150 live cases per quick run: 3-8 setter calls through the real C extension on a throw-away child, CPU numbers/nice/ionice/rlimit values at the 2^31, 2^32, 2^40, 2^63, 2^64 boundaries (k*2^32 + eligible CPU etc.), kernel-side mask/nice/ioprio/limits read back; PID 7 is the PID psutil was imported under (os.getpid() patched during import: forked-child situation); wait() caching the exit code then PID reuse; process_iter() generators suspended between PIDs while other events happen; two-step calls whose window holds kernel events applied by the fake kernel at the moment psutil issues its system call (reap+respawn = the inherent TOCTOU, exit, reap, thread, clock, nothing); psutil.Popen objects whose child is already gone; guarded calls inside (nested) oneshot() blocks before/after exit+reuse, as_dict(); 30% of objects are psutil.Popen over a stub subprocess.Popen; every signal method and setter with valid and invalid arguments. Class = most specific "
        "feature reached (set-reused-after-gone, set-reused, pid0, set-gone, set-zombie, ...). Non-trivial = some signal/"
        "setter/query on an object was executed; distinct = distinct canonical history.")
TRUSTED = PC.TRUSTED
ASSUMPTIONS = PC.ASSUMPTIONS
EXHAUSTIVE = {"thorough": "all well-formed histories of length 6 over {spawn 5@100, spawn 5@900, exit 5, reap 5, Process(5), "
                          "is_running(o0), kill(o0), nice(o0,1)} that start with spawn 5@100; Process(5)"}
SPEC_KINDS = ("set", "new", "race")
N = {"quick": 750, "thorough": 12000, "search": 2500}


def _alphabet(sh):
    evs = []
    if 5 not in sh.table:
        for s in (100, 900):
            if s not in sh.starts.get(5, ()):
                evs.append(["spawn", 5, s, 1])
    else:
        evs += [["exit", 5], ["reap", 5], ["new", 5]]
    evs += [["isrun", 0], ["set", 0, ["kill"]], ["set", 0, ["nice", 1]]]
    return evs


def gen_cases(rng, tier):
    cases = []
    for _ in range(N[tier]):
        cases.append(PC.gen_history(rng, rng.choice([6, 12, 20, 30, 45]), "c01"))
    cases += PC.gen_live(rng, {"quick": 150, "thorough": 3000, "search": 400}[tier])
    if tier == "thorough":
        pre = [["spawn", 5, 100, 1], ["new", 5]]
        for tail in _enum_after(pre, 4):
            cases.append({"kind": "hist", "cls": "exhaustive", "evs": pre + tail})
    return cases


def _enum_after(pre, depth):
    out = []

    def rec(evs, left):
        if left == 0:
            out.append(list(evs))
            return
        sh = PC.Shadow()
        for e in pre + evs:
            sh.apply(e)
        for e in _alphabet(sh):
            evs.append(e)
            rec(evs, left - 1)
            evs.pop()
    rec([], depth)
    return out


def judge(case, coq, impl):
    return PC.judge_history(case, coq, impl, SPEC_KINDS, "signal/setter answer or effect")


MANIFEST = {
    "text": "Theorems (Coq, over ALL well-formed histories of spawn/exit/reap/PID-reuse/clock-step events and interleaved psutil calls, "
            "any length): a signal or setter on an object whose process has left the table while the PID has a new owner raises "
            "NoSuchProcess and attempts no system call; with no owner it raises NoSuchProcess (ValueError for invalid arguments) and "
            "nothing is delivered; no os.kill is ever attempted with pid <= 0, Process(negative) is a ValueError, a signal on a PID-0 "
            "object is refused; each call attempts at most one system call, exactly (pid of the object, requested signal/value), and "
            "a delivered one is received by the very process the object was created for. Through the real C extension (Proc/Live.v, C conversions "
            "with explicit widths): cpu_affinity([n]) sets exactly {n} or raises ValueError with the mask unchanged for EVERY integer n (no "
            "wrap-around at 2^31/2^32/2^40/2^63); nice/ionice/rlimit set exactly or raise with nothing changed. The call is also modelled in two steps "
            "(identity probe, kernel events in the window, system call): with no event in the window it equals the atomic call; with a "
            "reap+spawn in the window delivery to the new owner is a proved counterexample (inherent TOCTOU), while 'at most one system "
            "call, naming exactly the object's PID and value' holds for every window. Objects include psutil.Popen with a child "
            "already gone. process_iter()'s b70d950 branch is proved unreachable when no generator is resumed between other calls, and reached (witness) with a suspended generator. The model (coq/Proc/Model.v) is tied to the "
            "code by running both on generated histories over a fake /proc with recorded system calls.",
    "note": "Trusted: Coq kernel + vm_compute; hand-written model coq/Proc/Model.v (tied by the correspondence run only); ghost "
            "incarnations and demanded answers in coq/Proc/Spec.v; harness (fake /proc, recorders for os.kill/setpriority/ioprio_set/"
            "sched_setaffinity/prlimit); each psutil call atomic w.r.t. kernel events; distinct start ticks per PID.",
}
