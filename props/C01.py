"""C01 -- signals and setters never reach a recycled PID or a process group."""
from props import _proc_common as PC
from props._proc_common import coq_struct, coq_term, impl_run, impl_setup  # noqa: F401  (interface of pv.core)

ID = "C01"
COQ_REQUIRE = PC.COQ_REQUIRE
COQ_DIRS = PC.COQ_DIRS
RULE = ("histories of kernel events (spawn/exit->zombie/reap/PID reuse by a live process or a zombie/clock step) and psutil "
        "calls over PIDs {0,1,2,3,7,2^31-1} (Process() also on -1,-7,5,2^31,2^64), start ticks from 21 values (bases 0..2^40, 10^12, each +0/+1/+2) with PID reuse at adjacent ticks (p=0.6), process names with 0-3 blanks/parentheses/15 bytes, thread-count changes, incl. adjacent "
        "ticks, drawn from a weighted grammar with motifs 'process ends, 0-2 queries (is_running/ppid/process_iter/"
        "create_time/boot_time/==/hash), PID reused or not, then a signal or setter on the old object' and 'clock step + "
        "boot_time() + second object'; copies of Process objects (copy.copy / copy.deepcopy / pickle round trip / pickle dumped while alive and loaded after the PID was recycled; what the tree under test supports is probed) made from live and from stale originals, then ==/hash/is_running/signals/setters on the copy; 18% of all cases run in workers started with python -O (3/4) or -OO (asserts stripped) plus a systematic recycled-PID block (every signal method and setter, Process and Popen, live and zombie reuse, no is_running() since; normal and -O/-OO); 150 live cases per quick run: 3-8 setter calls through the real C extension on a throw-away child, CPU numbers/nice/ionice/rlimit values at the 2^31, 2^32, 2^40, 2^63, 2^64 boundaries (k*2^32 + eligible CPU etc.), kernel-side mask/nice/ioprio/limits read back; PID 7 is the PID psutil was imported under (os.getpid() patched during import: forked-child situation); wait() caching the exit code then PID reuse; process_iter() generators suspended between PIDs while other events happen; two-step calls whose window holds kernel events applied by the fake kernel at the moment psutil issues its system call (reap+respawn = the inherent TOCTOU, exit, reap, thread, clock, nothing); psutil.Popen objects whose child is already gone; guarded calls inside (nested) oneshot() blocks before/after exit+reuse, as_dict(); 30% of objects are psutil.Popen over a stub subprocess.Popen; every signal method and setter with valid and invalid arguments. Class = most specific "
        "feature reached (set-reused-after-gone, set-reused, pid0, set-gone, set-zombie, ...). Non-trivial = some signal/"
        "setter/query on an object was executed; distinct = distinct canonical history.")
TRUSTED = PC.TRUSTED
ASSUMPTIONS = PC.ASSUMPTIONS
EXHAUSTIVE = {"thorough": "all well-formed histories of length 6 over {spawn 5@100, spawn 5@900, exit 5, reap 5, Process(5), "
                          "is_running(o0), kill(o0), nice(o0,1)} that start with spawn 5@100; Process(5)"}
SPEC_KINDS = ("set", "new", "race")
N = {"quick": 650, "thorough": 12000, "search": 2500}


def _alphabet(sh):
    evs = []
    if 5 not in sh.table:
        for s in (100, 900):
            if s not in sh.starts.get(5, ()):
                evs.append(["spawn", 5, s, 1])
    else:
        evs += [["exit", 5], ["reap", 5], ["new", 5]]
    evs += [["isrun", 0], ["set", 0, ["kill"]], ["set", 0, ["nice", 1]]]
    return evs


# functions on the path of the guard: every `assert` in them is dumped into coq/Gen/C01_Tables.v on every run
GUARD_FUNCTIONS = {
    "psutil/__init__.py": ["Process.__init__", "Process._init", "Process._get_ident", "Process.__eq__", "Process.__ne__",
                           "Process.__hash__", "Process._raise_if_pid_reused", "Process.is_running", "Process.ppid",
                           "Process.nice", "Process.ionice", "Process.rlimit", "Process.cpu_affinity", "Process._send_signal",
                           "Process.send_signal", "Process.suspend", "Process.resume", "Process.terminate", "Process.kill",
                           "Process.wait", "Process.oneshot", "Process.as_dict", "Process.create_time", "Popen.__init__",
                           "Popen.__getattribute__", "Popen.wait", "process_iter", "wait_procs", "pids", "boot_time"],
    "psutil/_psposix.py": ["pid_exists", "wait_pid"],
    "psutil/_pslinux.py": ["wrap_exceptions", "Process.__init__", "Process._is_zombie", "Process._raise_if_zombie",
                           "Process._parse_stat_file", "Process._read_status_file", "Process.create_time", "Process.ppid",
                           "Process.nice_set", "Process.ionice_set", "Process.rlimit", "Process.cpu_affinity_set",
                           "Process._get_eligible_cpus", "Process.wait", "Process.oneshot_enter", "Process.oneshot_exit",
                           "pids", "boot_time"],
    "psutil/_common.py": ["memoize_when_activated", "open_binary", "cat", "bcat"],
}


def gen_tables(impl_dir, out_dir):
    """coq/Gen/C01_Tables.v: every assert statement in the functions of the guard path of the tree under test (ast), with
    a flag: does evaluating it possibly DO something (a Call, :=, await, yield anywhere in the statement)?  Under
    python -O these statements vanish; Properties/C01.v proves from this table that none of them does anything."""
    import ast
    import os

    from pv import gallina as G
    PC.probe_copy_support(impl_dir)
    rows, scanned = [], []
    for rel, wanted in sorted(GUARD_FUNCTIONS.items()):
        src = open(os.path.join(impl_dir, rel)).read()
        tree = ast.parse(src)
        found = {}

        def visit(node, prefix):
            for ch in ast.iter_child_nodes(node):
                if isinstance(ch, ast.ClassDef):
                    visit(ch, prefix + ch.name + ".")
                elif isinstance(ch, (ast.FunctionDef, ast.AsyncFunctionDef)):
                    found.setdefault(prefix + ch.name, []).append(ch)
                elif isinstance(ch, (ast.If, ast.Try, ast.With)):
                    visit(ch, prefix)        # definitions under "if POSIX:" etc.

        visit(tree, "")
        for q in wanted:
            if q not in found:
                raise RuntimeError("C01 assert table: function %s not found in %s (renamed? update GUARD_FUNCTIONS)" % (q, rel))
            for fn in found[q]:
                scanned.append((rel, q))
                for node in ast.walk(fn):       # nested functions (decorator wrappers) included
                    if isinstance(node, ast.Assert):
                        effect = any(isinstance(x, (ast.Call, ast.NamedExpr, ast.Await, ast.Yield, ast.YieldFrom))
                                     for x in ast.walk(node))
                        rows.append((rel, q, " ".join(ast.get_source_segment(src, node).split()), effect))

    def row(r):
        return "(%s, %s, %s, %s) (* %s %s: %s *)" % (G.by(r[0]), G.by(r[1]), G.by(r[2]), G.bo(r[3]), r[0], r[1],
                                                     r[2].replace("*)", "* )"))
    txt = ("(* GENERATED by props/C01.py (ast) from the tree under test. Do not edit. *)\n"
           "From PV Require Import Base.Prelude.\n\n"
           "(* every assert statement in the functions on the path of the PID-reuse guard:\n"
           "   (file, function, statement, evaluating it may have an effect: Call / := / await / yield inside) *)\n"
           "Definition guard_asserts : list (list Z * list Z * list Z * bool) :=\n  [%s].\n\n"
           "(* the functions that were scanned (nested definitions included) *)\n"
           "Definition guard_functions : list (list Z * list Z) :=\n  [%s].\n"
           % (";\n   ".join(row(r) for r in rows),
              ";\n   ".join("(%s, %s) (* %s %s *)" % (G.by(a), G.by(b), a, b) for a, b in scanned)))
    os.makedirs(out_dir, exist_ok=True)
    path = os.path.join(out_dir, "C01_Tables.v")
    old = open(path).read() if os.path.exists(path) else None
    if old != txt:
        with open(path + ".tmp", "w") as f:
            f.write(txt)
        os.replace(path + ".tmp", path)
    return path


def _recycled_block():
    """the systematic block: PID recycled (by a live process / by a zombie), NO is_running() since, then each guarded call"""
    out = []
    setters = [["kill"], ["terminate"], ["suspend"], ["resume"], ["signal", 15], ["nice", 1], ["ionice", 2, 4], ["rlimit", 7, [1, 2]],
               ["affinity", [0]]]
    for s in setters:
        for ctor in ("new", "popen"):
            for zombie in (False, True):
                evs = [["spawn", 5, 100, 1, "a b"], [ctor, 5]] + ([["exit", 5]] if zombie else []) + \
                      [["reap", 5], ["spawn", 5, 101, 1, "c"]] + ([["exit", 5]] if zombie else []) + [["set", 0, s], ["race", 0, s, []]]
                out.append({"kind": "hist", "cls": "recycled-block", "evs": evs})
    return out


def gen_cases(rng, tier):
    from pv import core
    cases = []
    for _ in range(N[tier]):
        cases.append(PC.gen_history(rng, rng.choice([6, 12, 20, 30, 45]), "c01"))
    cases += PC.gen_live(rng, {"quick": 150, "thorough": 3000, "search": 400}[tier])
    # interpreter modes: the guard must not live in an assert -- python -O / -OO strip them
    core.assign_pyflags(cases, rng, modes=(("-O",), ("-O",), ("-O",), ("-OO",)), frac=0.18)
    block = _recycled_block()
    for i, c in enumerate(block):
        cases.append(dict(c))
        cases.append(dict(c, pyflags=["-OO"] if i % 9 == 0 else ["-O"]))
    if tier == "thorough":
        pre = [["spawn", 5, 100, 1], ["new", 5]]
        for tail in _enum_after(pre, 4):
            cases.append({"kind": "hist", "cls": "exhaustive", "evs": pre + tail})
    return cases


def _enum_after(pre, depth):
    out = []

    def rec(evs, left):
        if left == 0:
            out.append(list(evs))
            return
        sh = PC.Shadow()
        for e in pre + evs:
            sh.apply(e)
        for e in _alphabet(sh):
            evs.append(e)
            rec(evs, left - 1)
            evs.pop()
    rec([], depth)
    return out


def judge(case, coq, impl):
    return PC.judge_history(case, coq, impl, SPEC_KINDS, "signal/setter answer or effect")


MANIFEST = {
    "text": "Theorems (Coq, over ALL well-formed histories of spawn/exit/reap/PID-reuse/clock-step events and interleaved psutil calls, "
            "any length): a signal or setter on an object whose process has left the table while the PID has a new owner raises "
            "NoSuchProcess and attempts no system call; with no owner it raises NoSuchProcess (ValueError for invalid arguments) and "
            "nothing is delivered; no os.kill is ever attempted with pid <= 0, Process(negative) is a ValueError, a signal on a PID-0 "
            "object is refused; each call attempts at most one system call, exactly (pid of the object, requested signal/value), and "
            "a delivered one is received by the very process the object was created for. The assert statements of the guard path are dumped (ast) from the tree under test on every run and proved call-free, and the model with the asserts stripped is proved equal, so the theorems hold under python -O too. Through the real C extension (Proc/Live.v, C conversions "
            "with explicit widths): cpu_affinity([n]) sets exactly {n} or raises ValueError with the mask unchanged for EVERY integer n (no "
            "wrap-around at 2^31/2^32/2^40/2^63); nice/ionice/rlimit set exactly or raise with nothing changed. The call is also modelled in two steps "
            "(identity probe, kernel events in the window, system call): with no event in the window it equals the atomic call; with a "
            "reap+spawn in the window delivery to the new owner is a proved counterexample (inherent TOCTOU), while 'at most one system "
            "call, naming exactly the object's PID and value' holds for every window. Objects include psutil.Popen with a child "
            "already gone. process_iter()'s b70d950 branch is proved unreachable when no generator is resumed between other calls, and reached (witness) with a suspended generator. The model (coq/Proc/Model.v) is tied to the "
            "code by running both on generated histories over a fake /proc with recorded system calls.",
    "note": "Trusted: Coq kernel + vm_compute; hand-written model coq/Proc/Model.v (tied by the correspondence run only); ghost "
            "incarnations and demanded answers in coq/Proc/Spec.v; harness (fake /proc, recorders for os.kill/setpriority/ioprio_set/"
            "sched_setaffinity/prlimit); each psutil call atomic w.r.t. kernel events; distinct start ticks per PID.",
}
