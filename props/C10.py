"""C10 -- nowrap=True counters never decrease while their device stays present."""
import itertools
import os

from pv import gallina as G
from pv.canon import B, T, outcome

ID = "C10"
COQ_REQUIRE = "C10.Run"
RULE = ("call sequences of 1-14 steps drawn from an evolving fake kernel: 1-4 devices x (1-3 counters for the direct "
        "wrap_numbers API, 8 net / 9 disk counters through psutil.net_io_counters / disk_io_counters over generated "
        "/proc/net/dev and /proc/diskstats); per step every counter goes up, stays, goes backwards (to a smaller value or 0), "
        "devices vanish / reappear / all vanish, cache_clear(name) / cache_clear() are interleaved, nowrap and pernic/perdisk "
        "alternate, two function names are interleaved; values include 2^32-1, 2^64-1, 10^20; steps are executed on two real "
        "threads in a scripted alternation, two free-running threads drive the two names concurrently, and three-thread schedules "
        "over both functions (rounds of solo call | clear | two overlapping calls whose wrap steps come in either order, while a third "
        "thread clears a cache or makes a nowrap=False call between the platform reads and the wrap steps; the platform read is replaced "
        "by a scripted kernel and is the pre-emption point; monotone and wrapping kernels) are replayed deterministically. Pre-emption "
        "part: a cache_clear() by a second thread at EVERY line of _WrapNumbers.run() of a call in flight (settrace), all points "
        "enumerated per case, answers demanded to be those of one of the two orders of the two operations. Exception part: an OSError "
        "raised at EVERY line of run() of one call (direct API, then further polls; state and answers compared with the abort-point model), "
        "and debug mode on with sys.stderr failing at its k-th write (ENOSPC/EPIPE/EIO/closed, every k) through the public functions. "
        "Fork part: histories crossing os.fork() (wraps recorded before the fork, the child continues the polls over its own fake /proc "
        "and reports through a pipe, the parent continues too; also a fork while another thread is stopped inside wrap_numbers()/run() "
        "with the locks held; no answer within 5 s = hang = violation). "
        "Width part: "
        "tuples that shrink (answered) or grow (IndexError) under one name, judged against the total specification. Exhaustive part: all sequences over one device x 1 counter with readings "
        "{absent,0,1,2} and cache_clear. A case is non-trivial when it has at least two nowrap=True calls under one name; "
        "distinct = distinct canonical case hash.")
TRUSTED = ["source translator props/_c10_tables.py (ast dump of the commit sections of _WrapNumbers) and the list safe_ops of non-raising operations",
           "correspondence harness props/C10.py + pv/ (fake /proc/net/dev, /proc/diskstats, /sys/block through pv.shim, thread hand-off)",
           "hand-written model coq/C10/Model.v of _WrapNumbers and the two callers (tied by the correspondence run only)",
           "the reading of the property text as the ghost specification coq/C10/Spec.v"]
ASSUMPTIONS = ["run() and cache_clear() are atomic (they execute under _WrapNumbers.lock); a nowrap=True public call holds "
               "_nowrap_lock from its platform read to the end of its wrap step (commit 3202409) -- the locks themselves are "
               "exercised by the threaded cases and attacked at every line of run() by the pre-emption cases, not proved",
               "threads: pre-emption is modelled between the platform read and the wrap step of a call (the wrap step and cache_clear "
               "are atomic under _wn.lock; presentation works on the thread's own dict); overlapping operations may take effect in "
               "either order (linearisation at the wrap step)",
               "direct API: what a call sequence does AFTER a caught IndexError (tuple longer than its predecessor) is outside the model "
               "(the reminders are then partially updated; witness in notes/design/C10.md); unreachable through the public functions",
               "cache_info() returns the live dicts, not copies; the observation is what they show at the call",
               "fork: only forks of the polling process itself are modelled (children do not fork again); a fork while another thread is "
               "inside the call is tested (hang / answers), not modelled in the thread machine",
               "exception-atomicity of run() rests on its commit section containing only operations that cannot raise (checked on the "
               "source by the generated table); IndexError from a tuple longer than its predecessor and asynchronous exceptions "
               "(KeyboardInterrupt, MemoryError) are outside the model",
               "the three dicts of _WrapNumbers are keyed by the same names (modelled as one map; checked on every cache_info())",
               "CPython dict/defaultdict/set/int semantics are modelled, not verified",
               "device present = key present in the dict passed under that name (alternating perdisk changes the key set: observation)"]
EXHAUSTIVE = {"quick": "all 780 sequences of length <=4 over one device, one counter, readings {absent,0,1,2} + cache_clear",
              "thorough": "all 19530 sequences of length <=6 over one device/one counter/readings {absent,0,1,2}+clear, and all 11110 "
                          "sequences of length <=4 over two devices, readings {absent,0,1}+clear"}
# model parameter: False = code as it is now (commit e278b23: the wrap step also sees an empty listing);
# True = the code before that repair (empty raw dict returned before the wrap step)
LEGACY_EMPTY = False
# model of record for the two-thread cases: False = code as it is now (platform read outside any lock: every
# well-formed schedule is realisable); True = after notes/fixes/C10-read-under-lock.diff (_nowrap_lock held
# from the read to the end of the wrap step: an overlapping nowrap=True read waits)
LOCKED = True
SHARD = 120
CASE_TIMEOUT = 90      # a 'preempt' case enumerates all pre-emption points of one call (0.05 s each when the clear blocks)
MAXPOINTS = 300

NET_NAMES = ["lo", "eth0", "wlan0", "eth0:1", "a:b"]
DISK_NAMES = ["sda", "sda1", "nvme0n1", "nvme0n1p2", "cciss/c0d0"]
WN_KEYS = ["disk1", "disk2", "d3", "x"]
WN_NAMES = ["disk_io", "net_io", "psutil.net_io_counters"]
BIG = [2 ** 32 - 1, 2 ** 32, 2 ** 64 - 1, 10 ** 20]


# ------------------------------------------------------------------ generators
class Kernel:
    """Evolving raw counters of one function's devices."""

    def __init__(self, rng, names, width, big, p_vanish=0.15, scale=None):
        self.rng, self.names, self.width, self.big = rng, names, width, big
        self.cur, self.present = {}, set()
        self.p_vanish = p_vanish
        self.scale = scale or {}

    def fresh(self):
        r = self.rng
        base = [0, 1, 2, 5, 10, 50, 100, 1000] + (BIG if self.big else [])
        return [r.choice(base) for _ in range(self.width)]

    def snapshot(self, force_empty=False):
        r = self.rng
        if force_empty:
            self.present.clear()
            return []
        for k in self.names:
            if k in self.present:
                if r.random() < self.p_vanish:
                    self.present.discard(k)
            elif r.random() < 0.6:
                self.present.add(k)
                if k not in self.cur or r.random() < 0.6:
                    self.cur[k] = self.fresh()
        for k in self.present:
            new = []
            for v in self.cur[k]:
                x = r.random()
                if x < 0.35:
                    nv = v + r.choice([1, 2, 5, 100])
                elif x < 0.55:
                    nv = v
                elif x < 0.85:
                    nv = r.randint(0, v) if v > 0 else 0
                elif x < 0.95:
                    nv = 0
                else:
                    nv = r.choice(BIG) if self.big else v + 7
                new.append(nv)
            self.cur[k] = new
        order = [k for k in self.names if k in self.present]
        if r.random() < 0.3:
            r.shuffle(order)
        return [[k, [v * self.scale.get(i, 1) for i, v in enumerate(self.cur[k])]] for k in order]


def _features(calls):
    """calls: list of (name, nowrap, snapshot) / ('clear', name). Returns a class tag."""
    hist = {}
    feats = set()
    for c in calls:
        if c[0] == "clear":
            feats.add("clear")
            if c[1] is None:
                hist.clear()
            else:
                hist.pop(c[1], None)
            continue
        name, nowrap, snap = c
        if not nowrap:
            feats.add("mixed-nowrap")
            continue
        h = hist.setdefault(name, {"prev": None, "seen": set(), "wraps": {}})
        d = dict((k, v) for k, v in snap)
        if not d:
            feats.add("empty")
        if h["prev"] is not None:
            for k, vals in d.items():
                if k in h["prev"]:
                    for i, (a, b) in enumerate(zip(vals, h["prev"][k])):
                        if a < b:
                            n = h["wraps"].get((k, i), 0) + 1
                            h["wraps"][(k, i)] = n
                            feats.add("dwrap" if n > 1 else "wrap")
                            if k in h.get("re", set()):
                                feats.add("reappear-wrap")
                elif k in h["seen"]:
                    feats.add("reappear")
                    h.setdefault("re", set()).add(k)
            for k in h["prev"]:
                if k not in d:
                    for kk in [x for x in h["wraps"] if x[0] == k]:
                        del h["wraps"][kk]
        h["prev"] = d
        h["seen"] |= set(d)
    n_true = {}
    for c in calls:
        if c[0] != "clear" and c[1]:
            n_true[c[0]] = n_true.get(c[0], 0) + 1
    if not n_true or max(n_true.values()) < 2:
        return "trivial"
    for f in ("empty", "reappear-wrap", "dwrap", "reappear", "clear", "mixed-nowrap", "wrap"):
        if f in feats:
            return f
    return "plain"


def _gen_pub(rng, threads=False, want_empty=False):
    fns = rng.choice([["net"], ["disk"], ["net", "disk"], ["net", "disk"]])
    big = rng.random() < 0.25
    kern = {}
    for fn in fns:
        pool = NET_NAMES if fn == "net" else DISK_NAMES
        names = rng.sample(pool, rng.choice([1, 1, 2, 3, 4]))
        kern[fn] = Kernel(rng, names, 8 if fn == "net" else 9, big, p_vanish=rng.choice([0.0, 0.15, 0.3]),
                          scale={2: 512, 3: 512} if fn == "disk" else None)
    n = rng.randint(2, 14)
    mixed = rng.random() < 0.3
    totals = rng.random() < 0.3
    ops, calls = [], []
    for _ in range(n):
        fn = rng.choice(fns)
        tid = rng.randint(0, 1) if threads else 0
        if rng.random() < 0.08:
            ops.append(["clear", fn, tid])
            calls.append(("clear", fn))
            continue
        nowrap = (rng.random() < 0.6) if mixed else True
        per = (rng.random() < 0.6) if totals else True
        empty = (rng.random() < (0.3 if want_empty else 0.015)) and len(ops) > 0
        snap = kern[fn].snapshot(force_empty=empty)
        ops.append(["call", fn, per, nowrap, snap, tid])
        calls.append((fn, nowrap, snap))
    cls = _features(calls)
    return {"kind": "pub", "cls": ("pub-thr-" if threads else "pub-") + cls if cls != "trivial" else "trivial",
            "ops": ops, "threads": threads}


def _gen_wn(rng, threads=False, malformed=False):
    names = rng.sample(WN_NAMES, rng.choice([1, 1, 2, 3]))
    big = rng.random() < 0.25
    widths = {nm: rng.choice([1, 1, 2, 3]) for nm in names}
    kern = {nm: Kernel(rng, rng.sample(WN_KEYS, rng.choice([1, 2, 2, 3, 4])), widths[nm], big,
                       p_vanish=rng.choice([0.0, 0.2, 0.35])) for nm in names}
    n = rng.randint(2, 14)
    ops, calls = [], []
    for _ in range(n):
        nm = rng.choice(names)
        tid = rng.randint(0, 1) if threads else 0
        x = rng.random()
        if x < 0.07:
            ops.append(["clear", nm, tid])
            calls.append(("clear", nm))
            continue
        if x < 0.09:
            ops.append(["clearall", tid])
            calls.append(("clear", None))
            continue
        if x < 0.11:
            ops.append(["clear", "never-used", tid])
            continue
        snap = kern[nm].snapshot(force_empty=rng.random() < 0.02)
        if malformed and snap and rng.random() < 0.35:
            k = rng.randrange(len(snap))
            snap[k][1] = snap[k][1] + [3] if rng.random() < 0.6 else snap[k][1][:-1]
        ops.append(["run", nm, snap, tid])
        calls.append((nm, True, snap))
    cls = _features(calls)
    if malformed:
        cls = "malformed"
    return {"kind": "wn", "cls": ("wn-thr-" if threads and cls != "malformed" else "wn-") + cls if cls != "trivial" else "trivial",
            "widths": widths, "ops": ops, "threads": threads}


def _gen_conc(rng, api):
    """two free-running threads, one function name each"""
    if api == "pub":
        ka = Kernel(rng, rng.sample(NET_NAMES, 2), 8, False, p_vanish=0.1)
        kb = Kernel(rng, rng.sample(DISK_NAMES, 2), 9, False, p_vanish=0.1, scale={2: 512, 3: 512})
        a = [["call", "net", True, True, ka.snapshot(), 0] for _ in range(rng.randint(4, 12))]
        b = [["call", "disk", True, True, kb.snapshot(), 1] for _ in range(rng.randint(4, 12))]
        if rng.random() < 0.4:
            a.insert(rng.randint(1, len(a)), ["clear", "net", 0])
        # keep the free-running cases out of the empty-snapshot class
        a = [o for o in a if o[0] == "clear" or o[4]]
        b = [o for o in b if o[0] == "clear" or o[4]]
        return {"kind": "conc", "api": "pub", "cls": "conc-pub", "a": a, "b": b}
    ka = Kernel(rng, rng.sample(WN_KEYS, 2), 2, False, p_vanish=0.1)
    kb = Kernel(rng, rng.sample(WN_KEYS, 2), 3, False, p_vanish=0.1)
    a = [["run", "A", ka.snapshot(), 0] for _ in range(rng.randint(8, 30))]
    b = [["run", "B", kb.snapshot(), 1] for _ in range(rng.randint(8, 30))]
    if rng.random() < 0.4:
        b.insert(rng.randint(1, len(b)), ["clear", "B", 1])
    return {"kind": "conc", "api": "wn", "cls": "conc-wn", "widths": {"A": 2, "B": 3}, "a": a, "b": b}


def _gen_race(rng):
    """rounds of: solo call | clear | two overlapping calls (read A, read B, wraps in either order); a third
    thread may act between the reads and the wrap steps: cache_clear or a nowrap=False call"""
    fns = rng.choice([["net"], ["net"], ["disk"], ["net", "disk"], ["net", "disk"]])
    kern = {}
    for fn in fns:
        pool = NET_NAMES if fn == "net" else DISK_NAMES
        kern[fn] = Kernel(rng, rng.sample(pool, rng.choice([1, 1, 2])), 8 if fn == "net" else 9, False,
                          p_vanish=rng.choice([0.0, 0.0, 0.15]), scale={2: 512, 3: 512} if fn == "disk" else None)
    monotone = rng.random() < 0.5      # the kernel counters only ever go up
    rounds, nread, overlap, midclear = [], {fn: 0 for fn in fns}, False, False

    def mids(free):
        out = []
        for _ in range(rng.choice([0, 0, 1, 1, 2])):
            c = rng.choice(free)
            if rng.random() < 0.5:
                out.append(["clear", c, rng.choice(fns)])
            else:
                fn = rng.choice(fns)
                nread[fn] += 1
                out.append(["call", c, fn, rng.random() < 0.7])
        return out
    for _ in range(rng.randint(2, 6)):
        x = rng.random()
        if x < 0.1:
            rounds.append(["clear", rng.randint(0, 2), rng.choice(fns)])
        elif x < 0.45:
            t = rng.randint(0, 2)
            fn = rng.choice(fns)
            nread[fn] += 1
            nw = rng.random() < 0.9
            m = mids([u for u in range(3) if u != t])
            midclear = midclear or (nw and any(x[0] == "clear" for x in m))
            rounds.append(["solo", t, fn, True, nw, m])
        else:
            a, b = rng.sample(range(3), 2)
            fa, fb = rng.choice(fns), rng.choice(fns)
            na, nb = rng.random() < 0.85, rng.random() < 0.85
            nread[fa] += 1
            nread[fb] += 1
            overlap = overlap or (na and nb)
            m = mids([u for u in range(3) if u not in (a, b)])
            midclear = midclear or ((na or nb) and any(x[0] == "clear" for x in m))
            rounds.append(["pair", a, fa, na, fb, nb, rng.choice(["ab", "ba"]), b, m])
    kernel = {}
    for fn in fns:
        k = kern[fn]
        if monotone:
            k.p_vanish = 0.0
        kernel[fn] = [k.snapshot() for _ in range(nread[fn])]
        if monotone:
            best = {}
            for snap in kernel[fn]:
                for kv in snap:
                    b = best.get(kv[0])
                    if b is not None:
                        kv[1] = [max(x, y) for x, y in zip(kv[1], b)]
                    best[kv[0]] = kv[1]
    cls = "race-" + ("overlap" if overlap else "serial") + ("-midclear" if midclear else "") + ("-monotone" if monotone else "")
    return {"kind": "race", "cls": cls, "rounds": rounds, "kernel": kernel}


RACE_WITNESS = {"kind": "race", "cls": "race-overlap-monotone",
                "rounds": [["solo", 0, "net", True, True], ["pair", 0, "net", True, "net", True, "ba"], ["solo", 1, "net", True, True]],
                "kernel": {"net": [[["eth0", [0, 100, 0, 0, 0, 0, 0, 0]]], [["eth0", [0, 150, 0, 0, 0, 0, 0, 0]]],
                                   [["eth0", [0, 200, 0, 0, 0, 0, 0, 0]]], [["eth0", [0, 210, 0, 0, 0, 0, 0, 0]]]]}}


def _mid_steps(m):
    out = []
    for x in m:
        if x[0] == "clear":
            out.append(("clear", x[1], x[2]))
        else:
            out += [("read", x[1], x[2], x[3], False), ("wrap", x[1])]
    return out


def _round_parts(r):
    if r[0] == "solo":
        return r[1], (r[5] if len(r) > 5 else [])
    _, a, fa, na, fb, nb, order = r[:7]
    b = r[7] if len(r) > 7 else 1 - a
    return (a, fa, na, b, fb, nb, order), (r[8] if len(r) > 8 else [])


def _race_steps(case, locked):
    """the schedule as realised: list of ('read', tid, fn, per, nowrap) / ('wrap', tid) / ('clear', tid, fn)"""
    out = []
    for r in case["rounds"]:
        if r[0] == "clear":
            out.append(("clear", r[1], r[2]))
        elif r[0] == "solo":
            t, m = _round_parts(r)
            out += [("read", t, r[2], r[3], r[4])] + _mid_steps(m) + [("wrap", t)]
        else:
            (a, fa, na, b, fb, nb, order), m = _round_parts(r)
            ra, rb = ("read", a, fa, True, na), ("read", b, fb, True, nb)
            if locked and na and nb:
                out += [ra] + _mid_steps(m) + [("wrap", a), rb, ("wrap", b)]       # b's read waits for a's lock
            else:
                out += [ra, rb] + _mid_steps(m) + ([("wrap", a), ("wrap", b)] if order == "ab" else [("wrap", b), ("wrap", a)])
    return out


def _race_term(case, locked):
    nxt = {fn: 0 for fn in case["kernel"]}
    steps = []
    for st in _race_steps(case, locked):
        if st[0] == "read":
            _, tid, fn, per, nowrap = st
            raw = case["kernel"][fn][nxt[fn]]
            nxt[fn] += 1
            steps.append("CRead %s %s %s %s %s" % (G.nat(tid), {"net": "Net", "disk": "Disk"}[fn], G.bo(per), G.bo(nowrap), _gdict(raw)))
        elif st[0] == "wrap":
            steps.append("CWrap %s" % G.nat(st[1]))
        else:
            steps.append("CClear %s %s" % (G.nat(st[1]), {"net": "Net", "disk": "Disk"}[st[2]]))
    return "run_sched %s" % G.lst(steps)


def _net8(v):
    return [0, v, 1, 2, 3, 4, 5, 6]


PREEMPT = [
    # cache_clear() racing with a call that is INSIDE _WrapNumbers.run(): every line of run() is a pre-emption point
    {"kind": "preempt", "cls": "preempt-wn", "api": "wn",
     "pre": [["run", "n", [["a", [100, 5]], ["b", [7, 7]], ["c", [1, 1]]], 0], ["run", "n", [["a", [10, 5]], ["b", [8, 7]], ["c", [0, 1]]], 0]],
     "call": ["run", "n", [["a", [5, 6]], ["b", [9, 9]]], 0], "clear": ["clear", "n", 1],
     "post": [["run", "n", [["a", [3, 6]], ["b", [10, 9]]], 0], ["run", "n", [["a", [4, 7]], ["b", [2, 9]]], 0], ["clear", "n", 0],
              ["run", "n", [["a", [1, 1]]], 0]]},
    {"kind": "preempt", "cls": "preempt-wn", "api": "wn",
     "pre": [["run", "n", [["a", [100]]], 0], ["run", "m", [["a", [9]]], 0], ["run", "n", [["a", [50]], ["z", [4]]], 0]],
     "call": ["run", "n", [["z", [3]], ["a", [60]], ["q", [0]]], 0], "clear": ["clearall", 1],
     "post": [["run", "n", [["a", [20]], ["z", [3]]], 0], ["run", "m", [["a", [1]]], 0], ["run", "n", [["a", [20]], ["z", [1]]], 0]]},
    {"kind": "preempt", "cls": "preempt-wn-first", "api": "wn", "pre": [],
     "call": ["run", "n", [["a", [5]]], 0], "clear": ["clear", "n", 1],
     "post": [["run", "n", [["a", [3]]], 0], ["run", "n", [["a", [1]]], 0]]},
    {"kind": "preempt", "cls": "preempt-pub", "api": "pub",
     "pre": [["call", "net", True, True, [["eth0", _net8(100)], ["lo", _net8(5)]], 0], ["call", "net", True, True, [["eth0", _net8(40)], ["lo", _net8(6)]], 0]],
     "call": ["call", "net", True, True, [["eth0", _net8(30)]], 0], "clear": ["clear", "net", 1],
     "post": [["call", "net", True, True, [["eth0", _net8(20)]], 0], ["call", "net", False, True, [["eth0", _net8(25)], ["lo", _net8(1)]], 0],
              ["clear", "net", 0], ["call", "net", True, True, [["eth0", _net8(2)]], 0]]},
    {"kind": "preempt", "cls": "preempt-pub", "api": "pub",
     "pre": [["call", "disk", True, True, [["sda", [9, 8, 512, 1024, 5, 4, 3, 2, 1]]], 0], ["call", "net", True, True, [["lo", _net8(5)]], 0]],
     "call": ["call", "disk", True, True, [["sda", [1, 9, 0, 1024, 5, 4, 3, 2, 0]]], 0], "clear": ["clear", "disk", 1],
     "post": [["call", "disk", True, True, [["sda", [0, 9, 0, 512, 5, 4, 3, 2, 0]]], 0], ["call", "net", True, True, [["lo", _net8(4)]], 0],
              ["call", "disk", True, True, [["sda", [0, 1, 0, 512, 5, 4, 3, 2, 0]]], 0]]},
]

# a device vanishes while OTHERS stay listed and comes back with LOWER counters (no counter ever went backwards
# while it was listed): demanded raw
VANISH_LOWER = [
    {"kind": "wn", "cls": "wn-scripted", "widths": {"disk_io": 2}, "threads": False, "ops": [
        ["run", "disk_io", [["keep", [5, 5]], ["x", [1000, 2000]]], 0], ["run", "disk_io", [["keep", [6, 5]]], 0],
        ["run", "disk_io", [["keep", [7, 6]]], 0], ["run", "disk_io", [["keep", [7, 7]], ["x", [3, 4]]], 0],
        ["run", "disk_io", [["keep", [8, 7]], ["x", [5, 4]]], 0]]},
    {"kind": "pub", "cls": "pub-scripted", "threads": False, "ops": [
        ["call", "net", True, True, [["lo", _net8(10)], ["veth0", _net8(5000)]], 0], ["call", "net", True, True, [["lo", _net8(11)]], 0],
        ["call", "net", True, True, [["lo", _net8(12)], ["veth0", _net8(7)]], 0], ["call", "net", False, True, [["lo", _net8(13)], ["veth0", _net8(9)]], 0]]},
    {"kind": "pub", "cls": "pub-scripted", "threads": False, "ops": [
        ["call", "disk", True, True, [["sda", [9, 9, 512, 512, 9, 9, 9, 9, 9]], ["sdb", [900, 800, 51200, 5120, 70, 60, 50, 40, 30]]], 0],
        ["call", "disk", True, True, [["sda", [9, 9, 512, 512, 9, 9, 9, 9, 9]]], 0],
        ["call", "disk", True, True, [["sda", [10, 9, 512, 512, 9, 9, 9, 9, 9]], ["sdb", [1, 2, 0, 512, 3, 4, 5, 6, 7]]], 0]]},
]


SAFE_OPS = ["len", "range", "tuple", "set", ".keys", ".add", ".append", ".defaultdict", "._add_dict", "._remove_dead_reminders"]
# = safe_ops of coq/C10/Spec.v (asserts before the first store of _add_dict are outside the commit section)


def _gen_inject(rng):
    """direct API: an exception injected at every line of run() of one call, then further polls.  The call has
    wrapped, unwrapped, new and (at most one, with at most one offset) vanished keys, so that every update of
    run() is an abort point and the order of the updates does not depend on set iteration."""
    w = rng.choice([1, 2])
    big = rng.choice([100, 1000, 2 ** 32])
    t = lambda *v: [v[i % len(v)] for i in range(w)]
    g0 = [big] + [3] * (w - 1)
    g1 = [rng.randint(0, big - 1)] + [3] * (w - 1)          # the key that will vanish wrapped once, in field 0
    a0, a1 = t(big, 7), t(rng.randint(1, big), 7)
    pre = [["run", "n", [["a", a0], ["b", t(5)], ["gone", g0]], 0], ["run", "n", [["a", a1], ["b", t(6)], ["gone", g1]], 0]]
    if rng.random() < 0.5:
        pre.insert(1, ["run", "other", [["a", t(9)]], 0])
    a2 = [rng.randint(0, a1[0])] + [rng.choice([0, 7, 8])] * (w - 1)
    call = ["run", "n", [["b", t(rng.choice([2, 6, 9]))], ["a", a2], ["new", t(1)]], 0]
    a3 = [rng.randint(0, a2[0] + 2)] + [8] * (w - 1)
    post = [["run", "n", [["a", a3], ["b", t(6)], ["new", t(0)]], 0], ["run", "n", [["a", a3], ["gone", t(1)]], 0]]
    if rng.random() < 0.4:
        post += [["clear", "n", 0], ["run", "n", [["a", t(1)]], 0]]
    return {"kind": "inject", "cls": "inject-wn", "pre": pre, "call": call, "post": post}


INJECT = [
    {"kind": "inject", "cls": "inject-wn", "pre": [["run", "n", [["a", [100]]], 0]], "call": ["run", "n", [["a", [10]]], 0],
     "post": [["run", "n", [["a", [10]]], 0], ["run", "n", [["a", [20]]], 0]]},
    {"kind": "inject", "cls": "inject-wn",
     "pre": [["run", "n", [["a", [100, 5]], ["gone", [50, 1]]], 0], ["run", "n", [["a", [100, 6]], ["gone", [7, 1]]], 0]],
     "call": ["run", "n", [["a", [30, 2]], ["x", [4, 4]]], 0],
     "post": [["run", "n", [["a", [30, 2]], ["gone", [1, 1]]], 0], ["run", "n", [["a", [31, 1]], ["x", [0, 4]]], 0]]},
]

DBG = [
    # debug mode on, sys.stderr failing at its k-th write: wraps, a vanishing device, further polls
    {"kind": "dbg", "cls": "dbg-pub", "ops": [
        ["call", "net", True, True, [["eth0", _net8(100)], ["lo", _net8(5)]], 0], ["call", "net", True, True, [["eth0", _net8(10)], ["lo", _net8(6)]], 0],
        ["call", "net", True, True, [["eth0", _net8(10)]], 0], ["call", "net", True, True, [["eth0", _net8(20)]], 0],
        ["call", "net", True, True, [["eth0", _net8(5)], ["lo", _net8(1)]], 0], ["call", "net", True, True, [["eth0", _net8(6)], ["lo", _net8(2)]], 0]]},
    {"kind": "dbg", "cls": "dbg-pub", "ops": [
        ["call", "disk", True, True, [["sda", [9, 8, 512, 1024, 5, 4, 3, 2, 1]], ["sdb", [5, 5, 512, 512, 5, 5, 5, 5, 5]]], 0],
        ["call", "disk", True, True, [["sda", [1, 9, 0, 1024, 5, 4, 3, 2, 0]]], 0],
        ["call", "disk", False, True, [["sda", [1, 9, 0, 1024, 5, 4, 3, 2, 0]]], 0],
        ["call", "disk", True, True, [["sda", [0, 9, 0, 512, 5, 4, 3, 2, 0]], ["sdb", [1, 1, 0, 0, 1, 1, 1, 1, 1]]], 0],
        ["call", "disk", True, True, [["sda", [0, 9, 0, 512, 5, 4, 3, 2, 0]], ["sdb", [1, 0, 0, 0, 1, 1, 1, 1, 1]]], 0]]},
]


def _gen_dbg(rng):
    c = _gen_pub(rng)
    ops = [o for o in c["ops"]][:6]
    return {"kind": "dbg", "cls": "dbg-pub", "ops": ops}


FORK = [
    # a wrap is recorded, then os.fork(): the child continues the history (raw + offsets of before the fork)
    {"kind": "fork", "cls": "fork", "pre": [["call", "net", True, True, [["eth0", _net8(100)], ["lo", _net8(5)]], 0],
                                            ["call", "net", True, True, [["eth0", _net8(10)], ["lo", _net8(6)]], 0]],
     "child": [["call", "net", True, True, [["eth0", _net8(20)], ["lo", _net8(7)]], 0], ["call", "net", True, True, [["eth0", _net8(5)], ["lo", _net8(8)]], 0]],
     "parent": [["call", "net", True, True, [["eth0", _net8(30)], ["lo", _net8(1)]], 0], ["call", "net", False, True, [["eth0", _net8(31)], ["lo", _net8(2)]], 0]]},
    {"kind": "fork", "cls": "fork", "pre": [["call", "disk", True, True, [["sda", [9, 8, 512, 1024, 5, 4, 3, 2, 1]]], 0],
                                            ["call", "net", True, True, [["lo", _net8(50)]], 0],
                                            ["call", "disk", True, True, [["sda", [1, 9, 0, 1024, 5, 4, 3, 2, 0]]], 0],
                                            ["call", "net", True, True, [["lo", _net8(4)]], 0]],
     "child": [["call", "disk", True, True, [["sda", [2, 9, 512, 1024, 5, 4, 3, 2, 0]]], 0], ["call", "net", True, True, [["lo", _net8(5)]], 0],
               ["clear", "net", 0], ["call", "net", True, True, [["lo", _net8(1)]], 0]],
     "parent": [["call", "disk", True, True, [["sda", [0, 9, 0, 512, 5, 4, 3, 2, 0]]], 0], ["call", "net", True, True, [["lo", _net8(3)]], 0]]},
    # ... while another thread is inside a nowrap=True call (holding _nowrap_lock / _nowrap_lock and _wn.lock)
    {"kind": "fork", "cls": "fork-locked", "held_at": "wrap_numbers",
     "pre": [["call", "net", True, True, [["eth0", _net8(100)]], 0], ["call", "net", True, True, [["eth0", _net8(10)]], 0]],
     "held": ["call", "net", True, True, [["eth0", _net8(12)]], 1],
     "child": [["call", "net", True, True, [["eth0", _net8(20)]], 0], ["call", "net", True, True, [["eth0", _net8(5)]], 0]],
     "parent": [["call", "net", True, True, [["eth0", _net8(30)]], 0]]},
    {"kind": "fork", "cls": "fork-locked", "held_at": "run",
     "pre": [["call", "disk", True, True, [["sda", [9, 8, 512, 1024, 5, 4, 3, 2, 1]]], 0], ["call", "disk", True, True, [["sda", [1, 9, 0, 1024, 5, 4, 3, 2, 0]]], 0]],
     "held": ["call", "disk", True, True, [["sda", [2, 9, 0, 1024, 5, 4, 3, 2, 0]]], 1],
     "child": [["call", "disk", True, True, [["sda", [3, 9, 512, 1024, 5, 4, 3, 2, 0]]], 0], ["call", "net", True, True, [["lo", _net8(1)]], 0]],
     "parent": [["call", "disk", True, True, [["sda", [0, 9, 0, 512, 5, 4, 3, 2, 0]]], 0]]},
]


def _gen_fork(rng, locked=False):
    c = _gen_pub(rng)
    calls = [o for o in c["ops"] if o[0] == "call" or True]
    while len(calls) < 5:
        calls += _gen_pub(rng)["ops"]
    calls = calls[:10]
    k = rng.randint(2, max(2, len(calls) - 2))
    pre, rest = calls[:k], calls[k:]
    j = rng.randint(0, len(rest))
    case = {"kind": "fork", "cls": "fork", "pre": pre, "child": rest[:j] + [o for o in rest[j:] if rng.random() < 0.5], "parent": rest[j:]}
    if locked:
        nw = [o for o in pre if o[0] == "call" and o[3] and o[4]]
        if nw:
            h = list(rng.choice(nw))
            h[4] = [[k2, [max(0, v - rng.choice([0, 1, 3])) for v in vals]] for k2, vals in h[4]]
            if h[1] == "disk":
                h[4] = [[k2, [v - v % 512 if i in (2, 3) else v for i, v in enumerate(vals)]] for k2, vals in h[4]]
            case.update(cls="fork-locked", held=h, held_at=rng.choice(["wrap_numbers", "run"]))
    return case


def _gen_preempt(rng, api):
    if api == "wn":
        k = Kernel(rng, rng.sample(WN_KEYS, rng.choice([2, 3])), rng.choice([1, 2]), False, p_vanish=0.3)
        mk = lambda: ["run", "n", k.snapshot(), 0]
        clear = rng.choice([["clear", "n", 1], ["clearall", 1]])
        post_clear = ["clear", "n", 0]
    else:
        fn = rng.choice(["net", "disk"])
        pool = NET_NAMES if fn == "net" else DISK_NAMES
        k = Kernel(rng, rng.sample(pool, rng.choice([1, 2])), 8 if fn == "net" else 9, False, p_vanish=0.25,
                   scale={2: 512, 3: 512} if fn == "disk" else None)
        mk = lambda: ["call", fn, True, True, k.snapshot(), 0]
        clear = ["clear", fn, 1]
        post_clear = ["clear", fn, 0]
    pre = [mk() for _ in range(rng.choice([1, 2, 3]))]
    call = mk()
    post = [mk(), mk()] + ([post_clear, mk()] if rng.random() < 0.5 else [])
    return {"kind": "preempt", "cls": "preempt-" + api, "api": api, "pre": pre, "call": call, "clear": clear, "post": post}


def _enum(nkeys, readings, maxlen):
    """all sequences over per-step options: every assignment key -> reading|absent, or cache_clear"""
    keys = WN_KEYS[:nkeys]
    opts = [("snap", combo) for combo in itertools.product([None] + readings, repeat=nkeys)] + [("clear",)]
    for n in range(1, maxlen + 1):
        for seq in itertools.product(opts, repeat=n):
            ops = []
            for o in seq:
                if o[0] == "clear":
                    ops.append(["clear", "e", 0])
                else:
                    ops.append(["run", "e", [[k, [v]] for k, v in zip(keys, o[1]) if v is not None], 0])
            nrun = sum(1 for o in ops if o[0] == "run")
            yield {"kind": "wn", "cls": "enum" if nrun >= 2 else "trivial", "widths": {"e": 1}, "ops": ops, "threads": False}


SCRIPTED = [
    # two wraps in a row, wrap right after reappearing, interleaved names, clear
    {"kind": "wn", "cls": "wn-scripted", "widths": {"disk_io": 1}, "threads": False, "ops": [
        ["run", "disk_io", [["d", [100]]], 0], ["run", "disk_io", [["d", [10]]], 0], ["run", "disk_io", [["d", [5]]], 0],
        ["run", "disk_io", [["d", [7]]], 0]]},
    {"kind": "wn", "cls": "wn-scripted", "widths": {"disk_io": 1}, "threads": False, "ops": [
        ["run", "disk_io", [["a", [1]], ["d", [100]]], 0], ["run", "disk_io", [["a", [1]], ["d", [10]]], 0],
        ["run", "disk_io", [["a", [1]]], 0], ["run", "disk_io", [["a", [1]], ["d", [50]]], 0],
        ["run", "disk_io", [["a", [1]], ["d", [20]]], 0]]},
    {"kind": "wn", "cls": "wn-scripted", "widths": {"n1": 1, "n2": 1}, "threads": True, "ops": [
        ["run", "n1", [["d", [100]]], 0], ["run", "n2", [["d", [5]]], 1], ["run", "n1", [["d", [50]]], 1],
        ["run", "n2", [["d", [6]]], 0], ["clear", "n1", 1], ["run", "n1", [["d", [1]]], 0], ["run", "n2", [["d", [0]]], 1]]},
    {"kind": "pub", "cls": "pub-scripted", "threads": False, "ops": [
        ["call", "net", True, True, [["lo", [9, 8, 7, 6, 5, 4, 3, 2]], ["eth0", [100] * 8]], 0],
        ["call", "net", True, True, [["lo", [9, 8, 7, 6, 5, 4, 3, 2]], ["eth0", [10, 100, 10, 100, 10, 100, 10, 100]]], 0],
        ["call", "net", False, True, [["lo", [9, 8, 7, 6, 5, 4, 3, 2]], ["eth0", [5, 100, 10, 100, 10, 100, 10, 0]]], 0],
        ["call", "net", True, False, [["lo", [9, 8, 7, 6, 5, 4, 3, 2]], ["eth0", [5, 100, 10, 100, 10, 100, 10, 0]]], 0]]},
]


def gen_tables(impl_dir, out_dir):
    from props import _c10_tables
    return _c10_tables.gen_tables(impl_dir, out_dir)


def gen_cases(rng, tier):
    n = {"quick": 1, "thorough": 24, "search": 4}[tier]
    cases = []
    if tier != "search":
        cases.extend(SCRIPTED)
        cases.extend(VANISH_LOWER)
        cases.extend(PREEMPT)
        cases.extend(INJECT)
        cases.extend(DBG)
        cases.extend(FORK)
        for _ in range(4 * n):
            cases.append(_gen_fork(rng))
        for _ in range(2 * n):
            cases.append(_gen_fork(rng, locked=True))
        for _ in range(3 * n):
            cases.append(_gen_inject(rng))
        for _ in range(2 * n):
            cases.append(_gen_dbg(rng))
        for _ in range(2 * n):
            cases.append(_gen_preempt(rng, "wn"))
            cases.append(_gen_preempt(rng, "pub"))
        if tier == "quick":
            cases.extend(_enum(1, [0, 1, 2], 4))
        else:
            cases.extend(_enum(1, [0, 1, 2], 6))
            cases.extend(_enum(2, [0, 1], 4))
    for _ in range(200 * n):
        cases.append(_gen_wn(rng))
    for _ in range(30 * n):
        cases.append(_gen_wn(rng, threads=True))
    for _ in range(40 * n):
        cases.append(_gen_wn(rng, malformed=True))
    for _ in range(150 * n):
        cases.append(_gen_pub(rng))
    for _ in range(30 * n):
        cases.append(_gen_pub(rng, want_empty=True))
    for _ in range(30 * n):
        cases.append(_gen_pub(rng, threads=True))
    for _ in range(8 * n):
        cases.append(_gen_conc(rng, "pub"))
        cases.append(_gen_conc(rng, "wn"))
    for _ in range(28 * n):
        cases.append(_gen_race(rng))
    return cases


# ------------------------------------------------------------------ Coq terms
def _gdict(snap):
    return G.lst(["(%s, %s)" % (G.by(k), G.zs(v)) for k, v in snap])


def _wop(o):
    if o[0] == "run":
        return "WRun %s %s" % (G.by(o[1]), _gdict(o[2]))
    if o[0] == "clear":
        return "WClear %s" % G.by(o[1])
    return "WClearAll"


def _pop(o):
    fn = {"net": "Net", "disk": "Disk"}[o[1]]
    if o[0] == "call":
        return "PCall %s %s %s %s" % (fn, G.bo(o[2]), G.bo(o[3]), _gdict(o[4]))
    return "PClear %s" % fn


def _preempt_orders(case):
    return (case["pre"] + [case["call"], case["clear"]] + case["post"],
            case["pre"] + [case["clear"], case["call"]] + case["post"])


def _ops_of(case):
    if case["kind"] == "fork":
        return case["pre"] + case["child"] + case["parent"] + ([case["held"]] if case.get("held") else [])
    if case["kind"] == "inject":
        return case["pre"] + [case["call"]] + case["post"]
    if case["kind"] == "preempt":
        return _preempt_orders(case)[0]
    return case["a"] + case["b"] if case["kind"] == "conc" else case["ops"]


def _is_pub(case):
    return case["kind"] in ("pub", "dbg", "fork") or (case["kind"] in ("conc", "preempt") and case["api"] == "pub")


def coq_term(case):
    if case["kind"] == "race":
        return "JL [%s; %s]" % (_race_term(case, False), _race_term(case, True))
    if case["kind"] == "fork":
        pl = lambda q: G.lst([_pop(o) for o in q])
        if not case.get("held"):
            return "run_fork %s %s %s" % (pl(case["pre"]), pl(case["child"]), pl(case["parent"]))
        h = [case["held"]]
        return "JL [%s]" % "; ".join("run_pub %s %s" % (G.bo(LEGACY_EMPTY), pl(q)) for q in (
            case["pre"] + case["child"], case["pre"] + h + case["child"], case["pre"] + h + case["parent"]))
    if case["kind"] == "inject":
        return "run_abort %s %s %s %s" % (G.lst([_wop(o) for o in case["pre"]]), G.by(case["call"][1]), _gdict(case["call"][2]),
                                          G.lst([_wop(o) for o in case["post"]]))
    if case["kind"] == "dbg":
        ops = case["ops"]
        seqs = [ops] + [ops[:j] + ops[j + 1:] for j in range(len(ops))]
        return "JL [%s]" % "; ".join("run_pub %s %s" % (G.bo(LEGACY_EMPTY), G.lst([_pop(o) for o in q])) for q in seqs)
    if case["kind"] == "preempt":
        if case["api"] == "pub":
            return "JL [%s]" % "; ".join("run_pub %s %s" % (G.bo(LEGACY_EMPTY), G.lst([_pop(o) for o in ops])) for ops in _preempt_orders(case))
        return "JL [%s]" % "; ".join("run_wn %s" % G.lst([_wop(o) for o in ops]) for ops in _preempt_orders(case))
    ops = _ops_of(case)
    if _is_pub(case):
        return "run_pub %s %s" % (G.bo(LEGACY_EMPTY), G.lst([_pop(o) for o in ops]))
    return "run_wn %s" % G.lst([_wop(o) for o in ops])


def _canon_info(info):
    """cache_info of the model (outcome of a list of per-name entries) -> sorted canonical form"""
    if not (isinstance(info, dict) and info.get("t") == "Val"):
        return None
    cm, rm, km = [dict((n["b"], v) for n, v in m) for m in info["a"][0]]
    out = []
    for nb in sorted(set(cm) | set(rm) | set(km)):
        if not (nb in cm and nb in rm and nb in km):
            out.append([{"b": nb}, T("InconsistentMaps", nb in cm, nb in rm, nb in km)])
            continue
        out.append([{"b": nb}, sorted(cm[nb], key=lambda kv: kv[0]["b"]), sorted(rm[nb], key=lambda x: (x[0]["b"], x[1])),
                    sorted([[k, sorted(l)] for k, l in km[nb]], key=lambda x: x[0]["b"])])
    return sorted(out, key=lambda e: e[0]["b"])


def coq_struct(case, raw):
    if case["kind"] == "fork":
        n = len(case["pre"])
        if not case.get("held"):
            # model of record: fork is the identity on the wrap state
            return {"model": {"parent": raw[0], "child": raw[1]}, "spec": {"parent": raw[2], "child": [raw[3]], "held": None}}
        cut = lambda tr, k: None if tr is None else tr[k:]
        return {"model": {"parent": raw[2][0], "child": None},
                "spec": {"parent": raw[2][1], "child": [cut(raw[0][1], n), cut(raw[1][1], n + 1)], "held": True}}
    if case["kind"] == "inject":
        # raw = [[state, answers to the follow-up calls] per abort point, demanded without the call, demanded with it]
        pts = [[_canon_info(T("Val", st)), post] for st, post in raw[0]]
        return {"model": pts, "spec": {"excluded": raw[1], "included": raw[2]}}
    if case["kind"] == "dbg":
        # raw[0] = all calls, raw[1 + j] = without call j;  [model trace, spec trace]
        return {"model": raw[0][0], "spec": {"full": raw[0][1], "without": [r[1] for r in raw[1:]]}}
    if case["kind"] == "preempt":
        # raw[0] = the call takes effect before the clear, raw[1] = after it; [model trace, spec trace, ...]
        return {"model": {"call-first": raw[0][0], "clear-first": raw[1][0]},
                "spec": {"call-first": raw[0][1], "clear-first": raw[1][1]}}
    if case["kind"] == "race":
        # raw[i] = [model answers, sequential spec on the linearisation, read-time demanded answers, lock_ok]
        # for the schedule as scripted (0) / as realised under the lock (1)
        assert raw[1][3] is True, "the lock-respecting realisation must satisfy lock_ok"
        same = _race_steps(case, False) == _race_steps(case, True)
        rec = raw[1] if (LOCKED and not same) else raw[0]
        return {"model": [T("Realised", "locked" if (LOCKED and not same) else "scripted"), rec[0]],
                "spec": {"scripted": {"lin": raw[0][1], "rt": raw[0][2], "lock_ok": raw[0][3]},
                         "locked": {"lin": raw[1][1], "rt": raw[1][2], "lock_ok": raw[1][3]}}}
    if _is_pub(case):
        return {"model": raw[0], "spec": raw[1]}
    if case["kind"] == "conc":
        return {"model": raw[0], "spec": raw[1]}
    return {"model": [raw[0], _canon_info(raw[2])], "spec": raw[1]}


def finding_key(case, coq):
    if case["kind"] == "fork":
        return "fork-while-locked" if case.get("held") else None
    if case["kind"] == "race":
        # two nowrap=True calls overlap: the second platform read falls between the first call's read and its wrap step
        if _race_steps(case, False) != _race_steps(case, True):
            return "read-outside-lock"
        return None
    if _is_pub(case):
        for o in _ops_of(case):
            if o[0] == "call" and o[3] and not o[4]:
                return "nowrap-empty-snapshot"
    return None


def judge(case, coq, impl):
    from pv.core import Verdict
    if isinstance(impl, dict) and impl.get("t") == "Skip":
        return Verdict("skip", str(impl.get("a")))
    if case["kind"] == "fork":
        tag, pre, child, held, parent = impl
        sp = coq["spec"]
        if isinstance(child, dict) and child.get("t") == "Hang":
            return Verdict("violation", "after os.fork() the child's nowrap=True call blocks for ever (%s): a lock held by a thread that does not "
                           "exist in the child" % (child["a"],))
        if sp["parent"] is None:
            return Verdict("skip", "not well-formed")
        if child not in [c for c in sp["child"] if c is not None]:
            want = sp["child"][0]
            j = next((i for i, (a, b) in enumerate(zip(child, want)) if a != b), min(len(child), len(want)))
            return Verdict("violation", "os.fork(): answer %d of the CHILD is %s, demanded (it continues the parent's history as of the fork) %s" % (
                j, child[j] if j < len(child) else None, want[j] if j < len(want) else None))
        full = pre + ([held] if held is not None else []) + parent
        if full != sp["parent"]:
            j = next((i for i, (a, b) in enumerate(zip(full, sp["parent"])) if a != b), 0)
            return Verdict("violation", "os.fork(): answer %d of the PARENT is %s, demanded %s" % (j, full[j], sp["parent"][j]))
        if coq["model"]["child"] is not None and (child != coq["model"]["child"] or full != coq["model"]["parent"]):
            return Verdict("corr", "fork: impl != model")
        return Verdict("ok")
    if case["kind"] == "inject":
        if not isinstance(impl, list) or not impl:
            return Verdict("corr", "no line of _WrapNumbers.run() was reached: %r" % (impl,))
        npre = len(case["pre"])
        sp = coq["spec"]
        unmodelled = None
        for tag, pre, call, state, post in impl:
            k, func, rel, src, calls = tag["a"]
            unsafe = [c for c in calls if c not in SAFE_OPS]
            if unsafe and sp["excluded"] is not None:
                # this line contains an operation that can really raise: the failed call must then leave the state
                # untouched or fully updated -- the following answers are the demanded ones either way
                got = pre + post
                incl = sp["included"][:npre] + sp["included"][npre + 1:]
                if got != sp["excluded"] and got != incl:
                    j = next((i for i, (a, b) in enumerate(zip(got, sp["excluded"])) if a != b), 0)
                    return Verdict("violation", "an exception raised by %s at %s line +%d (`%s`) leaves the offsets updated without the snapshot "
                                   "stored: answer %d after it is %s, demanded %s" % (unsafe, func, rel, src, j, got[j] if j < len(got) else None,
                                                                                   sp["excluded"][j] if j < len(sp["excluded"]) else None))
            if [state, post] not in coq["model"]:
                unmodelled = (k, func, rel, src)
        if unmodelled is not None:
            return Verdict("corr", "abort at point %s (%s line +%s `%s`): the state left behind / the follow-up answers are not those of any "
                           "abort point of the model" % unmodelled)
        return Verdict("ok")
    if case["kind"] == "dbg":
        if not isinstance(impl, list) or not impl:
            return Verdict("corr", "no debug-mode run")
        sp = coq["spec"]
        for tag, trace in impl:
            failed = [j for j, a in enumerate(trace) if isinstance(a, dict) and a.get("t") == "Exc"]
            if sp["full"] is None:
                continue
            if not failed:
                ok = trace == sp["full"]
                why = "debug mode, no failing write"
            elif len(failed) == 1:
                j = failed[0]
                rest = trace[:j] + trace[j + 1:]
                ok = rest == sp["full"][:j] + sp["full"][j + 1:] or rest == sp["without"][j]
                why = "debug mode, stderr write %s failed (%s) inside call %d" % (tag["a"][0], tag["a"][1], j)
            else:
                ok, why = False, "one failing stderr write made %d calls fail" % len(failed)
            if not ok:
                return Verdict("violation", "%s: the answers of the other calls are the demanded ones neither with nor without the failed call: %s"
                               % (why, trace))
        return Verdict("ok")
    if case["kind"] == "preempt":
        if not isinstance(impl, list) or not impl:
            return Verdict("corr", "no pre-emption point inside _WrapNumbers.run() was reached: %r" % (impl,))
        bad_model = None
        for pt in impl:
            tag, pre, call, clear, post = pt
            cf = pre + [call, clear] + post
            lf = pre + [clear, call] + post
            sp = coq["spec"]
            if sp["call-first"] is not None and cf != sp["call-first"] and lf != sp["clear-first"]:
                want = sp["call-first"]
                j = next((i for i, (a, b) in enumerate(zip(cf, want)) if a != b), 0)
                return Verdict("violation", "cache_clear() by another thread at pre-emption point %s of run() (landed in the middle: %s): "
                               "the answers are those of neither order of the two operations; with the call first, answer %d is %s, demanded %s" % (
                                   tag["a"][0], tag["a"][1], j, cf[j], want[j]))
            if tag["a"][1] is not False or cf != coq["model"]["call-first"]:
                bad_model = tag
        if bad_model is not None:
            return Verdict("corr", "pre-emption point %s: the clear took effect inside run() (model of record: it waits for _wn.lock)" % (bad_model["a"],))
        return Verdict("ok")
    if case["kind"] == "race":
        if not (isinstance(impl, list) and len(impl) == 2 and isinstance(impl[0], dict) and impl[0].get("t") == "Realised"):
            return Verdict("corr", "unexpected result shape")
        how = impl[0]["a"][0]
        if how not in coq["spec"]:
            return Verdict("corr", "the implementation realised neither the scripted nor the lock-respecting schedule: %s" % how)
        sp = coq["spec"][how]
        # admissible: the answers of a linearisation that keeps the nowrap=True listings in read order (guaranteed by
        # C10_threads_locked_kernel_order when the realised schedule respects the lock), or the read-time answers
        ok_lin = sp["lock_ok"] is True and sp["lin"] is not None and impl[1] == sp["lin"]
        ok_rt = sp["rt"] is not None and impl[1] == sp["rt"]
        if sp["rt"] is not None and not (ok_lin or ok_rt):
            want = sp["lin"] if sp["lock_ok"] is True else sp["rt"]
            j = next((i for i, (a, b) in enumerate(zip(impl[1], want)) if a != b), min(len(impl[1]), len(want)))
            return Verdict("violation", "threads, schedule realised as %s: answer %d is %s, demanded (raw kernel readings in read order) %s" % (
                how, j, impl[1][j] if j < len(impl[1]) else None, want[j] if j < len(want) else None))
        if impl != coq["model"]:
            return Verdict("corr", "impl != model (%s)" % how)
        return Verdict("ok")
    model, spec = coq["model"], coq["spec"]
    has_info = case["kind"] == "wn"
    trace = impl[0] if has_info else impl
    if spec is not None and trace != spec:
        j = next((i for i, (a, b) in enumerate(zip(trace, spec)) if a != b), min(len(trace), len(spec)))
        return Verdict("violation", "answer %d of the call sequence differs from the demanded one: got %s, demanded %s" % (
            j, trace[j] if j < len(trace) else None, spec[j] if j < len(spec) else None))
    if impl != model:
        return Verdict("corr", "impl != model")
    return Verdict("ok")


# ------------------------------------------------------------------ implementation side
_HDR = (b"Inter-|   Receive                                                |  Transmit\n"
        b" face |bytes    packets errs drop fifo frame compressed multicast|bytes    packets errs drop fifo colls carrier compressed\n")
_env = {}


def impl_setup(env):
    import os
    from pv import shim
    sysblock = os.path.join(env["work"], "sysblock")
    os.makedirs(sysblock, exist_ok=True)
    sh = shim.Shim({"/sys/block": sysblock})
    sh.install()
    _env["sysblock"] = sysblock


def _write_net(root, snap):
    import os
    s = _HDR
    for k, v in snap:
        bs_, br, ps, pr, ei, eo, di, do = v
        cols = [br, pr, ei, di, 11, 12, 13, 14, bs_, ps, eo, do, 15, 16, 17, 18]
        s += b"%6s: " % k.encode() + b" ".join(b"%d" % c for c in cols) + b"\n"
    p = os.path.join(root, "net", "dev")
    with open(p + ".tmp", "wb") as f:
        f.write(s)
    os.replace(p + ".tmp", p)


def _write_disk(root, snap):
    import os
    s = b""
    for n, (k, v) in enumerate(snap):
        reads, writes, rbytes, wbytes, rtime, wtime, rmerged, wmerged, busy = v
        assert rbytes % 512 == 0 and wbytes % 512 == 0
        cols = [reads, rmerged, rbytes // 512, rtime, writes, wmerged, wbytes // 512, wtime, 21, busy, 22]
        s += b"%4d %7d %s " % (8, n, k.encode()) + b" ".join(b"%d" % c for c in cols) + b"\n"
        open(os.path.join(_env["sysblock"], k.replace("/", "!")), "wb").close()
    p = os.path.join(root, "diskstats")
    with open(p + ".tmp", "wb") as f:
        f.write(s)
    os.replace(p + ".tmp", p)


def _conv_pub(r):
    if r is None:
        return None
    if isinstance(r, dict):
        return T("Dict", [[B(k), [int(x) for x in v]] for k, v in r.items()])
    return T("Total", [int(x) for x in r])


def _do_pub(psutil, root, o):
    fn = {"net": psutil.net_io_counters, "disk": psutil.disk_io_counters}[o[1]]
    if o[0] == "clear":
        return outcome(lambda: fn.cache_clear(), lambda r: T("Done"))
    _, name, per, nowrap, snap, _tid = o
    if name == "net":
        _write_net(root, snap)
        return outcome(lambda: fn(pernic=per, nowrap=nowrap), _conv_pub)
    _write_disk(root, snap)
    return outcome(lambda: fn(perdisk=per, nowrap=nowrap), _conv_pub)


def _do_wn(psutil, root, o):
    wn = psutil._common.wrap_numbers
    if o[0] == "run":
        d = {k: tuple(v) for k, v in o[2]}
        return outcome(lambda: wn(d, o[1]), lambda r: T("Dict", [[B(k), [int(x) for x in v]] for k, v in r.items()]))
    if o[0] == "clear":
        return outcome(lambda: wn.cache_clear(o[1]), lambda r: T("Done"))
    return outcome(lambda: wn.cache_clear(), lambda r: T("Done"))


def _info(psutil):
    cache, rem, rk = psutil._common.wrap_numbers.cache_info()
    out = []
    for name in sorted(set(cache) | set(rem) | set(rk)):
        if not (name in cache and name in rem and name in rk):
            # the model keeps the three maps keyed alike; report the disagreement as an answer, not as a crash
            out.append([B(name), T("InconsistentMaps", name in cache, name in rem, name in rk)])
            continue
        out.append([B(name), sorted([[B(k), [int(x) for x in v]] for k, v in cache[name].items()], key=lambda kv: kv[0]["b"]),
                    sorted([[B(k), i, int(v)] for (k, i), v in rem[name].items()], key=lambda x: (x[0]["b"], x[1])),
                    sorted([[B(k), sorted(i for (_k, i) in s)] for k, s in rk[name].items()], key=lambda x: x[0]["b"])])
    return sorted(out, key=lambda e: e[0]["b"])


class _Pool:
    """two real threads; an op is handed to the thread named in the script and awaited"""

    def __init__(self):
        import queue
        import threading
        self.qs = [(queue.Queue(), queue.Queue()) for _ in range(2)]
        self.th = [threading.Thread(target=self._loop, args=(i,), daemon=True) for i in range(2)]
        for t in self.th:
            t.start()

    def _loop(self, i):
        qi, qo = self.qs[i]
        while True:
            job = qi.get()
            if job is None:
                return
            try:
                qo.put(("ok", job()))
            except BaseException as e:  # noqa
                qo.put(("err", e))

    def call(self, tid, job):
        self.qs[tid][0].put(job)
        st, v = self.qs[tid][1].get()
        if st == "err":
            raise v
        return v

    def close(self):
        for qi, _ in self.qs:
            qi.put(None)
        for t in self.th:
            t.join()


def _run_race(psutil, case):
    """real threads; the platform read is replaced by a scripted kernel and is the pre-emption point"""
    import queue
    import threading
    plat = psutil._psplatform
    mtx = threading.Lock()
    nxt = {fn: 0 for fn in case["kernel"]}
    log, answers = [], []
    NT = 3
    read_done = [threading.Event() for _ in range(NT)]
    go = [threading.Event() for _ in range(NT)]
    done = [threading.Event() for _ in range(NT)]
    tids = {}

    def fake(fn):
        def f(*a, **kw):
            tid = tids[threading.get_ident()]
            with mtx:
                snap = case["kernel"][fn][nxt[fn]]
                nxt[fn] += 1
                log.append(("read", tid))
            read_done[tid].set()
            if not go[tid].wait(20):
                raise RuntimeError("harness: no permission to continue")
            return {k: tuple(v) for k, v in snap}
        return f

    qs = [queue.Queue() for _ in range(NT)]

    def worker(tid):
        tids[threading.get_ident()] = tid
        while True:
            job = qs[tid].get()
            if job is None:
                return
            if job[0] == "clear":
                fn = {"net": psutil.net_io_counters, "disk": psutil.disk_io_counters}[job[1]]
                r = outcome(lambda: fn.cache_clear(), lambda r: T("Done"))
            else:
                _, name, per, nowrap = job
                if name == "net":
                    r = outcome(lambda: psutil.net_io_counters(pernic=per, nowrap=nowrap), _conv_pub)
                else:
                    r = outcome(lambda: psutil.disk_io_counters(perdisk=per, nowrap=nowrap), _conv_pub)
            with mtx:
                log.append(("clear" if job[0] == "clear" else "wrap", tid))
                if r.get("t") == "Val":
                    answers.append(T("Val", [tid, r["a"][0]]))
                else:
                    answers.append(r)
            done[tid].set()

    def need(ev, what, t=20):
        if not ev.wait(t):
            raise RuntimeError("harness: timeout waiting for " + what)

    def begin(tid, job):
        read_done[tid].clear()
        go[tid].clear()
        done[tid].clear()
        qs[tid].put(job)

    saved = (plat.net_io_counters, plat.disk_io_counters)
    plat.net_io_counters, plat.disk_io_counters = fake("net"), fake("disk")
    th = [threading.Thread(target=worker, args=(i,), daemon=True) for i in range(NT)]
    for t in th:
        t.start()

    def run_mids(m):
        # a third thread acts while the calls of the round are in flight: cache_clear, or a complete nowrap=False call
        for x in m:
            if x[0] == "clear":
                begin(x[1], ("clear", x[2]))
                need(done[x[1]], "mid clear")
            else:
                begin(x[1], ("call", x[2], x[3], False))
                need(read_done[x[1]], "mid read")
                go[x[1]].set()
                need(done[x[1]], "mid return")
    try:
        for r in case["rounds"]:
            if r[0] == "clear":
                begin(r[1], ("clear", r[2]))
                need(done[r[1]], "clear")
            elif r[0] == "solo":
                t, m = _round_parts(r)
                begin(t, ("call", r[2], r[3], r[4]))
                need(read_done[t], "solo read")
                run_mids(m)
                go[t].set()
                need(done[t], "solo return")
            else:
                (a, fa, na, b, fb, nb, order), m = _round_parts(r)
                begin(a, ("call", fa, True, na))
                need(read_done[a], "first read of a pair")
                begin(b, ("call", fb, True, nb))
                blocked = not read_done[b].wait(0.3 if (na and nb) else 20)   # waits on a lock held by a?
                run_mids(m)
                for x in ((a, b) if order == "ab" else (b, a)):
                    go[x].set()
                    if x == b and blocked:
                        continue
                    need(done[x], "return of a pair member")
                if blocked:
                    need(read_done[b], "deferred read")
                    need(done[b], "deferred return")
    finally:
        for g in go:
            g.set()
        for q in qs:
            q.put(None)
        for t in th:
            t.join(5)
        plat.net_io_counters, plat.disk_io_counters = saved
    real = [(k, t) for k, t in log]
    for how, locked in (("scripted", False), ("locked", True)):
        if real == [(st[0], st[1]) for st in _race_steps(case, locked)]:
            return [T("Realised", how), answers]
    return [T("Realised", "other: %r" % (real,)), answers]


def _run_fork(psutil, root, case):
    import json
    import os
    import select
    import signal
    import time
    from props import _c10_sched as S
    pre = [_do_pub(psutil, root, o) for o in case["pre"]]
    pc = None
    if case.get("held"):
        hroot = root + "_held"
        os.makedirs(os.path.join(hroot, "net"), exist_ok=True)
        # the other thread's call reads its own listing, then stops inside wrap_numbers()/run() with the lock(s) held
        def held_call():
            psutil.PROCFS_PATH = root
            return _do_pub(psutil, root, case["held"])
        pc = S.PausedCall(held_call, case["held_at"], hold=0.25)
        if not pc.wait_paused():
            raise RuntimeError("fork harness: the other thread did not reach %s()" % case["held_at"])
    rfd, wfd = os.pipe()
    pid = os.fork()          # with an at-fork handler that takes the locks this waits until the other thread is through
    if pid == 0:
        code = 0
        try:
            os.close(rfd)
            croot = root + "_child"
            os.makedirs(os.path.join(croot, "net"), exist_ok=True)
            psutil.PROCFS_PATH = croot
            trace = []
            for o in case["child"]:
                trace.append(_do_pub(psutil, croot, o))
                if _stopped(trace[-1]):
                    break
            os.write(wfd, json.dumps(trace).encode())
        except BaseException:  # noqa
            code = 1
        finally:
            os._exit(code)
    os.close(wfd)
    held = None
    if pc is not None:
        pc.release()
        held = pc.join()
    buf, deadline, hang = b"", time.time() + 5, False
    while True:
        left = deadline - time.time()
        if left <= 0:
            hang = True
            break
        r, _, _ = select.select([rfd], [], [], left)
        if not r:
            hang = True
            break
        chunk = os.read(rfd, 65536)
        if not chunk:
            break
        buf += chunk
    os.close(rfd)
    if hang:
        os.kill(pid, signal.SIGKILL)
    _, status = os.waitpid(pid, 0)
    if hang:
        child = T("Hang", "no answer within 5 s")
    elif not buf:
        child = T("ChildDied", status)
    else:
        child = json.loads(buf.decode())
    psutil.PROCFS_PATH = root
    parent = []
    for o in case["parent"]:
        parent.append(_do_pub(psutil, root, o))
        if _stopped(parent[-1]):
            break
    return [T("Fork"), pre, child, held, parent]


def _run_inject(psutil, root, case):
    import errno
    import linecache
    from props import _c10_sched as S
    from props import _c10_tables as TB
    wn = psutil._common.wrap_numbers
    path = psutil._common.__file__
    by_line = TB.calls_by_line(path)
    first = {name: fn.lineno for name, fn in TB.wrap_functions(path).items()}
    out = []
    for k in range(MAXPOINTS):
        wn.cache_clear()
        pre = [_do_wn(psutil, root, o) for o in case["pre"]]
        r = S.run_with_injection(lambda: _do_wn(psutil, root, case["call"]), k, OSError(errno.ENOSPC, "No space left on device"))
        if not r["reached"]:
            break
        state = _info(psutil)
        post = []
        for o in case["post"]:          # like the model's trace: ends at the first exception
            post.append(_do_wn(psutil, root, o))
            if _stopped(post[-1]):
                break
        calls = list(by_line.get(r["lineno"], (None, []))[1])
        out.append([T("Point", k, r["func"], r["lineno"] - first.get(r["func"], 0), linecache.getline(path, r["lineno"]).strip()[:60], calls),
                    pre, r["call"], state, post])
    return out


def _run_dbg(psutil, root, case):
    import errno
    import sys
    from props import _c10_sched as S
    wn = psutil._common.wrap_numbers
    excs = [("ENOSPC", lambda: OSError(errno.ENOSPC, "No space left on device")), ("EPIPE", lambda: BrokenPipeError(errno.EPIPE, "Broken pipe")),
            ("EIO", lambda: OSError(errno.EIO, "Input/output error")), ("closed", lambda: ValueError("I/O operation on closed file"))]
    out = []
    real = sys.stderr
    psutil._set_debug(True)
    try:
        nwrites = None
        k = -1
        while k < (nwrites if nwrites is not None else 0) and k < MAXPOINTS:
            name, mk = excs[k % 4] if k >= 0 else ("none", lambda: None)
            stream = S.FailingStream(k, mk())
            wn.cache_clear()
            sys.stderr = stream
            try:
                trace = [_do_pub(psutil, root, o) for o in case["ops"]]
            finally:
                sys.stderr = real
            if nwrites is None:
                nwrites = stream.n
            out.append([T("Write", k, name, stream.n), trace])
            k += 1
    finally:
        sys.stderr = real
        psutil._set_debug(False)
    return out


def _run_preempt(psutil, root, case):
    from props import _c10_sched as S
    do = _do_pub if case["api"] == "pub" else _do_wn
    wn = psutil._common.wrap_numbers
    out = []
    for k in range(MAXPOINTS):
        wn.cache_clear()
        pre = [do(psutil, root, o) for o in case["pre"]]
        r = S.run_with_preemption(lambda: do(psutil, root, case["call"]), lambda: do(psutil, root, case["clear"]), k)
        post = [do(psutil, root, o) for o in case["post"]]
        if not r["reached"]:
            break
        out.append([T("Point", k, bool(r["during"])), pre, r["call"], r["clear"], post])
    return out


def _stopped(r):
    return isinstance(r, dict) and r.get("t") == "Exc"


def impl_run(case, coq, env):
    import os
    import shutil
    import threading
    import psutil
    root = os.path.join(env["work"], "proc")
    shutil.rmtree(root, ignore_errors=True)
    os.makedirs(os.path.join(root, "net"))
    for f in os.listdir(_env["sysblock"]):
        os.unlink(os.path.join(_env["sysblock"], f))
    psutil.PROCFS_PATH = root
    wn = psutil._common.wrap_numbers
    wn.cache_clear()
    try:
        if case["kind"] == "race":
            return _run_race(psutil, case)
        if case["kind"] == "preempt":
            return _run_preempt(psutil, root, case)
        if case["kind"] == "inject":
            return _run_inject(psutil, root, case)
        if case["kind"] == "fork":
            return _run_fork(psutil, root, case)
        if case["kind"] == "dbg":
            return _run_dbg(psutil, root, case)
        do = _do_pub if _is_pub(case) else _do_wn
        if case["kind"] == "conc":
            res = {0: [], 1: []}
            bar = threading.Barrier(2)

            def body(tid, ops):
                bar.wait()
                for o in ops:
                    r = do(psutil, root, o)
                    res[tid].append(r)
                    if _stopped(r):
                        break
            ts = [threading.Thread(target=body, args=(0, case["a"])), threading.Thread(target=body, args=(1, case["b"]))]
            for t in ts:
                t.start()
            for t in ts:
                t.join()
            return res[0] + res[1]
        trace = []
        pool = _Pool() if case.get("threads") else None
        try:
            for o in case["ops"]:
                if pool:
                    r = pool.call(o[-1], lambda o=o: do(psutil, root, o))
                else:
                    r = do(psutil, root, o)
                trace.append(r)
                if _stopped(r):
                    break
        finally:
            if pool:
                pool.close()
        if case["kind"] == "wn":
            stopped = bool(trace) and _stopped(trace[-1])
            return [trace, None if stopped else _info(psutil)]
        return trace
    finally:
        wn.cache_clear()


MANIFEST = {
    "text": "Theorems (Coq, closed under the global context) about the model of _WrapNumbers and its two callers. Direct API: for EVERY "
            "sequence of wrap_numbers(dict, name) / cache_clear(name) / cache_clear() calls with unique keys and one tuple width per name, "
            "each answer is, per device and counter, raw + the sum of the earlier readings at each decrease inside the device's current "
            "presence run since the last clear (ghost history per name), no call fails; corollaries: monotone for non-negative counters, "
            "reappearing device starts afresh, clear forgets, first call raw, names are independent (frame), nowrap=False is raw and leaves "
            "the state alone; cache_info() shows exactly the ghost state (last snapshot, accumulated offsets, index of non-zero offsets). "
            "Without the width hypothesis a total theorem gives the answers of every sequence up to the first exception (shrinking tuples "
            "answered, a growing tuple raises IndexError). Public functions (code after the repairs e278b23, 3202409): the demanded answers "
            "for EVERY sequence, including listings with no device (a device coming back after every device had gone starts afresh) and "
            "cache_clear forgetting all history; the code before e278b23 is refuted with a witness. Threads: every call split into platform "
            "read and wrap step, ANY number of threads, both functions, cache_clear at any point (also between the read and the wrap step of "
            "a call in flight): every schedule is linearised (calls at their wrap step) and answers what the sequential specification demands "
            "on that history; under _nowrap_lock the nowrap=True listings enter the history in the order they were read from the kernel; "
            "after a clear the next nowrap=True answer of that function is raw in every interleaving; without the lock a witness schedule "
            "answers 350 for a reading of 150 (fixed finding read-outside-lock). The model is tied to the code by running the real psutil "
            "(direct API and public API over generated /proc/net/dev, /proc/diskstats) on generated and exhaustively enumerated sequences, on "
            "two scripted alternating threads, two free-running threads, three real threads with a pre-empting scripted platform read, "
            "and a clearing thread released at every line of _WrapNumbers.run() of a call in flight (the atomicity the model assumes), "
            "comparing every answer and cache_info(). Exception-atomicity: run() is modelled as a sequence of state updates with a possible "
            "abort after each; the first abort point is the untouched state, the last the completed call, the ones in between are refuted "
            "with a witness (a wrap counted twice), and the source's commit sections are proved (generated table, ast) to contain only "
            "operations that cannot raise; exceptions injected at every line of run() and a failing sys.stderr in debug mode tie this to the code. "
            "os.fork(): a Fork event in the history language, fork = identity on the wrap state: for every history of calls and forks the "
            "child's answers are those of the unforked continuation and the parent's do not depend on its forks; the generated table of "
            "os.register_at_fork handlers (ast) is proved not to touch the wrap state; real forks of the worker (also while another thread "
            "holds the locks) tie this to the code.",
    "note": "Trusted: Coq kernel + vm_compute; hand-written model coq/C10/Model.v (tied by the correspondence run only); the ghost "
            "specification coq/C10/Spec.v and the linearisation reading of concurrent executions; harness; CPython builtins and threading.Lock. "
            "Atomicity of run()/cache_clear() and of read+wrap under _nowrap_lock is an assumption of the model (the locks), exercised but "
            "not proved. Proof covers the model, sampling covers model-vs-code.",
}
