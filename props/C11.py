"""C11 -- net_connections(): every socket once, right kind, right addresses, right owner."""
import errno
import json
import os
import socket

from pv import gallina as G
from pv.canon import B, Exc, T, Val, outcome, unB
from props._c11_tables import gen_tables  # noqa: F401  (translator hook called by pv.core before the Coq build)
from props import _c11_live as live

ID = "C11"
COQ_REQUIRE = "C11.Run"
SHARD = 40
RULE = ("one live case (real sockets; the running kernel's /proc/net files are printed back byte for byte by the spec) and kernel states drawn from a grammar: 0-30 sockets over /proc/net/{tcp,tcp6,udp,udp6,unix} (IPv4/IPv6 addresses incl. "
        "zero, loopback, v4-mapped, link-local, all-ones, random; ports {0,1,22,80,443,65535,random}; all 11 TCP states; inode 0 "
        "TIME_WAIT lines; UNIX stream/dgram/seqpacket, unbound / path / path with blanks, tabs, trailing blank / @abstract / "
        "UTF-8 / undecodable bytes / leading, trailing, repeated blanks and tabs / CR, \\x1c-\\x1f, VT, FF, NBSP, NEL, LINE SEPARATOR / LF (outside the theorems, model only)), 1-4 processes (visible or EACCES fd directory) holding each socket through "
        "0-3 descriptors shared between processes (TCP/UDP and UNIX), closed and non-socket descriptors, absent IPv6 files, table files that exist but are 0 bytes / header without newline / lone newline (alone and next to well-formed tables), little- and big-endian "
        "decoding; every state is queried system-wide with all 11 kinds + junk kinds and per process; plus address-only cases "
        "(every byte value at every address position in the exhaustive part), hosts without IPv6 (inet_ntop failing, supports_ipv6() "
        "True/False), a malformed stream (mutated lines, odd links) and targeted malformed inputs (TCP/UDP line of 0-9 / exactly 10 fields, "
        "UNIX junk line without blank, short UNIX line with a blank, exactly 7 fields, process without sockets over tables that would raise). "
        "Four fork cases: a thread parked inside retrieve(), os.fork(), the child must answer every call (hang = violation). " +
        "Per call three observations are compared: returned list (duplicates kept), add() sequence (multiset), /proc/net access log. "
        "A case is non-trivial when it has at least one socket; distinct = distinct canonical case hash.")
LIVE = ("one live case per run: 21 real sockets (TCP listen/connected v4+v6, UDP, UNIX path/abstract/unbound/socketpair), the real "
        "/proc/net/{tcp,tcp6,udp,udp6,unix} and /proc/self/fd parsed into the spec's records; Spec.k_files must print the real files byte "
        "for byte (else exit 2); psutil over the snapshot and over the real /proc must list exactly those sockets")
TRUSTED = ["correspondence harness props/C11.py + pv/ (fake /proc tree, os.listdir / os.readlink patches; recording set installed as "
           "psutil._pslinux.set, open_text wrapper for the access log, socket.inet_ntop / supports_ipv6 patches for the host oracle)",
           "kernel formats of /proc/net/{tcp,tcp6,udp,udp6,unix} and /proc/<pid>/fd transcribed in coq/C11/Spec.v -- tied to the running "
           "kernel on every run by the live case (byte-for-byte comparison of the printed files with the real ones)",
           "table translator props/_c11_tables.py (dumps TCP_STATUSES, tmap, conn_tmap, socket constants into coq/Gen/C11_Tables.v)",
           "glibc inet_ntop/inet_pton: an address is compared as its packed bytes (socket.inet_pton of the text psutil returns)"]
ASSUMPTIONS = ["CPython semantics of str.split/int/base64.b16decode/struct and dict/set are modelled, not verified",
               "tcp/udp files holding \\x1c-\\x1f or non-ASCII Unicode white space, and unix records holding them before the socket "
               "name, are outside the model (str.split differs from bytes.split there); the kernel prints none of them there",
               "a UNIX socket name containing LF is printed raw by the kernel and splits its record: excluded from the theorems "
               "(stated with a witness), still compared with the model",
               "os.listdir order is controlled by the harness; the owner reported for a multiply-held TCP/UDP socket may be any holder"]
EXHAUSTIVE = {"quick": "kind x (family,type): all 11 kinds over a state holding one socket of each of tcp4/tcp6/udp4/udp6/unix-stream/"
                       "unix-dgram/unix-seqpacket/unix type 3/unix type 7; all 11 TCP states; every byte value 0..255 at one position of a v4 and a v6 address",
              "thorough": "all 11 kinds x 7 (family,type) classes; all 11 TCP states x {v4,v6}; every byte value 0..255 at every one of the "
                          "4 (v4) and 16 (v6) address positions, both byte orders; ports 0..65535 step 257 plus borders"}

# Model switches (coq/C11/Model.v [variant]): True/True = [current], the code as it is now (both repairs are in /repo);
# False = the code before the repair.  C11_VARIANT="" (or "merge" / "exact") overrides them for a trial run against a copy
# of the tree without the fix(es) (VERIF_REPO=<copy>).
MERGE_INODES = True       # fix d36edd1 (get_all_inodes keeps every holder)
EXACT_UNIX_PATH = True    # fix 9cf9292 (UNIX name = everything after the single blank that follows the inode)
NEWLINE_LF = True         # fix 0e98900 (/proc/net/unix opened with newline="\n")
if os.environ.get("C11_VARIANT") is not None:
    MERGE_INODES = "merge" in os.environ["C11_VARIANT"].split()
    EXACT_UNIX_PATH = "exact" in os.environ["C11_VARIANT"].split()
    NEWLINE_LF = "lf" in os.environ["C11_VARIANT"].split()
VARIANT = "(Build_variant %s %s %s)" % (G.bo(MERGE_INODES), G.bo(EXACT_UNIX_PATH), G.bo(NEWLINE_LF))

KINDS = ["all", "inet", "inet4", "inet6", "tcp", "tcp4", "tcp6", "udp", "udp4", "udp6", "unix"]
JUNK = ["", "TCP", "tcp ", "inet5", "unix6", "all\n", "raw", "Tcp4", "None", " udp", "tcp4,tcp6", "inét"]
AF_UNIX, AF_INET, AF_INET6 = 1, 2, 10
WS = (9, 10, 11, 12, 13, 32)

V4 = [[0, 0, 0, 0], [127, 0, 0, 1], [10, 0, 0, 5], [255, 255, 255, 255], [1, 2, 3, 4], [192, 168, 1, 7], [169, 254, 0, 1]]
V6 = [[0] * 16, [0] * 15 + [1], [0] * 10 + [255, 255, 127, 0, 0, 1], [0xfe, 0x80] + [0] * 13 + [1],
      [0x20, 0x01, 0x0d, 0xb8] + [0] * 8 + [1, 2, 3, 4], [255] * 16, list(range(1, 17)),
      [0xfe, 0x80, 0, 0, 0, 0, 0, 0, 0x02, 0x11, 0x22, 0xff, 0xfe, 0x33, 0x44, 0x55]]
PORTS = [0, 0, 1, 22, 80, 443, 65535, 40521]
PATHS = [None, None, b"/run/x.sock", b"/tmp/a b", b"/tmp/a  b c", b"@abstract", b"@abs with blank ", b"/tmp/trail ",
         b"/tmp/s\xc3\xb6k", b"/tmp/a\tb", b"/tmp/\xff\xfe", b"@", b"/var/run/dbus/system_bus_socket", b"x", b"@00012",
         b"/tmp/\xe2\x82\xac", b"/a/" + b"p" * 100]
# names with CR, \x1c-\x1f, VT/FF, NBSP, NEL, LINE SEPARATOR, IDEOGRAPHIC SPACE, raw \x85/\xa0, everything at once
ODD_PATHS = [b"/tmp/a\rb c", b"\r", b"/tmp/x\r\n"[:-1], b"/tmp/\x1c\x1d\x1e\x1f", b"/tmp/a\x0bb\x0cc", b"/tmp/nb\xc2\xa0sp x",
             b"\xc2\x85nel", b"/tmp/ls\xe2\x80\xa8 ps\xe2\x80\xa9", b"\xe3\x80\x80", b"/tmp/\x85\xa0", b"a\r\rb\r",
             b" \r\x1c\xc2\xa0\xe2\x80\xa8\t\xff x \x1f", b"@abs\rtract", b"/tmp/\xe1\x9a\x80ogham"]
# names with LF: the kernel prints them raw and the record splits -- outside the theorems' domain, compared with the model only
LF_PATHS = [b"/tmp/a\nb c", b"/tmp/a\nb", b"\n", b"/tmp/x\n"]
LEAD_WS_PATHS = [b" lead", b"\tx", b"  two", b" @abs", b" ", b"   ", b" a b ", b" \t mixed  blanks "]
OTHER_TARGETS = ["pipe:[%d]", "anon_inode:[eventpoll]", "/dev/null", "/nonexistent/file%d", "/nonexistent/x%d (deleted)",
                 "anon_inode:[eventfd]", "net:[4026531992]", "/nonexistent/socket:[%d]"]


# ------------------------------------------------------------------ generation
def _ip(rng, v6):
    pool = V6 if v6 else V4
    if rng.random() < 0.25:
        return [rng.randrange(256) for _ in range(16 if v6 else 4)]
    return list(rng.choice(pool))


def _isock(rng, v6, tcp, inode):
    st = rng.randint(1, 11) if tcp else rng.choice([7, 7, 1])
    tail = rng.choice([" 1 0000000000000000 100 0 0 10 0", " 2 0000000000000000 0", "", " ", " 1 ffff8880 20 4 30 10 -1",
                       " 0 0 0"]) + " " * rng.choice([0, 0, 3, 20])
    return {"lip": _ip(rng, v6), "lport": rng.choice(PORTS) if rng.random() < 0.8 else rng.randrange(65536),
            "rip": _ip(rng, v6), "rport": rng.choice(PORTS) if rng.random() < 0.8 else rng.randrange(65536),
            "st": st, "inode": inode, "uid": rng.choice([0, 0, 1000, 65534, 4294967295]), "tail": tail,
            "xpad": rng.choice([0, 0, 0, 1, 2])}


def _usock(rng, inode, lead_ws=False):
    r = rng.random()
    p = (rng.choice(LEAD_WS_PATHS) if lead_ws or r < 0.05 else rng.choice(ODD_PATHS) if r < 0.17 else
         rng.choice(LF_PATHS) if r < 0.19 else rng.choice(PATHS))
    return {"type": rng.choice([1, 1, 2, 5, 5, 3, 7, 0, 4, 9]), "inode": inode, "path": None if p is None else p.hex(),
            "ref": rng.choice([2, 3]), "flags": rng.choice([0, 0x10000]), "st": rng.choice([1, 3]),
            "xpad": rng.choice([0, 0, 0, 2])}


def _state(rng, size, flavour):
    """flavour: plain | ushared (more UNIX sockets shared between processes) | leadws (at least one leading-blank UNIX name)."""
    npids = rng.choice([1, 2, 2, 3, 4])
    pids = rng.sample([1, 7, 10, 20, 333, 4242, 99999, 4194304], npids)
    procs = [{"pid": p, "visible": rng.random() < 0.85, "fds": []} for p in pids]
    next_ino = [rng.choice([1, 500, 12345, 4026531999, 2 ** 32 + 5])]

    def ino(allow0=False):
        if allow0 and rng.random() < 0.5:
            return 0
        next_ino[0] += rng.choice([1, 1, 2, 17])
        return next_ino[0]
    used_fd = {p["pid"]: set() for p in procs}

    def hold(inode, is_unix):
        k = rng.choice([0, 1, 1, 1, 2, 3])
        if k == 0 or inode == 0:
            return
        share = rng.random() < (0.7 if is_unix and flavour == "ushared" else 0.4)
        owners = [rng.choice(procs)] * k if not share else [rng.choice(procs) for _ in range(k)]
        for p in owners:
            fd = rng.choice([x for x in list(range(0, 60)) + [255, 1023, 65535, 1048575] if x not in used_fd[p["pid"]]])
            used_fd[p["pid"]].add(fd)
            p["fds"].append({"fd": fd, "t": ["sock", inode]})
    st = {"tcp4": [], "tcp6": [], "udp4": [], "udp6": [], "unix": []}
    for name, v6, tcp in (("tcp4", False, True), ("tcp6", True, True), ("udp4", False, False), ("udp6", True, False)):
        for _ in range(rng.choice(size)):
            s = _isock(rng, v6, tcp, ino(allow0=False))
            if tcp and s["st"] == 6:
                s["inode"] = ino(allow0=True)
            st[name].append(s)
            hold(s["inode"], False)
    lead_done = False
    for _ in range(rng.choice(size) + (1 if flavour in ("ushared", "leadws") else 0)):
        lw = flavour == "leadws" and (not lead_done or rng.random() < 0.3)
        lead_done = lead_done or lw
        u = _usock(rng, ino(), lw)
        st["unix"].append(u)
        hold(u["inode"], True)
    # descriptors that are not sockets, and closed ones
    for p in procs:
        for _ in range(rng.choice([0, 1, 2, 4])):
            free = [x for x in range(0, 200) if x not in used_fd[p["pid"]]]
            fd = rng.choice(free)
            used_fd[p["pid"]].add(fd)
            if rng.random() < 0.2:
                p["fds"].append({"fd": fd, "t": ["closed"]})
            else:
                t = rng.choice(OTHER_TARGETS)
                p["fds"].append({"fd": fd, "t": ["other", (t % fd if "%d" in t else t)]})
        rng.shuffle(p["fds"])
    if rng.random() < 0.1:
        st["tcp6"] = None
    if rng.random() < 0.1:
        st["udp6"] = None
    st["procs"] = procs
    return st


def _upaths(st):
    return [bytes.fromhex(u["path"]) for u in st["unix"] if u["path"] is not None]


def _cls(st, le):
    if st.get("deg"):
        return "state-empty-table" if "empty" in st["deg"].values() else "state-degenerate-table"
    if any(b"\n" in p for p in _upaths(st)):
        return "state-unix-lf-name"
    if any(p in ODD_PATHS for p in _upaths(st)):
        return "state-unix-odd-name"
    if any(u["path"] is not None and bytes.fromhex(u["path"])[:1] and bytes.fromhex(u["path"])[0] in WS for u in st["unix"]):
        return "state-leadws"
    if _unix_shared(st):
        return "state-unix-shared"
    nsock = sum(len(st[k] or []) for k in ("tcp4", "tcp6", "udp4", "udp6", "unix"))
    if nsock == 0:
        return "trivial"
    if not le:
        return "state-bigendian"
    if st["tcp6"] is None or st["udp6"] is None:
        return "state-no-ipv6-file"
    if _inet_shared(st):
        return "state-inet-shared"
    if any(not p["visible"] for p in st["procs"]):
        return "state-hidden-proc"
    return "state"


def _holders(st, inode):
    return [(p["pid"], f["fd"]) for p in st["procs"] if p["visible"] for f in p["fds"] if f["t"] == ["sock", inode]]


def _unix_shared(st):
    return any(len({pid for pid, _ in _holders(st, u["inode"])}) > 1 for u in st["unix"])


def _inet_shared(st):
    return any(len(_holders(st, s["inode"])) > 1 for k in ("tcp4", "tcp6", "udp4", "udp6") for s in (st[k] or []))


def _mk_state_case(rng, st, le=True, all_kinds=True):
    kinds = list(KINDS) + rng.sample(JUNK, 2) if all_kinds else rng.sample(KINDS, 4) + rng.sample(JUNK, 1)
    sel = []
    idxs = list(range(len(st["procs"])))
    rng.shuffle(idxs)
    for i in idxs[:2]:
        sel.append([i, rng.sample(KINDS, 3) + ["all"] + rng.sample(JUNK, 1)])
    c = {"kind": "state", "le": le, "o": [True, True], "kinds": kinds, "sel": sel}
    c.update(st)
    c["cls"] = _cls(st, le)
    return c


def _with_oracle(c, ntop6, supported):
    """Same state on a host whose inet_ntop cannot format IPv6 (ntop6 False) / whose supports_ipv6() answers [supported]."""
    c["o"] = [ntop6, supported]
    if not ntop6:
        c["cls"] = "state-no-ipv6" if not supported else "state-ipv6-valueerror"
    return c


def _all_classes_state():
    """One socket of each (family, type) class, each held by pid 10; used for the kind x class enumeration."""
    def isk(v6, st, inode):
        ip = V6[1] if v6 else V4[1]
        return {"lip": ip, "lport": 8000 + inode, "rip": V6[0] if v6 else V4[0], "rport": 0, "st": st, "inode": inode,
                "uid": 0, "tail": " 1 0000000000000000 100 0 0 10 0", "xpad": 0}
    st = {"tcp4": [isk(False, 10, 101)], "tcp6": [isk(True, 10, 102)], "udp4": [isk(False, 7, 103)], "udp6": [isk(True, 7, 104)],
          "unix": [{"type": t, "inode": 105 + i, "path": (b"/run/s%d" % t).hex(), "ref": 2, "flags": 0, "st": 1, "xpad": 0}
                   for i, t in enumerate((1, 2, 5, 3, 7))],     # stream, dgram, seqpacket, SOCK_RAW (a member), 7 (no member)
          "procs": [{"pid": 10, "visible": True, "fds": [{"fd": 3 + i, "t": ["sock", 101 + i]} for i in range(9)]},
                    {"pid": 20, "visible": True, "fds": [{"fd": 0, "t": ["other", "/dev/null"]}]}]}
    return st


def _tcp_states_state(v6):
    ip = V6[2] if v6 else V4[2]
    socks = [{"lip": ip, "lport": 1000 + s, "rip": ip, "rport": 2000 + s, "st": s, "inode": 700 + s, "uid": 1000,
              "tail": " 1 0000000000000000 20 4 30 10 -1", "xpad": 0} for s in range(1, 12)]
    st = {"tcp4": [], "tcp6": [], "udp4": [], "udp6": [], "unix": [],
          "procs": [{"pid": 7, "visible": True, "fds": [{"fd": s, "t": ["sock", 700 + s]} for s in range(1, 12, 2)]}]}
    st["tcp6" if v6 else "tcp4"] = socks
    return st


RAW_LINES_INET = [
    b"   0: 0100007F:0016 00000000:0000 0A 00000000:00000000 00:00000000 00000000     0        0 500 1 0000000000000000 100 0 0 10 0\n",
    b"   1: 0100007F:0016 00000000:0000 0C 00000000:00000000 00:00000000 00000000     0        0 501 1\n",     # unknown state
    b"   2: 0100007f:0016 00000000:0000 01 00000000:00000000 00:00000000 00000000     0        0 502 1\n",     # lower-case hex
    b"   3: 0100007F:0016:1 00000000:0000 01 00000000:00000000 00:00000000 00000000     0        0 503 1\n",   # two colons
    b"   4: 0100007F 00000000:0000 01 00000000:00000000 00:00000000 00000000     0        0 504 1\n",          # no colon
    b"   5: 0100007F:0016 00000000:0000 01 00000000:00000000 00:00000000 00000000     0\n",                    # short line
    b"\n",
    b"   6: 01007F:0016 00000000:0000 01 00000000:00000000 00:00000000 00000000     0        0 506 1\n",       # 3-byte address
    b"   7: 0100007F:+16 00000000:0x10 01 00000000:00000000 00:00000000 00000000     0        0 507 1\n",      # int(.., 16) forms
    b"   8: 0100007F:00G6 00000000:0000 01 00000000:00000000 00:00000000 00000000     0        0 508 1\n",     # bad port
    b"   9: 0100007F:FFFFF 0000000G:0001 01 00000000:00000000 00:00000000 00000000     0        0 509 1\n",    # bad ip, big port
    b"  10: 0100007F0:0016 00000000:0000 01 00000000:00000000 00:00000000 00000000     0        0 510 1\n",    # odd hex length
    b"  11: 0100007F:0016 00000000:0000 01 00000000:00000000 00:00000000 00000000     0        0 500 1",         # no newline at EOF
    b"  12: 0100007F:0016 00000000:0000 0a 00000000:00000000 00:00000000 00000000     0        0 512 1\n",     # lower-case state
    b"  13: 0100007F:0000 00000000:0000 0A 00000000:00000000 00:00000000 00000000     0        0 00500 1\n",   # inode text differs
    b"  14: 0100007F:0016 00000000:0000 0A 00000000:00000000 00:00000000 00000000     0        0 500 1\r\n",    # CRLF
    b"  15: 0100007F:0016 00000000:0000 0A 00000000:00000000 00:00000000 00000000\r     0        0 500 1\n",    # CR splits the line
]
RAW_LINES_UNIX = [
    b"0000000000000000: 00000002 00000000 00010000 0001 01   600 /tmp/a b\n",
    b"0000000000000000: 00000002 00000000 00010000 0001 01 601\n",
    b"0000000000000000: 00000002 00000000 00010000 0001 01\n",            # 6 tokens, blanks -> RuntimeError
    b"garbage\n",                                                         # issue 766: no blank -> skipped
    b"\n",
    b"0000000000000000: 00000002 00000000 00010000 000A 01 602 /x\n",     # int('000A') -> ValueError
    b"0000000000000000: 00000002 00000000 00010000 0010 01 603 /x\n",     # type 10 (decimal reading)
    b"0000000000000000: 00000002 00000000 00010000 0002 01 604  \n",      # only blanks after the inode
    b"0000000000000000: 00000002 00000000 00010000 0002 01 605 /a\n\n",   # blank line after
    b"0000000000000000: 00000002 00000000 00010000 0001 01   600 /tmp/no-newline-at-eof",
    b"0000000000000000: 00000002 00000000 00010000 0005 01 606 @a\tb \n",
    b"0000000000000000: 00000002 00000000 00010000 0001 01   600 /tmp/a\rb c\n",   # CR in the name
    b"0000000000000000: 00000002 00000000 00010000 0001 01 601 /x\r\n",            # name ends with CR
    b"0000000000000000: 00000002\r00000000 00010000 0001 01 600 /y\n",             # CR between fields
]
RAW_LINKS = [["target", b"socket:[500]".hex()], ["target", b"socket:[600]".hex()], ["target", b"socket:[601]".hex()],
             ["target", b"socket:[500] (deleted)".hex()], ["target", b"socket:[".hex()], ["target", b"socket:[]".hex()],
             ["target", b"socket:[500]x".hex()], ["target", b"socket:[500".hex()], ["target", b"Socket:[500]".hex()],
             ["target", b"socket:[500]\x00junk".hex()], ["target", b"pipe:[500]".hex()], ["target", b"/dev/null".hex()],
             ["target", b"socket:[00500]".hex()], ["target", b"socket:[602]".hex()], ["target", b"socket:[606]".hex()],
             ["enoent"], ["einval"], ["eacces"]]


def _raw_case(rng):
    files = {}
    hdr = b"header line\n"
    for name in ("tcp", "tcp6", "udp", "udp6"):
        if name.endswith("6") and rng.random() < 0.3:
            continue
        n = rng.choice([0, 1, 2, 3])
        lines = [RAW_LINES_INET[0] if rng.random() < 0.5 else rng.choice(RAW_LINES_INET) for _ in range(n)]
        if name.endswith("6"):
            lines = [ln.replace(b"0100007F", b"0000000000000000FFFF00000100007F").replace(b"00000000:0000", b"0" * 32 + b":0000")
                     for ln in lines]
        body = b"".join(ln if ln.endswith(b"\n") or i == len(lines) - 1 else ln + b"\n" for i, ln in enumerate(lines))
        files[name] = (hdr + body if rng.random() < 0.95 else b"").hex()
    n = rng.choice([0, 1, 2, 3])
    lines = [rng.choice(RAW_LINES_UNIX) for _ in range(n)]
    body = b"".join(ln if ln.endswith(b"\n") or i == len(lines) - 1 else ln + b"\n" for i, ln in enumerate(lines))
    files["unix"] = (hdr + body).hex()
    procs = []
    for pid in rng.sample([3, 10, 20, 555], rng.choice([1, 2, 3])):
        ents = []
        fds = rng.sample(range(0, 30), rng.choice([0, 1, 2, 4]))
        for fd in fds:
            ents.append([str(fd), rng.choice(RAW_LINKS)])
        procs.append({"pid": pid, "listing": rng.choice(["ok"] * 6 + ["denied", "gone"]), "ents": ents})
    kinds = rng.sample(KINDS, 3) + ["all"] + rng.sample(JUNK, 1)
    sel = [[i, rng.sample(KINDS, 2) + ["all"]] for i in range(len(procs)) if procs[i]["listing"] != "gone"][:2]
    o = [True, True] if rng.random() < 0.85 else [False, rng.random() < 0.5]
    return {"kind": "raw", "cls": "raw", "le": rng.random() < 0.9, "o": o, "files": files, "procs": procs, "kinds": kinds,
            "sel": sel}


GOOD_INET = RAW_LINES_INET[0]
GOOD_UNIX = b"0000000000000000: 00000002 00000000 00010000 0001 01   600 /tmp/a b\n"


def _malformed_case(rng, which):
    """Targeted inputs for the malformed-line branches and the 'no sockets' early return; 'expect' is what the
    line-level theorems say must happen (checked on the implementation independently of the model's answer)."""
    hdr = b"header line\n"
    files = {n: hdr.hex() for n in ("tcp", "tcp6", "udp", "udp6", "unix")}
    procs = [{"pid": 10, "listing": "ok", "ents": [["3", ["target", b"socket:[500]".hex()]], ["5", ["target", b"socket:[600]".hex()]]]},
             {"pid": 20, "listing": "ok", "ents": [["0", ["target", b"/dev/null".hex()]], ["1", ["target", b"pipe:[77]".hex()]]]}]
    expect = {}
    if which == "inet-short":
        n = rng.randint(0, 9)                      # fewer than 10 fields -> RuntimeError
        short = b" ".join(GOOD_INET.split()[:n]) + b"\n"
        pos = rng.choice(["first", "last"])
        body = (short + GOOD_INET) if pos == "first" else (GOOD_INET + short)
        name = rng.choice(["tcp", "udp"])
        files[name] = (hdr + body).hex()
        kinds = [name + "4", "unix", "inet"]
        expect = {"sys": {name + "4": "RuntimeError", "unix": 0, "inet": "RuntimeError"}}
    elif which == "inet-ten":
        ten = b" ".join(GOOD_INET.split()[:10]) + b"\n"   # exactly 10 fields: a row
        files["tcp"] = (hdr + ten).hex()
        kinds = ["tcp4", "tcp"]
        expect = {"sys": {"tcp4": 1, "tcp": 1}}
    elif which == "unix-766":
        junk = rng.choice([b"000000000000000000000000000000000000000000000000000000\n", b"\n", b"tail-of-a-name\n",
                           b"a\tb\tc\n", b"x\ty\tz\tu\tv\tw\n"])            # no blank, fewer than 7 fields -> skipped
        body = rng.choice([junk + GOOD_UNIX, GOOD_UNIX + junk, GOOD_UNIX + junk + junk])
        files["unix"] = (hdr + body).hex()
        kinds = ["unix", "all"]
        expect = {"sys": {"unix": 1, "all": 1}}
    elif which == "unix-short-blank":
        n = rng.randint(2, 6)                      # fewer than 7 fields, with a blank -> RuntimeError
        short = b" ".join(GOOD_UNIX.split()[:n]) + b"\n"
        files["unix"] = (hdr + rng.choice([short + GOOD_UNIX, GOOD_UNIX + short])).hex()
        kinds = ["unix", "all", "inet"]
        expect = {"sys": {"unix": "RuntimeError", "all": "RuntimeError", "inet": 0}}
    elif which == "unix-seven":
        seven = b" ".join(GOOD_UNIX.split()[:7]) + b"\n"  # exactly 7 fields: an unbound socket
        files["unix"] = (hdr + seven).hex()
        kinds = ["unix"]
        expect = {"sys": {"unix": 1}}
    elif which == "proc-nosock":
        # every table would raise if it were read; the process holds no socket -> [] and nothing opened
        for n in ("tcp", "tcp6", "udp", "udp6"):
            files[n] = (hdr + b"garbage line\n").hex()
        files["unix"] = (hdr + b"a b\n").hex()
        kinds = ["bogus"]
        expect = {"sys": {"bogus": "ValueError"}, "proc_empty": 1}
    else:
        raise ValueError(which)
    sel = [[1, list(KINDS)]] if which == "proc-nosock" else [[0, kinds[:1]]]
    return {"kind": "raw", "cls": "malformed-" + which, "le": True, "o": [True, True], "files": files, "procs": procs,
            "kinds": kinds, "sel": sel, "expect": expect}

MALFORMED = ["inet-short", "inet-ten", "unix-766", "unix-short-blank", "unix-seven", "proc-nosock"]


def gen_cases(rng, tier):
    n_state = {"quick": 120, "thorough": 2500, "search": 400}[tier]
    n_raw = {"quick": 60, "thorough": 1200, "search": 150}[tier]
    n_addr = {"quick": 100, "thorough": 2000, "search": 150}[tier]
    cases = []
    # ---- enumerated parts
    cases.append(_mk_state_case(rng, _all_classes_state()))
    cases[-1]["cls"] = "enum-kind-x-class"
    cases[-1]["sel"] = [[0, list(KINDS)], [1, list(KINDS)]]
    for o in ([False, False], [False, True]):
        c = _mk_state_case(rng, _all_classes_state())
        c["sel"] = [[0, list(KINDS)]]
        cases.append(_with_oracle(c, *o))
    # degenerate table files: each file x each form alone (other tables well-formed), and everything at once
    for name in TABLE_OF_FILE:
        for d in ("empty", "hdr", "nl"):
            st = _all_classes_state()
            st[TABLE_OF_FILE[name]] = []
            st["deg"] = {name: d}
            c = _mk_state_case(rng, st)
            c["sel"] = [[0, ["all", "inet", "unix", TABLE_OF_FILE[name] if name != "unix" else "unix"]]]
            cases.append(c)
    for d in ("empty", "hdr", "nl"):
        st = {"tcp4": [], "tcp6": [], "udp4": [], "udp6": [], "unix": [], "procs": _all_classes_state()["procs"],
              "deg": {n: d for n in TABLE_OF_FILE}}
        cases.append(_mk_state_case(rng, st))
    for which in MALFORMED:
        for _ in range({"quick": 6, "thorough": 60, "search": 6}[tier]):
            cases.append(_malformed_case(rng, which))
    for v6 in (False, True):
        cases.append(_mk_state_case(rng, _tcp_states_state(v6), le=True))
        cases[-1]["cls"] = "enum-tcp-states"
    if tier == "thorough":
        cases.append(_mk_state_case(rng, _all_classes_state(), le=False))
        cases[-1]["cls"] = "enum-kind-x-class"
        cases.append(_mk_state_case(rng, _tcp_states_state(True), le=False))
        cases[-1]["cls"] = "enum-tcp-states"
    positions = {"quick": [(False, 1), (True, 13)], "search": [(False, 0)],
                 "thorough": [(False, i) for i in range(4)] + [(True, i) for i in range(16)]}[tier]
    for le in ((True, False) if tier == "thorough" else (True,)):
        for v6, pos in positions:
            for b in range(256):
                ip = list((V6 if v6 else V4)[4])
                ip[pos] = b
                cases.append({"kind": "addr", "cls": "addr-enum", "le": le, "o": [True, True], "ip": ip, "port": 4660})
    ports = [0, 1, 255, 256, 4095, 4096, 65535] + (list(range(0, 65536, 257)) if tier == "thorough" else [])
    for p in ports:
        cases.append({"kind": "addr", "cls": "addr-port", "le": True, "o": [True, True], "ip": [10, 0, 0, 5], "port": p})
    # ---- fork: a thread is parked inside retrieve(), the main thread forks, the child must answer (4 per run)
    for i, park in enumerate(["system", "process", "system", "process"]):
        st = _all_classes_state() if i < 2 else _state(rng, [1, 2, 3], "ushared")
        c = _mk_state_case(rng, st)
        c["kind"], c["cls"], c["park"] = "fork", "fork-" + park, park
        c["kinds"] = ["all", "unix", "inet", "bogus"]
        vis = [j for j, p in enumerate(st["procs"]) if p["visible"]] or [0]
        c["sel"] = [[vis[0], ["all", "tcp"]]]
        cases.append(c)
    # ---- live: real sockets, the running kernel's /proc/net files and fd links (validates the kernel printers of Spec.v)
    if tier != "search":
        c = live.snapshot()
        c["kinds"] = list(KINDS) + ["bogus"]
        c["sel"] = [[0, list(KINDS)]]
        cases.append(c)
    # ---- random states
    for i in range(n_state):
        r = rng.random()
        flavour = "ushared" if r < 0.12 else ("leadws" if r < 0.18 else "plain")
        big = rng.random() < 0.04
        size = [5, 8, 6] if big else [0, 0, 1, 1, 2, 3]
        st = _state(rng, size, flavour)
        if rng.random() < 0.15:
            _degenerate(rng, st, p=0.7)
        c = _mk_state_case(rng, st, le=rng.random() < 0.85, all_kinds=not big)
        r = rng.random()
        if r < 0.10:
            _with_oracle(c, False, False)
        elif r < 0.14:
            _with_oracle(c, False, True)
        cases.append(c)
    # ---- random addresses
    for _ in range(n_addr):
        v6 = rng.random() < 0.5
        o = [True, True] if rng.random() < 0.7 else [False, rng.random() < 0.5]
        cases.append({"kind": "addr", "cls": "addr" if o[0] else "addr-no-ipv6", "le": rng.random() < 0.8, "o": o, "ip": _ip(rng, v6),
                      "port": rng.choice(PORTS) if rng.random() < 0.5 else rng.randrange(65536)})
    for a in [b"0100007F:0016", b"0100007f:0016", b"0100007F", b"0100007F:", b":0016", b"0100007F:0016:", b"01007F:0016",
              b"0100007F:0x16", b"0100007F:-1", b"0100007F:1_0", b"0100007F: 16", b"0100007F0:0016", b"0100007G:0016",
              b"0100007G:0000", b"0100007F:G", b"0000000000000000FFFF00000100007F:9E49", b"00000000000000FFFF00000100007F:9E49",
              b":1", b"::1", b"00:1"]:
        for fam in (AF_INET, AF_INET6):
            for o in ([True, True], [False, False]):
                cases.append({"kind": "addr_raw", "cls": "addr-raw", "le": True, "o": o, "text": a.hex(), "family": fam})
    # ---- malformed stream
    for _ in range(n_raw):
        cases.append(_raw_case(rng))
    return cases


# ------------------------------------------------------------------ Coq terms
def _quad(b):
    return "(%d,%d,%d,%d)" % tuple(b)


def _ipterm(ip):
    if len(ip) == 4:
        return "(IP4 %s)" % _quad(ip)
    return "(IP6 %s %s %s %s)" % (_quad(ip[0:4]), _quad(ip[4:8]), _quad(ip[8:12]), _quad(ip[12:16]))


def _padfun(pads):
    if not any(pads):
        return "(fun _ => O)"
    return "(fun i => nth i [%s]%%nat O)" % ";".join(str(p) for p in pads)


def _isock_layout(s, idx, wide):
    """(lead blanks, pads after tokens 0..8, first token) following the kernel's "%4d: ... %5u %8d %lu" layout."""
    sl = ("%5d:" if wide else "%4d:") % idx
    lead = len(sl) - len(sl.lstrip(" "))
    uid, timeout = str(s["uid"]), "0"
    pads = [0] * 9
    pads[0] = s["xpad"]
    pads[6] = max(0, 5 - len(uid))        # retrnsmt -> "%5u" uid
    pads[7] = max(0, 8 - len(timeout))    # uid -> "%8d" timeout
    return lead, pads, sl.strip(" "), uid, timeout


def _isock_term(s, idx, wide):
    if "raw" in s:       # a record parsed from the running kernel's file: its own layout
        r = s["raw"]
        lead, pads, sl, mid, ino, tail = r["lead"], r["pads"], r["sl"], r["mid"], r["ino"], bytes.fromhex(r["tail"])
    else:
        lead, pads, sl, uid, timeout = _isock_layout(s, idx, wide)
        mid, ino, tail = ["00000000:00000000", "00:00000000", "00000000", uid, timeout], str(s["inode"]), s["tail"]
    return "(Build_isock %s %s %s %s %s %s %s %s %s %s %s)" % (
        G.nat(lead), _padfun(pads), G.by(sl), _ipterm(s["lip"]), G.z(s["lport"]), _ipterm(s["rip"]), G.z(s["rport"]),
        G.z(s["st"]), G.lst([G.by(m) for m in mid]), G.by(ino), G.by(tail))


def _usock_term(u):
    ty = {1: "UStream", 2: "UDgram", 5: "USeqpacket"}.get(u["type"], "(UOther %d)" % u["type"])
    path = "None" if u["path"] is None else "(Some %s)" % G.by(bytes.fromhex(u["path"]))
    if "raw" in u:       # a record parsed from the running kernel's file
        r = u["raw"]
        return "(Build_usock %s %s %s %s %s %s %s %s %s)" % (
            _padfun(r["pads"]), G.by(r["num"]), G.by(r["ref"]), G.by(r["proto"]), G.by(r["flags"]), ty, G.by(r["st"]),
            G.by(r["ino"]), path)
    ino = str(u["inode"])
    pads = [0] * 6
    pads[0] = u["xpad"]
    pads[5] = max(0, 5 - len(ino))        # "%5lu"
    return "(Build_usock %s %s %s %s %s %s %s %s %s)" % (
        _padfun(pads), G.by("0000000000000000:"), G.by("%08X" % u["ref"]), G.by("00000000"), G.by("%08X" % u["flags"]), ty,
        G.by("%02X" % u["st"]), G.by(ino), path)


def _kproc_term(p):
    fds = []
    for f in p["fds"]:
        t = f["t"]
        if t[0] == "sock":
            tt = "(TSock %s)" % G.by(str(t[1]))
        elif t[0] == "other":
            tt = "(TOther %s false)" % G.by(t[1])
        else:
            tt = "TClosed"
        fds.append("(Build_kfd %s %s)" % (G.by(str(f["fd"])), tt))
    return "(Build_kproc %s %s %s)" % (G.z(p["pid"]), G.bo(p["visible"]), G.lst(fds))


def _kinds_term(ks):
    return G.lst([G.by(k) for k in ks])


def _sel_term(sel):
    return G.lst(["(%s, %s)" % (G.nat(i), _kinds_term(ks)) for i, ks in sel])


def _link_term(lk):
    if lk[0] == "target":
        return "(LTarget %s false)" % G.by(bytes.fromhex(lk[1]))
    return {"enoent": "LENOENT", "einval": "LEINVAL", "eacces": "LEACCES"}[lk[0]]


def _oracle_term(case):
    o = case.get("o", [True, True])
    return "(Build_ipv6_oracle %s %s)" % (G.bo(o[0]), G.bo(o[1]))


DEG = {"empty": "DEmpty", "hdr": "DHeaderNoNl", "nl": "DNewline"}
TABLE_OF_FILE = {"tcp": "tcp4", "tcp6": "tcp6", "udp": "udp4", "udp6": "udp6", "unix": "unix"}


def _deg_term(case):
    """file name -> degenerate form (a table file that exists but is 0 bytes / header without newline / lone newline)."""
    t = "None"
    for name, d in sorted((case.get("deg") or {}).items()):
        t = "if beqb n %s then Some %s else %s" % (G.by(name), DEG[d], t)
    return "(fun n => %s)" % t


def _degenerate(rng, st, p=1.0, only=None):
    """Give some of the socket-less tables of st a degenerate file."""
    deg = {}
    for name, tab in TABLE_OF_FILE.items():
        if only is not None and name not in only:
            continue
        if st[tab] == [] and rng.random() < p:
            deg[name] = rng.choice(["empty", "empty", "hdr", "nl"])
    st["deg"] = deg
    return st


def coq_term(case):
    k = case["kind"]
    if k in ("state", "live", "fork"):
        def tbl(name, wide):
            v = case[name]
            if v is None:
                return "None"
            t = G.lst([_isock_term(s, i, wide) for i, s in enumerate(v)])
            return "(Some %s)" % t if name.endswith("6") else t
        return "run_state %s %s %s (Build_kstate %s %s %s %s %s %s %s) %s %s" % (
            VARIANT, G.bo(case["le"]), _oracle_term(case), tbl("tcp4", False), tbl("tcp6", False), tbl("udp4", True),
            tbl("udp6", True), G.lst([_usock_term(u) for u in case["unix"]]), G.lst([_kproc_term(p) for p in case["procs"]]),
            _deg_term(case), _kinds_term(case["kinds"]), _sel_term(case["sel"]))
    if k == "raw":
        fs = G.lst(["(%s, %s)" % (G.by(n), G.by(bytes.fromhex(h))) for n, h in sorted(case["files"].items())])
        procs = []
        for p in case["procs"]:
            if p["listing"] == "ok":
                ls = "(LsOk %s)" % G.lst(["(%s, %s)" % (G.by(n), _link_term(lk)) for n, lk in p["ents"]])
            else:
                ls = {"denied": "LsDenied", "gone": "LsGone"}[p["listing"]]
            procs.append("(%s, %s)" % (G.z(p["pid"]), ls))
        return "run_raw %s %s %s %s %s %s %s" % (VARIANT, G.bo(case["le"]), _oracle_term(case), fs, G.lst(procs),
                                              _kinds_term(case["kinds"]), _sel_term(case["sel"]))
    if k == "addr":
        return "run_addr %s %s %s %s" % (G.bo(case["le"]), _oracle_term(case), _ipterm(case["ip"]), G.z(case["port"]))
    if k == "addr_raw":
        return "run_addr_raw %s %s %s %s" % (G.bo(case["le"]), _oracle_term(case), G.by(bytes.fromhex(case["text"])),
                                             G.z(case["family"]))
    raise ValueError(k)


def _canon_rows(o, drop_pid=False):
    """Val [rows] -> Val [sorted rows], duplicates KEPT (a multiset): a row counted twice must not hide."""
    if isinstance(o, dict) and o.get("t") == "Val":
        rows = o["a"][0]
        if drop_pid:
            rows = [r[:6] for r in rows]
        return Val(sorted(rows, key=lambda r: json.dumps(r, sort_keys=True)))
    return o


def _comp(x, drop_pid):
    """[returned rows, add() sequence, access log] of one call, canonical."""
    return [_canon_rows(x[0], drop_pid), _canon_rows(x[1], drop_pid), x[2]]


def coq_struct(case, raw):
    k = case["kind"]
    if k == "live":
        # the records were parsed from the running kernel's files: the spec's printers must give those bytes back
        live.check_printed(case, [None if x is None else unB(x) for x in raw[0]])
    if k in ("state", "live", "fork"):
        sysm = [_comp(x, False) for x in raw[2]]
        procm = [[_comp(x, True) for x in per] for per in raw[3]]
        syse = [[x[3], x[4]] for x in raw[2]]
        proce = [[[x[3], x[4]] for x in per] for per in raw[3]]
        return {"printed": raw[0], "wf": raw[1], "model": [sysm, procm], "entries": [syse, proce], "spec": None}
    if k == "raw":
        return {"model": [[_comp(x, False) for x in raw[0]], [[_comp(x, True) for x in per] for per in raw[1]]], "spec": None}
    if k == "addr":
        return {"printed": raw[0], "model": raw[1], "spec": raw[2]}
    if k == "addr_raw":
        return {"model": raw[0], "spec": None}
    raise ValueError(k)


# ------------------------------------------------------------------ oracle
OOM = {"t": "OutOfModel", "a": []}


def _row_matches(r, e, per_process):
    return r[1:6] == e[0:5] and any((per_process or o[0] == r[6]) and o[1] == r[0] for o in e[5])


def _perfect_matching(rows, entries, per_process):
    """Is there a bijection rows <-> entries with every row matching its entry (Kuhn's augmenting paths)?"""
    adj = [[j for j, e in enumerate(entries) if _row_matches(r, e, per_process)] for r in rows]
    match = [-1] * len(entries)

    def try_row(i, seen):
        for j in adj[i]:
            if j in seen:
                continue
            seen.add(j)
            if match[j] < 0 or try_row(match[j], seen):
                match[j] = i
                return True
        return False
    for i in range(len(rows)):
        if not adj[i]:
            return "add()ed row is not a demanded socket of this kind / owner: %r" % (rows[i],)
        if not try_row(i, set()):
            return "row add()ed more often than demanded (double count): %r" % (rows[i],)
    if -1 in match:
        return "socket missing from the answer: %r" % (entries[match.index(-1)],)
    return None


def _call_ok(comp, entries, slog, per_process, check_log=True):
    """The demanded answer as a relation on the MULTISET of add()ed rows: a bijection between add() calls and demanded
    entries (right fields, admissible owner; none missing, none twice); the returned list = the distinct add()ed rows,
    without duplicate; the tables read = the demanded access log."""
    final, adds, log = comp
    if not (isinstance(final, dict) and final.get("t") == "Val"):
        return "the call failed: %r" % (final,)
    rows = adds["a"][0]
    for r in rows + final["a"][0]:
        if isinstance(r, dict):
            return "bad tuple %r" % (r,)
    msg = _perfect_matching(rows, entries, per_process)
    if msg:
        return msg
    ret = final["a"][0]
    keys = [json.dumps(r, sort_keys=True) for r in ret]
    if len(set(keys)) != len(keys):
        return "duplicate row in the returned list: %r" % (ret,)
    if set(keys) != {json.dumps(r, sort_keys=True) for r in rows}:
        return "returned list is not the set of add()ed rows"
    if check_log and log != slog:
        return "tables read %r, demanded %r" % (log, slog)
    return None


def finding_key(case, coq):
    if case["kind"] not in ("state", "live", "fork"):
        return None
    if not EXACT_UNIX_PATH and any(u["path"] is not None and bytes.fromhex(u["path"])[:1]
                                   and bytes.fromhex(u["path"])[0] in WS for u in case["unix"]):
        return "unix-path-leading-blank"
    if not NEWLINE_LF and any(b"\r" in p for p in _upaths(case)):
        return "unix-path-with-cr"
    if not MERGE_INODES and _unix_shared(case):
        return "unix-socket-shared-between-processes"
    return None


def _expect_problems(case, impl):
    """Targeted malformed cases: what the line-level theorems say must happen."""
    ex = case.get("expect") or {}
    out = []
    for kind, got in zip(case["kinds"], impl[0]):
        want = ex.get("sys", {}).get(kind)
        if want is None:
            continue
        if isinstance(want, str):
            if got[0] != Exc(want):
                out.append("net_connections(%r): expected %s, got %r" % (kind, want, got[0]))
        elif not (isinstance(got[0], dict) and got[0].get("t") == "Val" and len(got[0]["a"][0]) == want):
            out.append("net_connections(%r): expected %d row(s), got %r" % (kind, want, got[0]))
    if ex.get("proc_empty"):
        for (idx, ks), gots in zip(case["sel"], impl[1]):
            for kind, got in zip(ks, gots):
                if got[0] != Val([]) or got[2] != []:
                    out.append("Process(%d).net_connections(%r) of a process without sockets: expected [] and no table read, "
                               "got %r, tables read %r" % (case["procs"][idx]["pid"], kind, got[0], got[2]))
    return out


def judge(case, coq, impl):
    from pv.core import Verdict, default_judge
    k = case["kind"]
    if k in ("addr", "addr_raw"):
        if coq["model"] == OOM:
            return Verdict("skip", "struct.error branch")
        return default_judge(None, case, coq, impl)
    model = coq["model"]
    problems, corr = [], []
    if k == "raw":
        problems.extend(_expect_problems(case, impl))
    if k == "live":
        if not coq["wf"]:
            raise RuntimeError("C11 live: the state parsed from the running kernel is outside the theorems' domain (wf_state / "
                               "files_text_safe false): %r" % ({n: case[t] for n, t in live.TABLE.items()},))
        problems.extend(impl[2])
        impl = impl[:2]
    if k in ("state", "live", "fork") and coq["wf"]:
        syse, proce = coq["entries"]
        for kind, got, (ent, slog) in zip(case["kinds"], impl[0], syse):
            if kind not in KINDS:
                if got[0] != Exc("ValueError") or got[2] != []:
                    problems.append("net_connections(%r): expected ValueError and no table read, got %r / %r" % (kind, got[0], got[2]))
                continue
            msg = _call_ok(got, ent, slog, False)
            if msg:
                problems.append("net_connections(%r): %s" % (kind, msg))
        for (idx, ks), gots, ents in zip(case["sel"], impl[1], proce):
            for kind, got, (ent, slog) in zip(ks, gots, ents):
                pid = case["procs"][idx]["pid"]
                if kind not in KINDS:
                    if got[0] != Exc("ValueError") or got[2] != []:
                        problems.append("Process(%d).net_connections(%r): expected ValueError and no table read, got %r / %r"
                                        % (pid, kind, got[0], got[2]))
                    continue
                if not case["procs"][idx]["visible"]:
                    if got[0] != Exc("AccessDenied"):
                        corr.append("hidden process: %r" % (got[0],))
                    continue
                msg = _call_ok(got, ent, slog, True)
                if msg:
                    problems.append("Process(%d).net_connections(%r): %s" % (pid, kind, msg))
    if problems:
        return Verdict("violation", "; ".join(problems[:3]))
    if k in ("state", "live", "fork") and coq["wf"] and finding_key(case, coq) is not None:
        # input class of a known finding: the implementation gave the demanded answer (the model holds the
        # defective one) -- accepted: "the modelled defective answer or the specification's"
        return Verdict("ok", "finding class, demanded answer")
    # correspondence, call by call (a call whose model answer is OutOfModel is skipped)
    n_cmp = 0
    for part in (0, 1):
        flat_m = model[part] if part == 0 else [x for per in model[part] for x in (per or [])]
        flat_i = impl[part] if part == 0 else [x for per in impl[part] for x in (per or [])]
        if len(flat_m) != len(flat_i):
            return Verdict("corr", "shape mismatch")
        for m, i in zip(flat_m, flat_i):
            if m[0] == OOM or m[1] == OOM:
                continue
            n_cmp += 1
            if m != i:
                corr.append("model %r / impl %r" % (m, i))
    if corr:
        return Verdict("corr", corr[0][:700])
    if n_cmp == 0:
        return Verdict("skip", "all calls out of model")
    return Verdict("ok")


# ------------------------------------------------------------------ implementation side
def _conv_addr(a, fam):
    """Type-aware: the empty tuple itself, an `addr` named tuple (ip str, port int), or a str (UNIX name / '')."""
    if type(a) is tuple and a == ():
        return T("Empty")
    if isinstance(a, tuple):
        if type(a).__name__ != "addr" or a._fields != ("ip", "port") or type(a.ip) is not str or type(a.port) is not int:
            return T("BadAddr", type(a).__name__)
        f = socket.AF_INET if fam == AF_INET else socket.AF_INET6
        return [B(socket.inet_pton(f, a.ip)), a.port]
    if type(a) is not str:
        return T("BadAddr", type(a).__name__)
    return B(os.fsencode(a))


def conv_family(x):
    """The CLASS of the value is part of the observation: an IntEnum member compares equal to its number."""
    if isinstance(x, socket.AddressFamily):
        return T("AddressFamily", int(x))
    return T("int", x) if type(x) is int else T("BadFamily", type(x).__name__)


def conv_kind(x):
    if isinstance(x, socket.SocketKind):
        return T("SocketKind", int(x))
    return T("int", x) if type(x) is int else T("BadType", type(x).__name__)


def conv_status(x, psutil):
    consts = {v for k, v in vars(psutil).items() if k.startswith("CONN_") and type(v) is str}
    return B(x) if type(x) is str and x in consts else T("BadStatus", repr(x))


def _conv_rows(per_process):
    name, fields = (("pconn", ("fd", "family", "type", "laddr", "raddr", "status")) if per_process else
                    ("sconn", ("fd", "family", "type", "laddr", "raddr", "status", "pid")))

    def conv(rows):
        if not isinstance(rows, list):
            return T("NotAList", type(rows).__name__)
        out = []
        for r in rows:
            if type(r).__name__ != name or r._fields != fields:
                out.append(T("BadTuple", type(r).__name__))
                continue
            import psutil
            fam = int(r.family) if isinstance(r.family, int) else -1
            fd = r.fd if type(r.fd) is int else T("BadFd", type(r.fd).__name__)
            row = [fd, conv_family(r.family), conv_kind(r.type), _conv_addr(r.laddr, fam), _conv_addr(r.raddr, fam),
                   conv_status(r.status, psutil)]
            if not per_process:
                row.append(r.pid if r.pid is None or type(r.pid) is int else T("BadPid", type(r.pid).__name__))
            out.append(row)
        return _canon_rows(Val(out))["a"][0]
    return conv


class _Host:
    """Installs the host oracle: inet_ntop(AF_INET6) raising ValueError (psutil issue 623) and supports_ipv6()'s answer."""

    def __init__(self, pslinux, ntop6, supported):
        self.m, self.ntop6, self.supported = pslinux, ntop6, supported

    def __enter__(self):
        self.saved = (socket.inet_ntop, self.m.supports_ipv6)
        real = socket.inet_ntop
        if not self.ntop6:
            def ntop(fam, packed):
                if fam == socket.AF_INET6:
                    raise ValueError("unknown address family %d" % fam)
                return real(fam, packed)
            socket.inet_ntop = ntop
        supported = self.supported
        self.m.supports_ipv6 = lambda: supported
        return self

    def __exit__(self, *a):
        socket.inet_ntop, self.m.supports_ipv6 = self.saved


def impl_run(case, coq, env):
    import psutil
    from psutil import _pslinux
    from pv import fakeproc
    k = case["kind"]
    saved_le = _pslinux.LITTLE_ENDIAN
    _pslinux.LITTLE_ENDIAN = bool(case["le"])
    o = case.get("o", [True, True])
    try:
        with _Host(_pslinux, o[0], o[1]):
            if k in ("addr", "addr_raw"):
                if k == "addr":
                    text = unB(coq["printed"]).decode("ascii")
                    fam = AF_INET6 if len(case["ip"]) == 16 else AF_INET
                else:
                    text = bytes.fromhex(case["text"]).decode("ascii")
                    fam = case["family"]
                return outcome(lambda: _pslinux.NetConnections.decode_address(text, fam), lambda a: _conv_addr(a, fam))
            res = _run_tables(case, coq, env, psutil, fakeproc)
            if k == "live":
                # the same question over the REAL /proc, for sockets opened in this process
                probs, _missing = live.real_proc_problems(psutil, env["work"], _conv_rows(False), _conv_rows(True), B, T)
                res = res + [probs]
            return res
    finally:
        _pslinux.LITTLE_ENDIAN = saved_le


def _run_tables(case, coq, env, psutil, fakeproc):
    from psutil import _pslinux
    k = case["kind"]
    root = os.path.join(env["work"], "proc")
    fp = fakeproc.FakeProc(root)
    fakeproc.attach(psutil, root)
    os.makedirs(os.path.join(root, "net"))
    if k in ("state", "live", "fork"):
        for name, content in zip(("tcp", "tcp6", "udp", "udp6", "unix"), coq["printed"]):
            if content is not None:
                with open(os.path.join(root, "net", name), "wb") as f:
                    f.write(unB(content))
        procs = [{"pid": p["pid"], "listing": "ok" if p["visible"] else "denied",
                  "ents": [[str(f["fd"]), (["target", ("socket:[%d]" % f["t"][1]).encode().hex()] if f["t"][0] == "sock" else
                                           ["target", f["t"][1].encode().hex()] if f["t"][0] == "other" else ["enoent"])]
                           for f in p["fds"]]} for p in case["procs"]]
    else:
        for name, h in case["files"].items():
            with open(os.path.join(root, "net", name), "wb") as f:
                f.write(bytes.fromhex(h))
        procs = case["procs"]
    fd_order, deny, gone, fail_link, nul_links = {}, set(), set(), {}, {}
    for p in procs:
        fp.add(p["pid"])
        fddir = os.path.join(root, str(p["pid"]), "fd")
        fd_order[fddir] = [n for n, _ in p["ents"]]
        if p["listing"] == "denied":
            deny.add(fddir)
        elif p["listing"] == "gone":
            gone.add(fddir)
        for n, lk in p["ents"]:
            link = os.path.join(fddir, n)
            if lk[0] == "target":
                raw = bytes.fromhex(lk[1])
                if b"\x00" in raw or not raw:
                    os.symlink(b"placeholder", os.fsencode(link))
                    nul_links[link] = os.fsdecode(raw)
                else:
                    os.symlink(raw, os.fsencode(link))
            elif lk[0] == "einval":
                with open(link, "wb"):
                    pass
            else:
                os.symlink(b"placeholder", os.fsencode(link))
                fail_link[link] = lk[0]
    pid_order = [str(p["pid"]).encode() for p in procs]
    real_listdir, real_readlink, real_open_text = os.listdir, os.readlink, _pslinux.open_text
    netdir = os.path.join(root, "net") + os.sep
    access, sets = [], []

    def fake_listdir(path=".", *a):
        if path in deny:
            raise PermissionError(errno.EACCES, "Permission denied", path)
        if path in gone:
            raise FileNotFoundError(errno.ENOENT, "No such file or directory", path)
        r = real_listdir(path, *a)
        if path in fd_order:
            assert sorted(r) == sorted(fd_order[path]), (r, fd_order[path])
            return list(fd_order[path])
        if path == os.fsencode(root):
            rest = [x for x in r if x not in pid_order]
            assert len(rest) + len(pid_order) == len(r), (r, pid_order)
            return rest + list(pid_order)
        return r

    def fake_readlink(path, *a, **kw):
        if path in fail_link:
            if fail_link[path] == "enoent":
                raise FileNotFoundError(errno.ENOENT, "No such file or directory", path)
            raise PermissionError(errno.EACCES, "Permission denied", path)
        if path in nul_links:
            return nul_links[path]
        return real_readlink(path, *a, **kw)

    def logging_open_text(fname, *a, **kw):
        if isinstance(fname, str) and fname.startswith(netdir):
            access.append(B(fname[len(netdir):]))
        return real_open_text(fname, *a, **kw)

    class RecordingSet(set):
        """Stands in for the builtin `set` inside psutil._pslinux: records every add() (the pre-set rows)."""

        def __init__(self, *a):
            super().__init__(*a)
            self.added = []
            sets.append(self)

        def add(self, x):
            self.added.append(x)
            super().add(x)

    def call(fn, per_process):
        del access[:]
        del sets[:]
        conv = _conv_rows(per_process)
        final = outcome(fn, conv)
        if final.get("t") == "Val":
            added = [x for st_ in sets for x in st_.added]
            adds = Val(conv(added))
        else:
            adds = final
        return [final, adds, list(access)]

    def all_calls():
        sys_res = [call(lambda kind=kind: psutil.net_connections(kind), False) for kind in case["kinds"]]
        proc_res = []
        for idx, ks in case["sel"]:
            pid = procs[idx]["pid"]
            proc_res.append([call(lambda kind=kind: psutil.Process(pid).net_connections(kind), True) for kind in ks])
        return sys_res, proc_res

    os.listdir, os.readlink, _pslinux.open_text = fake_listdir, fake_readlink, logging_open_text
    _pslinux.set = RecordingSet
    try:
        if k == "fork":
            sys_res, proc_res = _in_forked_child(case, procs, psutil, all_calls, root)
        else:
            sys_res, proc_res = all_calls()
    finally:
        os.listdir, os.readlink, _pslinux.open_text = real_listdir, real_readlink, real_open_text
        del _pslinux.set
    return [sys_res, proc_res]


def _in_forked_child(case, procs, psutil, all_calls, root):
    """Park a poller thread INSIDE retrieve() (its os.listdir blocks), os.fork() from the main thread, let the child make
    all the calls under an alarm and report through a pipe.  Whatever process-wide state net_connections() keeps (a lock
    held by the parked thread, which does not exist in the child) must not keep the child from answering."""
    import select
    import signal
    import threading
    parked, release = threading.Event(), threading.Event()
    inner_listdir = os.listdir
    poller_ident = []

    def blocking_listdir(path=".", *a):
        if poller_ident and threading.get_ident() == poller_ident[0] and not parked.is_set():
            parked.set()
            release.wait(30)
        return inner_listdir(path, *a)

    def poll():
        poller_ident.append(threading.get_ident())
        try:
            if case["park"] == "process":
                psutil.Process(procs[case["sel"][0][0]]["pid"]).net_connections("all")
            else:
                psutil.net_connections("all")
        except Exception:  # noqa
            pass
    os.listdir = blocking_listdir
    t = threading.Thread(target=poll, daemon=True)
    t.start()
    try:
        if not parked.wait(10):
            raise RuntimeError("C11 fork: the poller thread never reached os.listdir inside retrieve()")
        r, w = os.pipe()
        pid = os.fork()
        if pid == 0:   # ---- child: only this thread exists; every lock the parked thread held is still 'held'
            try:
                os.close(r)
                signal.signal(signal.SIGALRM, signal.SIG_DFL)     # a hang kills the child: nothing is written
                signal.alarm(6)
                os.listdir = inner_listdir
                res = all_calls()
                signal.alarm(0)
                os.write(w, json.dumps(res).encode())
            finally:
                os._exit(0)
        os.close(w)
        data = b""
        while True:
            ready, _, _ = select.select([r], [], [], 15)
            if not ready:
                break
            chunk = os.read(r, 1 << 16)
            if not chunk:
                break
            data += chunk
        os.close(r)
        try:
            os.kill(pid, 9)
        except OSError:
            pass
        os.waitpid(pid, 0)
    finally:
        release.set()
        t.join(10)
        os.listdir = inner_listdir
    if not data:
        hang = T("HangInForkedChild")
        return ([[hang, hang, []] for _ in case["kinds"]], [[[hang, hang, []] for _ in ks] for _, ks in case["sel"]])
    sys_res, proc_res = json.loads(data.decode())
    return sys_res, proc_res


MANIFEST = {
    "text": "Theorems (Coq, closed under the global context) about a Gallina transcription of psutil's Linux net_connections(): (1) over the "
            "tables dumped from the code on every run (tmap, conn_tmap, TCP_STATUSES): for all 11 kinds tmap lists exactly the (file, family, "
            "type) classes the documented kind table admits, agrees with conn_tmap, and every kind outside the 11 raises ValueError whatever the "
            "kernel state, reading nothing; (2) for every IPv4/IPv6 address and every port the decoder returns the address bytes and port the "
            "kernel printed (both byte orders), () for port 0, and on a host whose inet_ntop lacks IPv6 ValueError / _Ipv6UnsupportedError as "
            "supports_ipv6() says; (3) for every kernel state (any number of sockets, any addresses/ports, all 11 TCP states, UNIX names with "
            "any bytes except LF and NUL -- leading/trailing/repeated blanks, CR, \\x1c-\\x1f, Unicode blanks, @abstract names; a name with LF "
            "splits its record in the kernel's output and is the one excluded class, stated with a witness --, any descriptor tables incl. "
            "sockets shared between processes, hidden "
            "processes, absent IPv6 files) and every kind, system-wide and per process: the sequence of set.add() calls is in bijection with the "
            "demanded rows (none missing, none twice; family and type ARE the socket.AddressFamily / socket.SocketKind members -- SOCK_SEQPACKET, not "
            "the bare 5 -- and a number without a member stays a plain int; admissible owner, (None,-1) when no holder is visible, one row per holder for UNIX sockets, "
            "TCP/UDP: first holder in scan order), the returned list is the duplicate-free set of them (duplicate-freeness holds for EVERY input), "
            "and exactly the existing tables of the kind are opened, each once -- none when the process holds no socket; (4) without IPv6 support "
            "the IPv4/UNIX rows are unchanged and only IPv6 sockets with both ports 0 remain; (5) RuntimeError is raised exactly for TCP/UDP lines "
            "with fewer than 10 fields and UNIX lines with fewer than 7 fields and a blank, blank-free short UNIX lines (issue 766) are skipped "
            "and change nothing. The code before the fixes d36edd1 / 9cf9292 / 0e98900 is kept as model variants with the three refuted statements. The "
            "model is tied to the code by running real psutil through its public API over a fake /proc for generated states, all kinds, hosts "
            "with and without IPv6, and a malformed stream, comparing per call the returned list, the add() multiset and the access log.",
    "note": "Trusted: Coq kernel + vm_compute; hand-written model coq/C11/Model.v (tied by the correspondence run only); kernel formats in "
            "coq/C11/Spec.v; the table translator; harness (fake /proc, os.listdir/os.readlink patches); CPython builtins; glibc inet_ntop "
            "(addresses compared as packed bytes); the harness hooks (recording set, open_text and inet_ntop wrappers). Text-mode-only white space (\\r, \\x1c-\\x1f, Unicode blanks) is outside the model. "
            "Proof covers the model, sampling covers model-vs-code.",
}
