"""C19 worker side: builds the fake /sys and /proc trees and calls the real psutil through its public API."""
import importlib
import os
import shutil
from fractions import Fraction

from pv.canon import B, T, Val, outcome, unB
from props._c19_gen import (CPU, HW, PS, TZ, battery_files, chip_prefix, cpufreq_sysfs, effective_plat, sorted_fan_chips,
                            sorted_temp_chips, sorted_zones, spec_to_raw, visible)

_st = {}
TOL = Fraction(1, 2 ** 48)


def setup(env):
    from pv.shim import Shim
    root = os.path.join(env["work"], "k")
    shutil.rmtree(root, ignore_errors=True)
    os.makedirs(root + CPU + "/cpu0/cpufreq")
    os.makedirs(root + "/proc")
    with open(root + "/proc/stat", "wb") as f:
        f.write(b"cpu  1 1 1 1 1 1 1 1 1 1\ncpu0 1 1 1 1 1 1 1 1 1 1\nbtime 1500000000\n")
    with open(root + "/proc/cpuinfo", "wb") as f:
        f.write(b"")
    sh = Shim({"/sys": root + "/sys"})
    sh.install()
    _st.update(root=root, shim=sh, sysfs=True, err=set(), readerr={})
    install_read_errors()

    def fault(kind, path, idx):
        if kind == "open" and path in _st["err"]:
            return PermissionError(13, "Permission denied", path)
        return None
    sh.fault = fault


# ------------------------------------------------------------------ files that open but cannot be read
class ReadErrFile:
    """what open() returns for a sysfs attribute whose driver answers read(2) with an error"""

    def __init__(self, real, err):
        self._real = real
        self._err = err

    def _fail(self, *a, **kw):
        raise OSError(self._err, os.strerror(self._err))

    read = readline = readlines = read1 = readinto = __next__ = _fail

    def __iter__(self):
        return self

    def __enter__(self):
        return self

    def __exit__(self, *a):
        self._real.close()
        return False

    def close(self):
        self._real.close()

    def fileno(self):
        return self._real.fileno()


def install_read_errors():
    import builtins
    import errno
    import io
    inner = builtins.open          # the shim's path-rewriting open

    def open_(path, *a, **kw):
        f = inner(path, *a, **kw)
        p = os.fsdecode(path) if isinstance(path, (bytes, os.PathLike)) else path
        e = _st["readerr"].get(p) if isinstance(p, str) else None
        if e is not None:
            return ReadErrFile(f, getattr(errno, e))
        return f
    builtins.open = open_
    io.open = open_


# ------------------------------------------------------------------ tree
def _state(x):
    """file state from a raw case value (["C", text] / ["A"] / ["E"]) or a printed jfres"""
    if isinstance(x, dict):
        if "b" in x:
            return unB(x)
        return None if x["t"] == "Absent" else "ERR"
    if x[0] == "C":
        return x[1].encode("utf-8", "surrogateescape")
    if x[0] == "A":
        return None
    return ("RERR", x[1]) if len(x) > 1 else "ERR"


class Tree:
    def __init__(self):
        self.files = {}
        self.dirs = set()

    def put(self, path, x, orig=None):
        """x: printed or raw state; orig: the case's own value for this file (tells HOW an unreadable file fails)"""
        s = _state(x)
        if s == "ERR" and isinstance(orig, list) and len(orig) > 1 and orig[0] in ("U", "E"):
            s = ("RERR", orig[1])
        if s is not None:
            self.files[path] = s

    def write(self):
        root = _st["root"]
        shutil.rmtree(root + "/sys", ignore_errors=True)
        os.makedirs(root + "/sys")
        err = set()
        rerr = {}
        for d in self.dirs:
            os.makedirs(root + d, exist_ok=True)
        for p, s in self.files.items():
            os.makedirs(os.path.dirname(root + p), exist_ok=True)
            with open(root + p, "wb") as f:
                f.write(s if isinstance(s, bytes) else b"")
            if s == "ERR":
                err.add(p)
            elif isinstance(s, tuple):
                rerr[p] = s[1]
        _st["err"] = err
        _st["readerr"] = rerr
        _st["shim"].log = []


def write_proc(name, x):
    p = _st["root"] + "/proc/" + name
    s = _state(x)
    _st["err"].discard("PROC/" + name)
    if s is None:
        if os.path.exists(p):
            os.unlink(p)
    else:
        with open(p, "wb") as f:
            f.write(b"" if s == "ERR" else s)


# ------------------------------------------------------------------ canonical values
def fl(x):
    if x is None:
        return None
    if isinstance(x, bool):
        return x
    if isinstance(x, float) and (x != x or x in (float("inf"), float("-inf"))):
        return T("NonFinite")
    f = Fraction(x)
    return {"f": [f.numerator, f.denominator]}


def close(a, q):
    return abs(a - q) <= TOL * max(1, abs(q))


def snap(impl, model, slack=0):
    """replace implementation floats by the model's exact rational when they agree within the tolerance
    (otherwise by their own exact value), so that results compare with == afterwards"""
    if isinstance(impl, dict) and "f" in impl:
        a = Fraction(impl["f"][0], impl["f"][1])
        if isinstance(model, dict) and model.get("t") == "Q":
            q = Fraction(model["a"][0], model["a"][1])
            if close(a, q) or (slack and abs(a - q) <= slack + TOL * max(1, abs(q))):
                return model
        return {"t": "Q", "a": [a.numerator, a.denominator]}
    if isinstance(impl, dict) and "t" in impl:
        margs = model["a"] if isinstance(model, dict) and model.get("t") == impl["t"] and len(model.get("a", [])) == len(impl["a"]) else [None] * len(impl["a"])
        return {"t": impl["t"], "a": [snap(i, m, slack) for i, m in zip(impl["a"], margs)]}
    if isinstance(impl, list):
        ms = model if isinstance(model, list) and len(model) == len(impl) else [None] * len(impl)
        return [snap(i, m, slack) for i, m in zip(impl, ms)]
    return impl


def snap_best(r, model, spec, slack=0):
    """snap to the model's rationals; when that does not give the model's answer, try the specification's
    (an implementation that is right where the model is not must still compare equal to the specification)"""
    a = snap(r, model, slack)
    if a != model and spec is not None:
        b = snap(r, spec, slack)
        if b == spec:
            return b
    return a


def tv(x):
    """TYPE-aware canonical form of one result value: None / bool / int / float / str are told apart by their exact
    type (True is not 1, 45 is not 45.0), an enum member by class, name, value and identity with the documented
    psutil constant; anything else is reported by its type name and can equal nothing the model says"""
    import enum
    import psutil
    if x is None:
        return None
    if type(x) is bool:
        return T("True" if x else "False")      # same node as props/C19.norm gives the model's booleans (True == 1 in Python)
    if isinstance(x, enum.Enum):
        if getattr(psutil, x.name, None) is not x:
            return T("EnumNotTheDocumentedConstant", type(x).__name__, x.name)
        return T("Enum", B(type(x).__name__), B(x.name), int(x))
    if type(x) is int:
        return x
    if type(x) is float:
        return fl(x)
    if type(x) is str:
        return B(os.fsencode(x))
    return T("Type", type(x).__name__, repr(x)[:60])


def nt_ok(r, name, fields):
    """named tuple class and field order as documented"""
    import psutil
    cls = type(r)
    return (cls is getattr(psutil._common, name, None) and cls.__name__ == name and tuple(cls._fields) == fields
            and tuple(r) == tuple(getattr(r, f) for f in fields))


def conv_temps(d):
    if type(d) is not dict:
        return T("Type", type(d).__name__)
    out = []
    for k in sorted(d, key=os.fsencode):
        rows = []
        if type(d[k]) is not list:
            return T("Type", type(d[k]).__name__)
        for r in d[k]:
            if not nt_ok(r, "shwtemp", ("label", "current", "high", "critical")):
                return T("WrongClass", type(r).__name__)
            rows.append([tv(r.label), tv(r.current), tv(r.high), tv(r.critical)])
        out.append([tv(k), rows])
    return out


def conv_fans(d):
    if type(d) is not dict:
        return T("Type", type(d).__name__)
    out = []
    for k in sorted(d, key=os.fsencode):
        rows = []
        if type(d[k]) is not list:
            return T("Type", type(d[k]).__name__)
        for r in d[k]:
            if not nt_ok(r, "sfan", ("label", "current")):
                return T("WrongClass", type(r).__name__)
            rows.append([tv(r.label), tv(r.current)])
        out.append([tv(k), rows])
    return out


def conv_battery(b):
    if b is None:
        return None
    if not nt_ok(b, "sbattery", ("percent", "secsleft", "power_plugged")):
        return T("WrongClass", type(b).__name__)
    return [tv(b.percent), tv(b.secsleft), tv(b.power_plugged)]


def conv_freq(f):
    if f is None:
        return None
    if not nt_ok(f, "scpufreq", ("current", "min", "max")):
        return T("WrongClass", type(f).__name__)
    return [tv(f.current), tv(f.min), tv(f.max)]


# ------------------------------------------------------------------ runners
def run(case, coq, env):
    import psutil
    psutil.PROCFS_PATH = _st["root"] + "/proc"
    k = case["kind"]
    if k == "history":
        # the steps run one after the other in this process: nothing may be remembered from the previous answer
        return [run(c, q, env) for c, q in zip(case["steps"], coq["steps"])]
    fn = globals()["run_" + k.replace("_raw", "").replace("_coretemp", "")]
    return fn(psutil, case, coq, k.endswith("_raw"))


def put_temp_chips(t, chips, pe, prefix):
    i = 0
    for c in chips:
        pre = prefix(c)
        t.dirs.add(pre)
        for s in c["sensors"]:
            if not visible(s, ("input", "max", "crit", "label")):
                continue
            inp, name, mx, cr, lab = pe[i]
            i += 1
            base = pre + "temp%d" % s["n"]
            if s["other"]:
                t.put(base + "_min", ["C", "0\n"])
            t.put(base + "_input", inp, s["input"])
            t.put(base + "_max", mx, s["max"])
            t.put(base + "_crit", cr, s["crit"])
            t.put(base + "_label", lab, s["label"])
            t.put(pre + "name", name, c["name"])
        if c["name"][0] != "A" and pre + "name" not in t.files:
            t.put(pre + "name", ["C", c["name"][1] + "\n"] if c["name"][0] == "P" else ["E"] + c["name"][1:])
    assert i == len(pe), (i, len(pe))


def run_temps(psutil, case, coq, raw):
    t = Tree()
    t.dirs.add(HW)
    if raw:
        for e in case["entries"]:
            if e.get("coretemp"):
                t.put(e["base"], ["C", "1\n"])
                continue
            t.put(e["base"] + "_min", ["C", "0\n"])
            for f in ("input", "max", "crit", "label"):
                t.put(e["base"] + "_" + f, e[f])
            t.put(e["namepath"], e["name"])
        for z in case["zones"]:
            zp = "%s/thermal_zone%d" % (TZ, z["idx"])
            t.dirs.add(zp)
            t.put(zp + "/temp", z["temp"])
            t.put(zp + "/type", z["type"])
            for tr in z["trips"]:
                t.put("%s/trip_point_%d_type" % (zp, tr["idx"]), tr["type"])
                t.put("%s/trip_point_%d_temp" % (zp, tr["idx"]), tr["temp"])
                t.put("%s/trip_point_%d_hyst" % (zp, tr["idx"]), ["C", "0\n"])
    else:
        pe, pz = coq["printed"][0], coq["printed"][1]
        put_temp_chips(t, sorted_temp_chips(case["chips"]), pe, lambda c: chip_prefix(c))
        if case["kind"] == "temps_coretemp":
            eff = sorted_temp_chips(effective_plat(case))
            put_temp_chips(t, eff, coq["printed"][2], lambda c: chip_prefix(c))
            # platform copies of sensors that are also listed below /sys/class/hwmon: present in the tree, never read
            kept = {(c["dir"], s["n"]) for c in eff for s in c["sensors"]}
            for c in case["plat"]:
                for s_ in c["sensors"]:
                    if (c["dir"], s_["n"]) not in kept:
                        base = chip_prefix(c) + "temp%d" % s_["n"]
                        for f in ("input", "max", "crit", "label"):
                            t.put(base + "_" + f, spec_to_raw(s_[f]))
        for z, p in zip(sorted_zones(case["zones"]), pz):
            zp = "%s/thermal_zone%d" % (TZ, z["idx"])
            t.dirs.add(zp)
            t.put(zp + "/temp", p[0], z["temp"])
            t.put(zp + "/type", p[1], z["type"])
            for tr, pt in zip(z["trips"], p[2]):
                t.put("%s/trip_point_%d_type" % (zp, tr["idx"]), pt[0], tr["type"])
                t.put("%s/trip_point_%d_temp" % (zp, tr["idx"]), pt[1], tr["temp"])
    t.write()
    r = outcome(lambda: psutil.sensors_temperatures(fahrenheit=case["fahr"]), conv_temps)
    return snap_best(r, coq["model"], coq.get("spec"))


def run_fans(psutil, case, coq, raw):
    t = Tree()
    t.dirs.add(HW)
    if raw:
        for e in case["entries"]:
            t.put(e["base"] + "_min", ["C", "0\n"])
            t.put(e["base"] + "_input", e["input"])
            t.put(e["base"] + "_label", e["label"])
            t.put(e["namepath"], e["name"])
    else:
        pe = coq["printed"]
        i = 0
        for c in sorted_fan_chips(case["chips"]):
            pre = chip_prefix(c)
            t.dirs.add(pre)
            for f in c["fans"]:
                if not visible(f, ("input", "label")):
                    continue
                base = pre + "fan%d" % f["n"]
                if f["other"]:
                    t.put(base + "_min", ["C", "0\n"])
                inp, name, lab = pe[i]
                i += 1
                t.put(base + "_input", inp, f["input"])
                t.put(base + "_label", lab, f["label"])
                t.put(pre + "name", name, c["name"])
        assert i == len(pe), (i, len(pe))
    t.write()
    return outcome(psutil.sensors_fans, conv_fans)


def run_battery(psutil, case, coq, raw):
    t = Tree()
    if case["dir"]:
        t.dirs.add(PS)
    if raw:
        if case["dir"]:
            for e in case["entries"]:
                t.dirs.add(PS + "/" + e["name"])
                for f in battery_files:
                    t.put("%s/%s/%s" % (PS, e["name"], f), e["files"][f])
            t.put(PS + "/AC0/online", case["ac0"])
            t.put(PS + "/AC/online", case["ac"])
    else:
        listing, ac0, ac = coq["printed"]
        if case["dir"]:
            for (name, files), e in zip(listing, case["entries"]):
                d = PS + "/" + os.fsdecode(unB(name))
                t.dirs.add(d)
                if e["bat"] is not None:
                    b = e["bat"]
                    origs = [b["now"][0], b["now"][1], b["power"][0], b["power"][1], b["full"][0], b["full"][1],
                             b["tte"], b["capacity"], b["status"]]
                    for f, x, o in zip(battery_files, files, origs):
                        t.put(d + "/" + f, x, o)
            t.put(PS + "/AC0/online", ac0, case["ac0"])
            t.put(PS + "/AC/online", ac, case["ac"])
    t.write()
    r = outcome(psutil.sensors_battery, conv_battery)
    r = snap_best(r, coq["model"], coq.get("spec"))
    # int(now / power * 3600) is a truncation of a double: accept the neighbouring integer when the exact
    # value is (within rounding) an integer
    m = coq["model"]
    ex = coq.get("secs_exact")
    if (ex and r.get("t") == "Val" and m.get("t") == "Val" and isinstance(r["a"][0], list) and isinstance(m["a"][0], list)
            and type(r["a"][0][1]) is int and type(m["a"][0][1]) is int and abs(r["a"][0][1] - m["a"][0][1]) == 1):
        q = Fraction(ex["a"][0], ex["a"][1])
        if abs(q - round(q)) <= Fraction(1, 10 ** 9) * max(1, abs(q)):
            r["a"][0][1] = m["a"][0][1]
    return r


def ensure_variant(psutil):
    """re-run psutil._pslinux's import-time choice of cpu_freq implementation against the current tree"""
    want = os.path.exists(CPU + "/cpufreq/policy0") or os.path.exists(CPU + "/cpu0/cpufreq")
    if want != _st["sysfs"]:
        importlib.reload(psutil._pslinux)
        _st["sysfs"] = want
    return want


def run_cpufreq(psutil, case, coq, raw):
    t = Tree()
    t.dirs.add(CPU)
    cpus = sorted(case["cpus"], key=lambda c: c["idx"])
    if raw:
        write_proc("cpuinfo", case["cpuinfo"])
        pols = [[c["scur"], c["ccur"], c["min"], c["max"], c["online"]] for c in cpus]
    else:
        write_proc("cpuinfo", coq["printed"][0])
        pols = coq["printed"][1]
    for pos, (c, p) in enumerate(zip(cpus, pols)):
        d = "%s/cpufreq/policy%d" % (CPU, c["idx"]) if case["nest"] == "policy" else "%s/cpu%d/cpufreq" % (CPU, c["idx"])
        t.dirs.add(d)
        origs = (c["cur"] + [None, None]) if (not raw and c.get("kind") == "on") else [None] * 4
        for f, x, o in zip(("scaling_cur_freq", "cpuinfo_cur_freq", "scaling_min_freq", "scaling_max_freq"), p, origs):
            t.put(d + "/" + f, x, o)
        t.put("%s/cpu%d/online" % (CPU, pos), p[4])
    t.write()
    assert ensure_variant(psutil) == cpufreq_sysfs(case)
    percpu = outcome(lambda: psutil.cpu_freq(percpu=True),
                     lambda l: [conv_freq(f) for f in l] if type(l) is list else T("Type", type(l).__name__))
    mean = outcome(lambda: psutil.cpu_freq(), conv_freq)
    # cpuinfo-sourced current frequency goes through int(float * 1000): up to 1 kHz below the exact value
    slack = Fraction(1, 1000) if case.get("cls") in ("cpufreq-sysfs-cpuinfo-cur", "cpufreq-raw") else 0
    sp = coq.get("spec") or [None, None]
    return [snap_best(percpu, coq["model"][0], sp[0], slack), snap_best(mean, coq["model"][1], sp[1], slack)]


def run_cpucount(psutil, case, coq, raw):
    t = Tree()
    t.dirs.add(CPU)
    if raw:
        write_proc("cpuinfo", case["cpuinfo"])
        write_proc("stat", case["stat"])
        lists = case["lists"]
    else:
        write_proc("cpuinfo", coq["printed"][0])
        write_proc("stat", coq["printed"][1])
        lists = coq["printed"][2]
    for j, x in enumerate(lists):
        t.put("%s/cpu%d/topology/%s" % (CPU, j, case["lists_kind"]), x)
    t.write()
    real = os.sysconf

    def fake(name):
        if name == "SC_NPROCESSORS_ONLN":
            if case["sysconf"] is None:
                raise ValueError("unrecognized configuration name")
            return case["sysconf"]
        return real(name)
    os.sysconf = fake
    try:
        a = outcome(lambda: psutil.cpu_count(logical=True), tv)
        b = outcome(lambda: psutil.cpu_count(logical=False), tv)
    finally:
        os.sysconf = real
    return [a, b]


def run_stat(psutil, case, coq, raw):
    write_proc("stat", case["stat"] if raw else coq["printed"])

    def conv_stats(s):
        if not nt_ok(s, "scpustats", ("ctx_switches", "interrupts", "soft_interrupts", "syscalls")):
            return T("WrongClass", type(s).__name__)
        return [tv(s.ctx_switches), tv(s.interrupts), tv(s.soft_interrupts), tv(s.syscalls)]
    a = outcome(psutil.cpu_stats, conv_stats)
    b = outcome(psutil.boot_time, tv)
    return [a, snap_best(b, coq["model"][1], (coq.get("spec") or [None, None])[1])]
