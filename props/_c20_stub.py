"""C20 -- stub native layer: loads the five non-Linux platform modules of the psutil under
test on Linux (three flavours of _psbsd) and drives their Process classes over a simulated
native layer with fault injection.  Also loads a COPY of the package front end per platform.

Everything here is harness (trusted); nothing is imported from /repo except the files named.
World model of one run:
  pid      the PID of the Process object (0 or 7)
  state    'alive' | 'zombie' | 'gone'   what the OS's process listing truthfully says
  site     name of the native call that fails (every invocation made by the method body)
  err      symbolic error raised there (errno name or Windows code)
Probes made by the error ladder itself (is_zombie / pid_exists / pids) are answered truthfully
('suspended' mode): a gone PID gives ESRCH there, a zombie has the zombie status code.
"""
import errno as _errno
import importlib.util
import os as _os
import shutil
import signal
import sys
import types

# ---- list-then-read loops: (platform, method) -> per-item access point.  The fault plan {site: [(1, err or None), ...]}
# addresses the ordinal of the call AT that access point (item j fails after the items before it were read), and
# combines with a fault at another access point (the trailing liveness probe os.stat).
LOOPS = {("sunos", "threads"): "query_process_thread", ("sunos", "open_files"): "os.readlink",
         ("sunos", "memory_maps"): "os.readlink"}


def loop_faults(plat, meth, outs, stat):
    f = {LOOPS[(plat, meth)]: [(1, o) for o in outs]}
    if stat is not None:
        f["os.stat"] = [(None, stat)]
    return f


def loop_answer(layer, meth, val):
    """Canonical answer of a loop method: which items of the listing it holds, in order."""
    from pv.canon import T
    out = []
    for x in val:
        try:
            if meth == "threads":
                i, ok = x.id - BASE["os.listdir"], (x.user_time, x.system_time) == (BASE["query_process_thread"], BASE["query_process_thread"] + 1)
                out.append(T("Read", i) if ok else T("Bad", i))
            elif meth == "open_files":
                out.append(T("Read", x.fd - BASE["os.listdir"]) if x.path == "/f%d" % BASE["os.readlink"] else T("Bad", x.fd))
            else:
                i = x[3] - 5000
                if x[2] == "/f%d" % BASE["os.readlink"]:
                    out.append(T("Read", i))
                elif x[2].endswith("/%d/path/n%d" % (layer.world.pid, i)):
                    out.append(T("Unres", i))
                else:
                    out.append(T("Bad", i))
        except Exception:  # noqa
            out.append(T("Bad", -1))
    return T("List", out)


PLATS = ["freebsd", "openbsd", "netbsd", "macos", "sunos", "aix", "windows"]
FILES = dict(freebsd="_psbsd.py", openbsd="_psbsd.py", netbsd="_psbsd.py", macos="_psosx.py",
             sunos="_pssunos.py", aix="_psaix.py", windows="_pswindows.py")
CEXT = dict(freebsd="_psutil_bsd", openbsd="_psutil_bsd", netbsd="_psutil_bsd", macos="_psutil_osx",
            sunos="_psutil_sunos", aix="_psutil_aix", windows="_psutil_windows")
ALLFLAGS = ["LINUX", "WINDOWS", "MACOS", "OSX", "FREEBSD", "OPENBSD", "NETBSD", "BSD", "SUNOS", "AIX", "POSIX"]
FLAGS = dict(
    freebsd=["FREEBSD", "BSD", "POSIX"], openbsd=["OPENBSD", "BSD", "POSIX"], netbsd=["NETBSD", "BSD", "POSIX"],
    macos=["MACOS", "OSX", "POSIX"], sunos=["SUNOS", "POSIX"], aix=["AIX", "POSIX"], windows=["WINDOWS"])
OSNAME = dict(freebsd=("posix", "freebsd14"), openbsd=("posix", "openbsd7"), netbsd=("posix", "netbsd10"),
              macos=("posix", "darwin"), sunos=("posix", "sunos5"), aix=("posix", "aix7"), windows=("nt", "win32"))

# ---- the native one-shot records: (function name, length, index of the status slot or None)
RECORDS = dict(
    freebsd=[("proc_oneshot_info", 25, 1)], openbsd=[("proc_oneshot_info", 25, 1)], netbsd=[("proc_oneshot_info", 25, 1)],
    macos=[("proc_kinfo_oneshot", 11, 9), ("proc_pidtaskinfo_oneshot", 8, None)],
    sunos=[("proc_basic_info", 12, 6), ("proc_cred", 6, None), ("proc_cpu_times", 4, None), ("proc_num_ctx_switches", 2, None)],
    aix=[("proc_basic_info", 8, 6), ("proc_cred", 6, None), ("proc_cpu_times", 4, None), ("proc_num_ctx_switches", 2, None),
         ("proc_io_counters", 4, None)],
    windows=[("proc_info", 22, None), ("proc_memory_info", 10, None), ("proc_times", 3, None), ("proc_io_counters", 6, None)])
# further fixed-shape native answers holding sentinels: (function, shape)
SCALARS = ["proc_num_threads", "proc_num_fds", "getpriority", "proc_cpu_num", "proc_memory_uss", "proc_num_handles"]
_ALLFN = sorted({r[0] for v in RECORDS.values() for r in v} | set(SCALARS) | {"proc_threads", "proc_open_files", "proc_getrlimit",
                                                                              "query_process_thread", "ppid_map",
                                                                              "proc_cmdline", "proc_args", "proc_name_and_args",
                                                                              "proc_environ", "net_connections", "proc_net_connections",
                                                                              "proc_memory_maps", "os.listdir", "os.readlink"})
# natives answering with one row of heterogeneous values (strings, enums, address pairs): a base row of
# sentinels and an alternative row; world.rowalt = {fn: i} swaps slot i for its alternative (perturbation)
ROWFNS = ["proc_cmdline", "proc_args", "proc_name_and_args", "proc_environ", "net_connections", "proc_net_connections",
          "proc_memory_maps"]
# functions whose sentinels are plain ints that a test case may replace by random values
INT_FNS = None
BASE = {fn: 1000 + 100 * i for i, fn in enumerate(_ALLFN)}          # sentinel of slot k of fn = BASE[fn] + k
INT_FNS = sorted({r[0] for v in RECORDS.values() for r in v} | set(SCALARS) | {"proc_threads", "proc_open_files", "ppid_map"})
NOTTY = -1
WIN_CONST = dict(ERROR_ACCESS_DENIED=5, ERROR_PRIVILEGE_NOT_HELD=1314, ERROR_INVALID_NAME=123,
                 ERROR_SERVICE_DOES_NOT_EXIST=1060, WINVER=0x0A00, WINDOWS_8_1=0x0603, WINDOWS_7=0x0601,
                 WINDOWS_VISTA=0x0600, WINDOWS_8=0x0602, WINDOWS_10=0x0A00, INFINITE=0xFFFFFFFF)

_FREEBSD_ONLY = ["proc_net_connections", "proc_exe", "proc_cpu_affinity_get", "proc_cpu_affinity_set", "proc_memory_maps",
                 "proc_getrlimit", "proc_setrlimit", "sensors_battery", "sensors_cpu_temperature", "cpu_topology"]
ABSENT = dict(openbsd=_FREEBSD_ONLY + ["proc_num_threads"], netbsd=_FREEBSD_ONLY + ["cpu_freq"])

RLIM_NAMES = ["RLIM_INFINITY", "RLIMIT_AS", "RLIMIT_CORE", "RLIMIT_CPU", "RLIMIT_DATA", "RLIMIT_FSIZE", "RLIMIT_MEMLOCK",
              "RLIMIT_NOFILE", "RLIMIT_NPROC", "RLIMIT_RSS", "RLIMIT_STACK", "RLIMIT_SWAP", "RLIMIT_SBSIZE", "RLIMIT_NPTS"]

# errors: symbolic name -> (python exception class name, errno, winerror)
POSIX_ERRS = ["ESRCH", "ENOENT", "EPERM", "EACCES", "EIO", "EINVAL"]
WIN_ERRS = ["ESRCH", "EPERM", "EACCES", "EIO", "EINVAL", "WACCESS", "WPRIV", "WPARTIAL", "WINVAL"]
WINERROR = dict(WACCESS=(_errno.EACCES, 5), WPRIV=(_errno.EINVAL, 1314), WPARTIAL=(_errno.EINVAL, 299),
                WINVAL=(_errno.EINVAL, 87))


class _WinOSError(OSError):
    winerror = None


class _WinPermissionError(PermissionError):
    winerror = None


class _WinLookupError(ProcessLookupError):
    winerror = None


class _WinNotFound(FileNotFoundError):
    winerror = None


class TimeoutExpired(Exception):
    pass


class TimeoutAbandoned(Exception):
    pass


def make_error(plat, err):
    if err == "WTIMEOUT":          # WaitForSingleObject -> WAIT_TIMEOUT (not an OSError)
        return TimeoutExpired()
    if err == "WABANDONED":
        return TimeoutAbandoned()
    if plat != "windows":
        n = getattr(_errno, err)
        return OSError(n, _os.strerror(n))
    if err in WINERROR:
        n, w = WINERROR[err]
    else:
        n, w = getattr(_errno, err), None
    cls = {_errno.EACCES: _WinPermissionError, _errno.EPERM: _WinPermissionError, _errno.ESRCH: _WinLookupError,
           _errno.ENOENT: _WinNotFound}.get(n, _WinOSError)
    e = cls(n, _os.strerror(n))
    e.winerror = w
    return e


class World:
    def __init__(self):
        self.reset()

    def reset(self, pid=7, state="alive", site=None, err=None, records=None, notty=False, faults=None, rowalt=None,
              rowset=None, probe_err=None, nitems=None):
        """nitems: length of the listings handed out to the list-then-read loops (os.listdir of <procfs>/<pid>/lwp, /fd;
        rows of the Solaris proc_memory_maps); None = the single sentinel item.  Item i of a listing is BASE + i.
        faults: {site: [(count or None, err or None), ...]} -- the first `count` invocations of that native call
        end with err (None = succeed), then the next segment applies; count None = all remaining invocations.
        site/err = the single-fault shorthand {site: [(None, err)]}."""
        self.pid, self.state, self.site, self.err = pid, state, site, err
        self.faults = dict(faults or {})
        if site is not None and err is not None:
            self.faults[site] = [(None, err)]
        self.ncalls = {}
        self.nitems = nitems
        self.probe_err = probe_err            # every follow-up probe of the error path (is_zombie / pid_exists / pids) fails with it
        self.probe_raised = []
        self.kname = None                     # kernel process name handed out by the native layer (None: the sentinel)
        self.cmd0 = None                      # first element of the native command line (None: the sentinel)
        self.rowalt = dict(rowalt or {})
        self.rowset = dict(rowset or {})      # {fn: {slot: value}} explicit values in a row-native's row
        self.records = records or {}
        self.notty = notty
        self.fired = 0
        self.suspend = 0
        self.calls = []
        self.raised = []

    def listed(self, pid=None):
        return self.state != "gone"

    def probe_fault(self, plat, only=None):
        """Called by every OS access made inside a ladder probe: raises the probe error if one is planned.
        only = the errnos that system call can really return (kill(2) with signal 0: ESRCH, EPERM); a planned error
        outside that set is not injected there -- the call then answers truthfully."""
        if self.suspend and self.probe_err is not None and (only is None or self.probe_err in only):
            e = make_error(plat, self.probe_err)
            self.probe_raised.append(e)
            raise e

    def fault_for(self, names):
        """err (or None) for this invocation of the native call known under `names` (most specific first)."""
        for n in names:
            if n in self.faults:
                k = self.ncalls.get(n, 0)
                self.ncalls[n] = k + 1
                for count, err in self.faults[n]:
                    if count is None or k < count:
                        return err
                    k -= count
                return None
        return None

    def status_code(self):
        """Name of the native status constant of a listed process: 'code:<NAME>' states name it directly."""
        if self.state.startswith("code:"):
            return self.state[5:]
        return "SZOMB" if self.state == "zombie" else "SSTOP"


class Layer:
    """One platform module loaded over the stub."""

    def __init__(self, plat, impl_dir):
        self.plat = plat
        self.world = World()
        self.consts = {}
        self.cext = self._mk_ext("psutil." + CEXT[plat], self._cext_funcs())
        self.cext_posix = self._mk_ext("psutil._psutil_posix", self._posix_funcs())
        self.mod = self._load(impl_dir)

    # ------------------------------------------------------------ stub modules
    def const(self, name):
        if self.plat == "windows" and name in WIN_CONST:
            return WIN_CONST[name]
        if name not in self.consts:
            self.consts[name] = 40 + len(self.consts)
        return self.consts[name]

    def _mk_ext(self, name, funcs):
        layer = self

        class Ext(types.ModuleType):
            def __getattr__(self, attr):
                if attr.startswith("__"):
                    raise AttributeError(attr)
                if attr == "version":
                    return 700
                if attr == "TimeoutExpired":
                    return TimeoutExpired
                if attr == "TimeoutAbandoned":
                    return TimeoutAbandoned
                if attr.upper() == attr:
                    return layer.const(attr)
                if attr in funcs:
                    def call(*a, **kw):
                        return layer.native(attr, funcs[attr], a, kw)
                    call.__name__ = attr
                    return call
                if attr in ABSENT.get(layer.plat, ()):
                    raise AttributeError(attr)

                def generic(*a, **kw):
                    return layer.native(attr, lambda *x, **y: [], a, kw)
                generic.__name__ = attr
                return generic
        m = Ext(name)
        m.__file__ = "<stub %s>" % name
        if name.endswith("_psutil_posix"):
            m.AF_LINK = 18
            if layer.plat == "freebsd":
                for i, n in enumerate(RLIM_NAMES):
                    setattr(m, n, i)
        return m

    def native(self, fname, fn, a, kw):
        w = self.world
        if w.suspend:
            w.probe_fault(self.plat)
            if w.state == "gone" and fname.startswith("proc_"):
                raise OSError(_errno.ESRCH, "No such process")
        else:
            w.calls.append(fname)
            names = [fname]
            if fname == "proc_cmdline" and self.plat == "windows":
                names.insert(0, "proc_cmdline[peb]" if kw.get("use_peb") else "proc_cmdline[nopeb]")
            err = w.fault_for(names + ["*"])
            if err is not None:
                w.fired += 1
                e = make_error(self.plat, err)
                w.raised.append(e)
                raise e
        return fn(*a, **kw)

    def rec(self, fname):
        w = self.world
        for fn, n, st in RECORDS[self.plat]:
            if fn == fname:
                vals = list(w.records.get(fname) or [BASE[fname] + i for i in range(n)])
                if st is not None and (fname not in w.records or w.state == "zombie" or w.state.startswith("code:")):
                    vals[st] = self.const(w.status_code())
                if w.kname is not None and fname in ("proc_oneshot_info", "proc_kinfo_oneshot"):
                    vals[-1] = w.kname            # the name slot is the last one of both records
                return tuple(vals)
        raise KeyError(fname)

    def scal(self, fname):
        v = self.world.records.get(fname)
        return v[0] if v else BASE[fname]

    def row(self, fname):
        """Base row of a row-native, slot world.rowalt[fname] replaced by its alternative."""
        p, b = self.plat, BASE[fname]
        if p == "windows":
            est, lis = self.const("MIB_TCP_STATE_ESTAB"), self.const("MIB_TCP_STATE_LISTEN")
        else:
            est, lis = self.const("TCPS_ESTABLISHED"), self.const("TCPS_LISTEN")
        rows = {
            "proc_cmdline": (["arg%d" % b, "arg%d" % (b + 1)], ["alt0", "alt1"]),
            "proc_args": (["arg%d" % b, "arg%d" % (b + 1)], ["alt0", "alt1"]),
            "proc_name_and_args": (["nm%d" % b, "arg%d arg%d" % (b + 10, b + 11)], ["other", "x y"]),
            "proc_environ": (["K%d" % b, "V%d" % (b + 1)], ["ALTK", "altv"]),
            "net_connections": ([b, 2, 1, ("10.0.0.1", b + 3), ("10.0.0.2", b + 4), est, b + 6],
                                [b + 50, 10, 2, ("::1", 1), ("::2", 2), lis, b + 56]),
            "proc_net_connections": ([b, 2, 1, ("10.0.0.1", b + 3), ("10.0.0.2", b + 4), est],
                                     [b + 50, 10, 2, ("::1", 1), ("::2", 2), lis]),
            "proc_memory_maps": {
                "sunos": ([b, b + 1, "p%d" % (b + 2), "n%d" % (b + 3), b + 4, b + 5, b + 6],
                          [b + 50, b + 51, "q", "zz", b + 54, b + 55, b + 56]),
                "windows": ([b, "p%d" % (b + 1), "\\Device\\HarddiskVolume1\\m%d" % (b + 2), b + 3],
                            [b + 50, "q", "\\Device\\HarddiskVolume1\\zz", b + 53]),
            }.get(p, ([b + i for i in range(7)], [b + 50 + i for i in range(7)])),
        }
        base, alt = rows[fname]
        base = list(base)
        w = self.world
        if fname in ("proc_cmdline", "proc_args") and w.cmd0 is not None:
            base[0] = w.cmd0
        if fname == "proc_name_and_args":
            if w.kname is not None:
                base[0] = w.kname
            if w.cmd0 is not None:
                base[1] = w.cmd0 + " --flag"
        i = self.world.rowalt.get(fname)
        if i is not None:
            base[i] = alt[i]
        for j, v in self.world.rowset.get(fname, {}).items():
            base[int(j)] = v
        return base

    def _environ(self):
        k, v = self.row("proc_environ")
        return "%s=%s\0\0" % (k, v) if self.plat in ("macos", "windows") else {k: v}

    def _threads(self):
        v = self.world.records.get("proc_threads") or [BASE["proc_threads"] + i for i in range(6)]
        return [tuple(v[0:3])]

    def _open_files(self):
        v = self.world.records.get("proc_open_files") or [BASE["proc_open_files"] + i for i in range(2)]
        if self.plat == "windows":
            return ["\\Device\\HarddiskVolume1\\f%d" % v[0]]
        return [("/f%d" % v[0], v[1])]

    def _sunos_maps(self):
        """Rows of the Solaris proc_memory_maps: the sentinel row, or world.nitems rows (row i: name n<i>, rss 5000 + i)."""
        row = self.row("proc_memory_maps")
        if self.world.nitems is None:
            return [tuple(row)]
        out = []
        for i in range(self.world.nitems):
            r = list(row)
            r[3], r[4] = "n%d" % i, 5000 + i
            out.append(tuple(r))
        return out

    def _cext_funcs(self):
        p = self.plat
        L = self
        f = {}
        for fn, n, st in RECORDS[p]:
            f[fn] = (lambda fn: lambda *a, **k: L.rec(fn))(fn)
        f["pids"] = lambda: [1] + ([L.world.pid] if L.world.listed() else [])
        f["proc_name"] = lambda *a: "nativename"
        f["proc_threads"] = lambda *a: L._threads()
        f["proc_environ"] = lambda *a: L._environ()
        if p in ("freebsd", "openbsd", "netbsd"):
            f["proc_cmdline"] = lambda *a: L.row("proc_cmdline")
            f["proc_cwd"] = lambda *a: "/cwd"
            f["proc_num_fds"] = lambda *a: L.scal("proc_num_fds")
            f["proc_open_files"] = lambda *a: L._open_files()
            f["net_connections"] = lambda *a: [tuple(L.row("net_connections"))]
            f["per_cpu_times"] = lambda *a: [(1, 2, 3, 4, 5), (1, 2, 3, 4, 5)]
            if p in ("freebsd", "netbsd"):
                f["proc_num_threads"] = lambda *a: L.scal("proc_num_threads")
            if p == "freebsd":
                f["proc_net_connections"] = lambda *a: [tuple(L.row("proc_net_connections"))]
                f["proc_exe"] = lambda *a: "/bin/exe"
                f["proc_cpu_affinity_get"] = lambda *a: [0, 1]
                f["proc_cpu_affinity_set"] = lambda *a: None
                f["proc_memory_maps"] = lambda *a: [tuple(L.row("proc_memory_maps"))]
                f["proc_getrlimit"] = lambda *a: (BASE["proc_getrlimit"], BASE["proc_getrlimit"] + 1)
                f["proc_setrlimit"] = lambda *a: None
        elif p == "macos":
            f["proc_exe"] = lambda *a: "/bin/exe"
            f["proc_cmdline"] = lambda *a: L.row("proc_cmdline")
            f["proc_cwd"] = lambda *a: "/cwd"
            f["proc_memory_uss"] = lambda *a: L.scal("proc_memory_uss")
            f["proc_open_files"] = lambda *a: L._open_files()
            f["proc_net_connections"] = lambda *a: [tuple(L.row("proc_net_connections"))]
            f["proc_num_fds"] = lambda *a: L.scal("proc_num_fds")
        elif p == "sunos":
            f["proc_name_and_args"] = lambda *a: tuple(L.row("proc_name_and_args"))
            f["proc_cpu_num"] = lambda *a: L.scal("proc_cpu_num")
            f["query_process_thread"] = lambda pid, tid, path: (BASE["query_process_thread"], BASE["query_process_thread"] + 1)
            f["net_connections"] = lambda *a: [tuple(L.row("net_connections"))]
            f["proc_memory_maps"] = lambda *a: L._sunos_maps()
        elif p == "aix":
            f["proc_name"] = lambda *a: (L.world.kname if L.world.kname is not None else "nativename") + "\0\0"
            f["proc_args"] = lambda *a: L.row("proc_args")
            f["net_connections"] = lambda *a: [tuple(L.row("net_connections"))]
        elif p == "windows":
            f["pid_exists"] = lambda pid: L.world.listed()
            f["ppid_map"] = lambda: ({L.world.pid: L.scal("ppid_map")} if L.world.listed() else {})
            f["proc_exe"] = lambda *a: "C:\\bin\\exe.exe"
            f["proc_cmdline"] = lambda *a, **k: L.row("proc_cmdline")
            f["proc_memory_uss"] = lambda *a: L.scal("proc_memory_uss")
            f["getpagesize"] = lambda: 4096
            f["proc_memory_maps"] = lambda *a: [tuple(L.row("proc_memory_maps"))]
            f["proc_kill"] = lambda *a: None
            f["proc_wait"] = lambda *a: 0
            f["proc_username"] = lambda *a: ("DOM", "usr")
            f["proc_suspend_or_resume"] = lambda *a: None
            f["proc_cwd"] = lambda *a: "C:\\cwd\\"
            f["proc_open_files"] = lambda *a: L._open_files()
            f["net_connections"] = lambda *a: [tuple(L.row("net_connections"))]
            f["proc_priority_get"] = lambda *a: L.const("NORMAL_PRIORITY_CLASS")
            f["proc_priority_set"] = lambda *a: None
            f["proc_io_priority_get"] = lambda *a: 2
            f["proc_io_priority_set"] = lambda *a: None
            f["proc_is_suspended"] = lambda *a: False
            f["proc_cpu_affinity_get"] = lambda *a: 3
            f["proc_cpu_affinity_set"] = lambda *a: None
            f["per_cpu_times"] = lambda *a: [(1, 2, 3, 4, 5), (1, 2, 3, 4, 5)]
            f["proc_num_handles"] = lambda *a: L.scal("proc_num_handles")
            f["QueryDosDevice"] = lambda s: "C:"
            f["net_if_addrs"] = lambda: list(L.world.records.get("net_if_addrs", []))
        return f

    def _posix_funcs(self):
        L = self
        return {"getpagesize": lambda: 4096, "getpriority": lambda *a: L.scal("getpriority"),
                "setpriority": lambda *a: None,
                "net_if_addrs": lambda: list(L.world.records.get("net_if_addrs", []))}

    # ------------------------------------------------------------ shims for os / _psposix
    def _os_shim(self):
        L = self

        class PathShim:
            def __getattr__(self, n):
                return getattr(_os.path, n)

            def islink(self, p):
                return True

            def exists(self, p):
                if L.plat == "aix" and isinstance(p, str) and p.endswith("/psinfo"):
                    if L.world.suspend and L.world.probe_err is not None:
                        return False                 # os.path.exists(): a failing stat() reads as "not there"
                    return L.world.listed()          # _psaix.pid_exists
                return True

        class OsShim:
            path = PathShim()

            def __getattr__(self, n):
                return getattr(_os, n)

            def readlink(self, p, *a, **k):
                return L.native("os.readlink", lambda *x: "/f%d" % BASE["os.readlink"], (p,), {})

            def listdir(self, p=".", *a):
                if p in ("/proc", b"/proc"):             # pids() of _pssunos / _psaix
                    L.world.probe_fault(L.plat)
                    ls = ["1"] + ([str(L.world.pid)] if L.world.listed() else []) + ["self", "net"]
                    return [x.encode() for x in ls] if isinstance(p, bytes) else ls
                n = L.world.nitems
                return L.native("os.listdir", lambda *x: [str(BASE["os.listdir"] + i) for i in range(1 if n is None else n)],
                                (p,), {})

            def waitpid(self, pid, flags):               # _psposix.wait_pid (timeout=0 -> WNOHANG)
                def real(pid, flags):
                    if not L.world.listed():
                        raise ChildProcessError(_errno.ECHILD, "No child processes")
                    return (0, 0)                        # still running
                return L.native("os.waitpid", real, (pid, flags), {})

            def kill(self, pid, sig):                    # only reached from the private copy of _psposix
                L.world.probe_fault(L.plat, only=("ESRCH", "EPERM"))
                if pid == L.world.pid and not L.world.listed():
                    raise ProcessLookupError(_errno.ESRCH, "No such process")
                if pid != L.world.pid and pid != 1:
                    raise ProcessLookupError(_errno.ESRCH, "No such process")
                return None

            def stat(self, p, *a, **k):
                def real(path):
                    if isinstance(path, str) and path.startswith("/dev/"):
                        return types.SimpleNamespace(st_rdev=BASE["proc_basic_info"] + 7)
                    return _os.stat("/")
                return L.native("os.stat", real, (p,), {})
        return OsShim()

    def _load_psposix(self, base):
        """A private copy of the _psposix.py under test: its pid_exists() runs for real over os.kill of the
        world model (pid 0 -> True unconditionally is a fact of that code); terminal map = identity on numbers."""
        class TtyMap:
            def __getitem__(self, k):
                if k == NOTTY:
                    raise KeyError(k)
                return "/dev/tty%d" % k
        spec = importlib.util.spec_from_file_location("psutil._c20_psposix_%s" % self.plat, _os.path.join(base, "_psposix.py"))
        m = importlib.util.module_from_spec(spec)
        spec.loader.exec_module(m)
        m.os = self._os_shim()
        m.get_terminal_map = lambda: TtyMap()
        return m

    # ------------------------------------------------------------ loading
    def _load(self, impl_dir):
        import psutil
        from psutil import _common
        base = _os.path.join(impl_dir, "psutil") if impl_dir else _os.path.dirname(psutil.__file__)
        path = _os.path.join(base, FILES[self.plat])
        saved_flags = {k: getattr(_common, k) for k in ALLFLAGS}
        names = [self.cext.__name__, "psutil._psutil_posix"] + ([] if self.plat == "windows" else ["psutil._psposix"])
        saved_mods = {n: sys.modules.get(n) for n in names}
        saved_attr = {n.split(".")[1]: getattr(psutil, n.split(".")[1], None) for n in names}
        try:
            for k in ALLFLAGS:
                setattr(_common, k, k in FLAGS[self.plat])
            sys.modules[self.cext.__name__] = self.cext
            sys.modules["psutil._psutil_posix"] = self.cext_posix
            if self.plat != "windows":
                sys.modules["psutil._psposix"] = self._load_psposix(base)
            for n in names:
                setattr(psutil, n.split(".")[1], sys.modules[n])
            spec = importlib.util.spec_from_file_location("psutil._c20_%s" % self.plat, path)
            mod = importlib.util.module_from_spec(spec)
            spec.loader.exec_module(mod)
        finally:
            for k, v in saved_flags.items():
                setattr(_common, k, v)
            for n, m in saved_mods.items():
                if m is None:
                    sys.modules.pop(n, None)
                else:
                    sys.modules[n] = m
            for a, v in saved_attr.items():
                if v is None:
                    if hasattr(psutil, a):
                        delattr(psutil, a)
                else:
                    setattr(psutil, a, v)
        self._patch_module(mod)
        return mod

    def _patch_module(self, mod):
        """Shims put into a loaded platform module: world probes made by the ladders are answered truthfully."""
        L = self

        def suspended(fn):
            def wrapper(*a, **k):
                L.world.suspend += 1
                try:
                    return fn(*a, **k)
                finally:
                    L.world.suspend -= 1
            return wrapper
        if hasattr(mod, "is_zombie"):
            mod.is_zombie = suspended(mod.is_zombie)
        if self.plat != "windows":
            # the module's own pid_exists()/pids() run (over the world model), answered truthfully
            mod.pid_exists = suspended(mod.pid_exists)
            mod.pids = suspended(mod.pids)
            mod.os = self._os_shim()
        if hasattr(mod, "isfile_strict"):
            mod.isfile_strict = lambda p: True
        if self.plat == "windows":
            class TimeShim:
                def __getattr__(self, n):
                    import time
                    return getattr(time, n)

                def sleep(self, s):
                    pass
            mod.time = TimeShim()
        if self.plat == "aix":
            class GlobShim:
                def glob(self, pat, **k):
                    return ["/dev/pts/0"]
            mod.glob = GlobShim()

    # ------------------------------------------------------------ driving
    def methods(self):
        skip = {"oneshot_enter", "oneshot_exit"}
        out = []
        for n in sorted(dir(self.mod.Process)):
            if n.startswith("_") or n in skip:
                continue
            if callable(getattr(self.mod.Process, n)) and not isinstance(getattr(self.mod.Process, n), type):
                out.append(n)
        return out

    def args_for(self, meth):
        return {"nice_set": (10,), "cpu_affinity_set": ([0],), "rlimit": (1,), "net_connections": ("inet",),
                "ionice_set": (2, 0), "send_signal": (signal.SIGTERM,), "wait": (0,)}.get(meth, ())

    def run(self, meth, pid=7, state="alive", site=None, err=None, records=None, notty=False, args=None, faults=None,
            rowalt=None, rowset=None, probe_err=None, nitems=None):
        """Returns (kind, payload): ('val', value) | ('exc', exception object); world holds calls/fired."""
        mod = self.mod
        self.world.reset(pid, state, site, err, records, notty, faults, rowalt, rowset, probe_err, nitems)
        if hasattr(mod, "_pid_0_exists"):
            mod._pid_0_exists.cache_clear()
        if hasattr(mod, "convert_dos_path"):
            mod.convert_dos_path.cache_clear()
        if hasattr(mod, "getpagesize") and hasattr(mod.getpagesize, "cache_clear"):
            mod.getpagesize.cache_clear()
        real = meth
        if meth == "rlimit_set":
            real, args = "rlimit", (1, (1, 2))
        proc = mod.Process(pid)
        proc._name = "nm"
        proc._ppid = 1
        a = self.args_for(real) if args is None else args
        try:
            if real.startswith("sys:"):            # module-level (system-wide) function of the platform module
                r = getattr(mod, real[4:])(*(a or ("inet",)))
            else:
                r = getattr(proc, real)(*a)
            if isinstance(r, types.GeneratorType):
                r = list(r)
            return "val", r
        except BaseException as e:  # noqa
            if isinstance(e, (KeyboardInterrupt, SystemExit)):
                raise
            return "exc", e


def classify(layer, kind, payload, need_fired=True):
    """Canonical ladder outcome."""
    from pv.canon import B, T
    w = layer.world
    if kind == "val":
        return T("Val") if (w.fired or not need_fired) else T("NotFired")
    e = payload
    n = type(e).__name__
    if not w.fired and need_fired:
        return T("NotFired")
    if n == "TimeoutExpired" and type(e).__module__ == "psutil":
        nm = getattr(e, "name", None)
        return T("TimeoutExpired", e.pid if isinstance(e.pid, int) else -1, B(nm) if isinstance(nm, str) else None)
    if n in ("NoSuchProcess", "ZombieProcess", "AccessDenied"):
        nm = getattr(e, "name", None)
        return T(n, e.pid if isinstance(e.pid, int) else -1, B(nm) if isinstance(nm, str) else None)
    if any(e is x for x in w.raised):
        return T("Raw")
    if any(e is x for x in w.probe_raised):
        return T("RawProbe")         # the error of a follow-up probe left the method bare
    return T("Other", B(n))


# ---------------------------------------------------------------- package front end (copy under another name)
def load_frontend(plat, impl_dir, workdir):
    """Import a copy of <impl_dir>/psutil as package 'c20fe_<plat>' with the platform patched during import."""
    name = "c20fe_" + plat
    dst = _os.path.join(workdir, name)
    if not _os.path.isdir(dst):
        shutil.copytree(_os.path.join(impl_dir, "psutil"), dst,
                        ignore=shutil.ignore_patterns("tests", "*.so", "arch", "__pycache__", "*.c", "*.h"))
    layer = Layer.__new__(Layer)
    layer.plat = plat
    layer.world = World()
    layer.consts = {}
    layer.cext = layer._mk_ext(name + "." + CEXT[plat], layer._cext_funcs())
    layer.cext_posix = layer._mk_ext(name + "._psutil_posix", layer._posix_funcs())
    sys.modules[layer.cext.__name__] = layer.cext
    sys.modules[name + "._psutil_posix"] = layer.cext_posix
    saved = (_os.name, sys.platform)
    sys.path.insert(0, workdir)
    try:
        _os.name, sys.platform = OSNAME[plat]
        pkg = importlib.import_module(name)
    finally:
        _os.name, sys.platform = saved
        sys.path.remove(workdir)
    layer.mod = pkg
    # the same shims as for a directly loaded platform module (no real os.kill / readlink / listdir behind the front end)
    if plat != "windows":
        class TtyMap:
            def __getitem__(self, k):
                if k == NOTTY:
                    raise KeyError(k)
                return "/dev/tty%d" % k
        pkg._psposix.os = layer._os_shim()
        pkg._psposix.get_terminal_map = lambda: TtyMap()
    layer._patch_module(pkg._psplatform)
    return layer
