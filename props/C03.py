"""C03 -- a process vanishing or being denied mid-call yields only psutil errors.

Fault enumeration on the REAL psutil (public psutil.Process API over a fake procfs + fault shim,
props/_c03_world.py) against (a) the property oracle and (b) the Coq access-script model
(coq/C03/Model.v evaluated by vm_compute through coq/C03/Run.v): outcome class, whose pid the
error carries, the complete access sequence (kind + path) and whether the process is gone at the end.
"""
import json
import os
import shutil
import subprocess
import tempfile

from pv.canon import T

ID = "C03"
COQ_REQUIRE = "C03.Run"
SHARD = 250
CASE_TIMEOUT = 30

from props import _c03_world as W  # noqa: E402  (no psutil import at module level)
from props import _c03_gen as _GEN  # noqa: E402


def gen_tables(impl_dir, out_dir):
    """Translate wrap_exceptions / _is_zombie / _raise_if_zombie / _raise_if_not_alive of the tree under check into
    coq/Gen/C03_Tables.v (fail closed: _c03_gen.TranslateError); coq/C03/ProofsGen.v proves them equal to Model.v's."""
    _GEN.gen_tables(impl_dir, out_dir)

# ------------------------------------------------------------------ model scripts per public method
SCRIPTS = {
    "name": "f_name", "exe": "f_exe", "cmdline": "i_cmdline", "environ": "(i_file FEnviron)", "cwd": "i_cwd",
    "status": "f_status", "ppid": "f_ppid", "create_time": "f_create_time", "terminal": "i_terminal",
    "username": "f_uids", "uids": "f_uids", "gids": "i_status_based", "cpu_times": "f_cpu_times",
    "cpu_num": "i_stat_based", "cpu_percent": "i_stat_based", "memory_info": "f_memory_info",
    "memory_full_info": "i_memory_full_info", "memory_percent": "f_memory_info", "memory_maps": "i_memory_maps",
    "memory_maps_grouped": "i_memory_maps", "io_counters": "(i_file FIo)", "num_ctx_switches": "i_status_based",
    "num_threads": "i_status_based", "num_fds": "i_num_fds", "threads": "i_threads", "open_files": "i_open_files",
    "net_connections": "(i_net_connections 0)", "net_connections_unix": "(i_net_connections 1)",
    "net_connections_all": "(i_net_connections 2)", "nice": "(i_sys FSysPrio)", "ionice": "(i_sys FSysIoprio)",
    "cpu_affinity": "(i_sys FSysAffinity)", "rlimit": "i_rlimit", "is_running": "f_is_running",
    "parent": "f_parent", "parents": "f_parents", "children": "f_children", "children_rec": "f_children_rec",
    "wait": "f_wait", "pid": "Skip",
}
# the same queries on the Process object of the current entry (process_iter)
ESCRIPTS = {"name": "(name_of Any FStatE FCmdlineE)", "ppid": "(ppid_of Any FStatE)", "status": "(status_of Any FStatE)",
            "terminal": "(terminal_of Any FStatE)"}      # terminal: with a memoised terminal map only (case flag warm)
ITERS = (["name", "ppid"], ["status", "ppid", "name"])
# calls on an object with a history (nothing assumed about _gone / _pid_reused; the pid may have been recycled)
HSCRIPTS = {"is_running": "h_is_running", "parent": "h_parent", "parents": "h_parents", "children": "h_children",
            "children_rec": "h_children_rec", "ppid": "h_ppid"}
GUARDED = ("parent", "parents", "children", "children_rec", "ppid")
BLOCKS = ("oneshot:cpu_times,name,ppid,status", "oneshotc:cpu_times,name,ppid,status", "oneshot:uids,gids,username",
          "oneshotc:memory_full_info,memory_maps,memory_info", "oneshotc:exe,cmdline,name,exe")
# other processes that may vanish during a tree call: which pids are worth removing, per call
OTHERS = {"parent": [W.PPID], "parents": [W.PPID], "children": [W.CHILD, W.CHILD2],
          "children_rec": [W.CHILD, W.GRANDCHILD], "iter": [W.PPID, W.CHILD]}
ORACLE_ONLY = ()                                            # (as_dict() only, when its attribute order is unknown)
KMAX = {"as_dict": 70}                                      # upper bound of its access count (checked at run time)
PAIRS = (["name", "ppid"], ["uids", "gids", "username"], ["memory_full_info", "memory_maps", "memory_info"],
         ["exe", "cmdline", "status"], ["open_files", "num_fds", "threads"])
KIND_SENSITIVE = ("exe", "cwd", "cmdline", "name", "environ", "memory_maps", "memory_maps_grouped", "memory_full_info",
                  "open_files", "threads", "net_connections", "num_fds", "io_counters", "status")
TREE = ("parent", "parents", "children", "children_rec")    # calls that query other Process objects too
ALLOWED = ("NoSuchProcess", "ZombieProcess", "AccessDenied")
PSUTIL_ERRORS = ALLOWED + ("TimeoutExpired",)

RULE = ("every Linux Process query reachable through psutil.Process (all of psutil._as_dict_attrnames, is_running, wait(0), "
        "parent, parents, children, children(recursive), as_dict() in full and for attribute groups sharing a oneshot cache, "
        "oneshot() blocks (first exception leaves / every call guarded), process_iter(attrs)); live native cases (a real child at every nice value "
        "-20..19 queried through the scratch-built C extension after a chosen failing call in the same thread); the "
        "fake-kernel cases (terminal() also with a STALE memoised terminal map and ENOENT/ENOTDIR on accesses outside "
        "procfs up to 3 positions beyond the model's last access): x base kind {live with "
        "'(deleted)' links and mappings, kernel thread, zombie, live with racing descriptor/thread/smaps_rollup} x "
        "EVERY access index k of the call -- procfs accesses, per-process system calls and the accesses outside procfs "
        "(os.stat of link targets, of '(deleted)' paths of exe/cwd/fd links and smaps mappings, isfile/access of "
        "cmdline[0], tty nodes) -- (count taken from a dry run of the model) x fault "
        "{vanish at k (whole directory; half-removed = only the entries below /proc/<pid>, quick: live kind), EACCES at k, EPERM at k (quick: every eighth k), for tree calls: another process (parent / child "
        "/ grandchild / listed pid) vanishes at k}; thorough adds every pair (deny at i, vanish at j>i). After every vanish "
        "all OS-consulting queries are called again on the same object; two-call histories on ONE object ([call refused at k ; "
        "the same call again without fault], [call refused at k ; as_dict()]; quick: sampled k, live kind) with the oracle on "
        "both calls. A case is non-trivial when the fault fires "
        "(k below the number of accesses); distinct = distinct (kind, method, fault schedule).")
TRUSTED = ["correspondence harness props/C03.py + props/_c03_world.py (fake procfs, access-counting fault shim over "
           "builtins.open/os.* and the per-process C calls) and pv/",
           "the fault model itself (coq/C03/Spec.v base_ok, Model.v answer): vanish = every later access on the process's "
           "paths fails with ENOENT (ESRCH on read / system call); deny = that access alone is refused; zombie = stat says Z, "
           "exe/cwd ENOENT, cmdline/smaps empty, fd and io EACCES",
           "hand transcription of each method's try/except structure into an access script (coq/C03/Model.v), tied to the "
           "code by comparing complete access sequences and outcomes on every enumerated fault -- EXCEPT the exception-"
           "translation layer (wrap_exceptions.wrapper, Process._is_zombie, _raise_if_zombie, _raise_if_not_alive, "
           "_readlink, exe, cwd), which is translated from the current source on every run (props/_c03_gen.py -> "
           "coq/Gen/C03_Tables.v) and proved equal to the model's wrapped_at / raise_if_zombie / raise_if_not_alive / "
           "readlink_fb / i_exe / i_cwd (coq/C03/ProofsGen.v)",
           "the translator props/_c03_gen.py (Python ast -> PyGen.v terms; fails closed on any unknown shape) and the "
           "meaning given to its statement language by coq/C03/PyGen.v:compile (except-class extents, os.path.exists = "
           "os.stat with any OSError meaning False, `try: return E` = `try: E / else: return`)"]
ASSUMPTIONS = ["the first read of an opened procfs file is the only read access point (files are read with one read(2) into a "
               "32 KiB buffer); partial reads are outside the fault model",
               "data returned by a successful access is well formed (parsing of malformed content is C06/C12/C13/C14)",
               "refusals (EACCES/EPERM) are injected on every access of the call -- per-process procfs paths of any pid and the files outside procfs (link targets, '(deleted)' paths, cmdline[0], tty nodes) -- except the global procfs files (/proc, /proc/net/*) and the /dev listing",
               "CPython exception matching and the os/io layer are modelled, not verified"]
EXHAUSTIVE = {"quick": "live kind: all access indexes x {vanish, EACCES} (EPERM at every eighth index) for every method, half-removed at all indexes of calls with <= 24 accesses (else first/last/every third); other kinds: all indexes for the kind-dependent calls with <= 24 accesses, first/last/every third index otherwise; other-process vanish at every index of the tree calls (live kind); native: every nice value -20..19 x 6 kinds of earlier failing call",
              "thorough": "the same plus all two-fault sequences (deny at i, vanish at j>i)"}


def _g_str(s):
    return '"%s"%%string' % s


def _g_strs(l):
    return "[" + "; ".join(_g_str(x) for x in l) + "]"


def layout_term():
    cls = {"reg": "LReg", "sock": "LSock", "pipe": "LOtherLink", "absother": "LAbsOther"}
    fds = "[" + "; ".join("(%s, %s)" % (_g_str(n), cls[c]) for n, c in W.FDS) + "]"
    pids = sorted([W.PID, W.PPID, W.CHILD, W.CHILD2, W.OTHER, W.GRANDCHILD])
    kids = [(W.PID, [W.CHILD, W.CHILD2]), (W.CHILD, [W.GRANDCHILD]), (W.PPID, [W.OTHER, W.PID])]
    kids_t = "[" + "; ".join("(%s, %s)" % (_g_str(p), _g_strs([str(c) for c in cs])) for p, cs in kids) + "]"
    return ("(Build_layout %s %s %s %s %s %s %s %s %s %s %s %s %s)" % (
        _g_str(W.PID), _g_str(W.PPID), fds, _g_strs(W.TASKS), _g_strs([str(p) for p in pids]),
        kids_t, _g_strs([str(W.CHILD2)]), _g_str(W.RACE_FD), _g_str(W.RACE_TASK),
        _g_str(W.DEL_FD), _g_strs(W.MAPS_DEL), _g_strs(W.DEVS), _g_str(W.GONE_DEV)))


LAYOUT = layout_term()
KIND_NO = {"live": 0, "kthread": 1, "zombie": 2, "racy": 3}


def script_of(m, order=None):
    """Coq term of the script for method name m (None: oracle-only); as_dict: attributes in iteration order."""
    if m in SCRIPTS:
        return SCRIPTS[m]
    if m.startswith("as_dict:"):
        names = order or m.split(":", 1)[1].split(",")
        if all(n in SCRIPTS for n in names):
            return "(as_dict [%s])" % "; ".join(SCRIPTS[n] for n in names)
    if m.startswith("iter:") and order and all(n in ESCRIPTS for n in order):
        return "(f_iter [%s])" % "; ".join(ESCRIPTS[n] for n in order)
    if m.startswith(("oneshot:", "oneshotc:")):
        names = m.split(":", 1)[1].split(",")
        return "(%s [%s])" % ("oneshot_block" if m.startswith("oneshot:") else "oneshot_block_c",
                              "; ".join(SCRIPTS[n] for n in names))
    return None


WARM = {"terminal": "i_terminal_warm", "as_dict:terminal": "(as_dict [i_terminal_warm])"}


def coq_term(case):
    if case.get("nx"):
        return "JL []"                          # ENOENT / ENOTDIR outside procfs: property oracle only
    if case.get("warm"):
        sc = WARM.get(case["m"])
        if case["m"].startswith("iter:") and case.get("ord"):
            sc = "(f_iter [%s])" % "; ".join(ESCRIPTS[n] for n in case["ord"])
        if sc is None:
            return "JL []"
        v = "None" if case.get("v") is None else "(Some %d%%nat)" % case["v"]
        den = "[" + "; ".join("%d%%nat" % k for k, _ in case.get("d", [])) + "]"
        return "run_case %s %s %d%%nat %s %s %s [] true true false" % (LAYOUT, sc, KIND_NO[case["base"]], v,
                                                                      "true" if case.get("h") else "false", den)
    if case.get("kind") == "native":
        from props import _c03_native as N
        return "run_nice (%d) (%d)" % (N.PRIOR_ERRNO[case["prior"]], case["nice"])
    sc = script_of(case["m"], case.get("ord"))
    if sc is None:
        return "JL []"
    lowb = "true" if case.get("low") else "false"
    if case.get("then") is not None:
        if case.get("cls") in ("HG", "HR"):      # histories of an object that learns it is gone / recycled: h_ scripts
            scs = [HSCRIPTS.get(x) for x in [case["m"]] + case["then"]]
        else:
            scs = [sc] + [script_of(m2, case.get("ord2") if m2.startswith("as_dict:") else case.get("ord")) for m2 in case["then"]]
        if any(x is None for x in scs):
            return "JL []"
        den = "[" + "; ".join("%d%%nat" % k for k, _ in case.get("d", [])) + "]"
        v = "None" if case.get("v") is None else "(Some %d%%nat)" % case["v"]
        return "run_hist_case %s [%s] %d%%nat %s %s %s [] true true %s %s" % (
            LAYOUT, "; ".join(scs), KIND_NO[case["base"]], v, "true" if case.get("h") else "false", den, lowb,
            "true" if case.get("reuse") else "false")
    v = "None" if case.get("v") is None else "(Some %d%%nat)" % case["v"]
    den = "[" + "; ".join("%d%%nat" % k for k, _ in case.get("d", [])) + "]"
    ov = "[" + "; ".join("(%s, %d%%nat)" % (_g_str(p), k) for p, k in case.get("ov", [])) + "]"
    return "run_case %s %s %d%%nat %s %s %s %s true true %s" % (LAYOUT, sc, KIND_NO[case["base"]], v,
                                                               "true" if case.get("h") else "false", den, ov, lowb)


def coq_struct(case, raw):
    if case.get("kind") == "native":
        return {"model": raw[0], "spec": raw[1]}
    if not raw:
        return {"model": None, "spec": None}
    if case.get("then") is not None:
        return {"model": [raw[0], raw[1], raw[2], []], "spec": None}     # raw[0] = the list of outcomes
    return {"model": [raw[0], raw[1], raw[2], []], "spec": None, "model_allowed": raw[3]}


# ------------------------------------------------------------------ case generation
def _set_order(lists):
    """Iteration order of set(l) for each l, and of psutil._as_dict_attrnames, in a PYTHONHASHSEED=0 process
    (the implementation workers run with that seed)."""
    from pv import core
    code = ("import json,sys\nls=json.loads(sys.argv[1])\nout=[list(set(l)) for l in ls]\n"
            "try:\n import psutil\n full=list(psutil._as_dict_attrnames)\nexcept Exception:\n full=None\n"
            "print(json.dumps([out, full]))\n")
    env = dict(os.environ, PYTHONHASHSEED="0", PYTHONPATH=core.REPO, PYTHONDONTWRITEBYTECODE="1")
    r = subprocess.run([core.PY, "-c", code, json.dumps(lists)], env=env, cwd="/", stdout=subprocess.PIPE,
                       stderr=subprocess.DEVNULL, text=True, timeout=120)
    out, full = json.loads(r.stdout)
    return out, full


def method_names():
    """[(method name, iteration order of as_dict attributes or None)]"""
    orders, full = _set_order([list(p) for p in PAIRS] + [list(p) for p in ITERS])
    ms = [(m, None) for m in W.METHODS if m != "as_dict"]
    ms += [("as_dict:" + ",".join(p), o) for p, o in zip(PAIRS, orders)]
    ms += [("iter:" + ",".join(p), o) for p, o in zip(ITERS, orders[len(PAIRS):])]
    ms += [(b, None) for b in BLOCKS]
    if full and all(n in SCRIPTS for n in full):
        ms.append(("as_dict:" + ",".join(full), full))    # as_dict() in full, in the order the implementation iterates
    else:
        ms.append(("as_dict", None))                      # order unknown: oracle only
    return ms + [(m, None) for m in ORACLE_ONLY]


def _dry_counts(pairs):
    """Access count of every scripted (base, method): evaluated on the MODEL (drift of the code against the
    model is caught by the dry-run cases themselves, which compare the whole access sequence)."""
    from pv import core
    scratch = tempfile.mkdtemp(prefix="pv.c03gen.", dir=os.environ.get("VERIF_SCRATCH_BASE", "/var/tmp"))
    try:
        ok, log = core.coq_make(["C03/Run.vo"])
        if not ok:
            raise RuntimeError("C03/Run.vo does not build:\n" + log[-2000:])
        terms = [coq_term({"base": b, "m": m, "ord": o}) for b, m, o in pairs]
        res = core.coq_eval(scratch, COQ_REQUIRE, terms, shard=SHARD, tag="dry")
        return {(b, m): (len(r[1]) if r else None) for (b, m, o), r in zip(pairs, res)}
    finally:
        shutil.rmtree(scratch, ignore_errors=True)


FULL_AS_DICT = [None]      # (method name, iteration order) of as_dict() over all attributes


def gen_cases(rng, tier):
    cases_native = []
    from props import _c03_native as N
    for n in range(-20, 20):                    # every nice value x every kind of earlier failure, through nice()
        for prior in N.PRIORS:
            cases_native.append({"kind": "native", "cls": "native", "nice": n, "prior": prior, "via": "nice",
                                 "base": "real", "m": "nice"})
    for n in (-20, -2, -1, 0, 1, 19):
        for prior in ("none", "kill_dead", "psutil_dead"):
            for via in ("as_dict", "iter"):
                cases_native.append({"kind": "native", "cls": "native-" + via, "nice": n, "prior": prior, "via": via,
                                     "base": "real", "m": via})
    # histories of ONE object that learns it is gone / recycled, with and without its pid being the cached lowest pid:
    # (vanish [whole / half-removed] ; is_running() ; guarded call) and (pid recycled ; [is_running() ;] guarded call)
    cases_hist = []
    for b in (W.KINDS if tier != "quick" else ("live", "zombie")):
        for low in (True, False):
            for m2 in GUARDED:
                for half in (False, True):
                    cases_hist.append({"kind": "one", "cls": "HG", "base": b, "m": "is_running", "v": 0, "h": half, "d": [],
                                       "low": low, "then": [m2], "nsp": [1]})
                cases_hist.append({"kind": "one", "cls": "HR", "base": b, "m": m2, "v": None, "d": [], "low": low,
                                   "reuse": True, "then": [], "nsp": [0]})
                cases_hist.append({"kind": "one", "cls": "HR", "base": b, "m": "is_running", "v": None, "d": [], "low": low,
                                   "reuse": True, "then": [m2], "nsp": [1]})
            # the alive, unrecycled lowest-pid object: parent() / parents() answer None / []
            cases_hist.append({"kind": "one", "cls": "HR", "base": b, "m": "parent", "v": None, "d": [], "low": low,
                               "then": ["parents"], "nsp": []})
    # terminal() and the device nodes outside procfs: with a STALE memoised terminal map (warm: map memoised, then a new
    # pty node appears) the call may touch nothing but /proc/<pid>/stat; every fault at every access, and ENOENT /
    # ENOTDIR at every position up to 3 beyond the last access the model knows (a new unguarded /dev access would sit there)
    import errno as _E
    (worder,), _ = _set_order([["terminal", "ppid"]])
    cases_tty = []
    for b in W.KINDS:
        for m, o, n in (("terminal", None, 2), ("as_dict:terminal", None, 2), ("iter:terminal,ppid", worder, None)):
            base_c = {"kind": "one", "base": b, "m": m, "warm": True, "v": None, "d": []}
            if o:
                base_c["ord"] = o
            cases_tty.append(dict(base_c, cls="dry"))
            if n is None:
                if tier == "quick" and b != "live":
                    continue
                n = 8                     # process_iter: the faults of the first entries
            for k in range(n):
                cases_tty.append(dict(base_c, cls="V", v=k))
                cases_tty.append(dict(base_c, cls="D-EACCES", d=[[k, "EACCES"]]))
                cases_tty.append(dict(base_c, cls="VH", v=k, h=True))
            for k in range(n + 3):
                for e in ("ENOENT", "ENOTDIR"):
                    cases_tty.append(dict(base_c, cls="NX-" + e, nx=[[k, getattr(_E, e)]]))
        for k in range(8):                # the cold scan of /dev: a node unlinked under it (ENOENT) is tolerated
            cases_tty.append({"kind": "one", "cls": "NX-ENOENT", "base": b, "m": "terminal", "v": None, "d": [],
                              "nx": [[k, _E.ENOENT]]})
    if tier == "search":
        # a broken correspondence is turned into a concrete fault position: every method, fault positions up to
        # access 13 (beyond what the model knows for most calls), ENOENT outside procfs included
        extra = []
        for m in W.METHODS:
            if m in ("as_dict",):
                continue
            for k in range(14):
                for cls, kw in (("V", {"v": k}), ("D-EACCES", {"d": [[k, "EACCES"]]}), ("NX-ENOENT", {"nx": [[k, _E.ENOENT]]})):
                    extra.append(dict({"kind": "one", "cls": "S-" + cls, "base": "live", "m": m, "v": None, "d": [], "nx": []}, **kw))
                    if m == "terminal":
                        extra.append(dict(extra[-1], warm=True))
        return cases_native + cases_hist + cases_tty + extra
    ms = method_names()
    FULL_AS_DICT[0] = next(((m, o) for m, o in ms if m.startswith("as_dict:") and o and len(o) > 20), None)
    pairs = [(b, m, o) for b in W.KINDS for m, o in ms]
    counts = _dry_counts([p for p in pairs if script_of(p[1], p[2]) is not None])
    cases = []

    def mk(cls, b, m, o, v, d):
        c = {"kind": "one", "cls": cls, "base": b, "m": m, "v": v, "d": d}
        if o:
            c["ord"] = o
        cases.append(c)
    for b, m, o in pairs:
        n = counts.get((b, m))
        if n is None:
            n = KMAX.get(m, 60)
        if tier == "search":
            ks = sorted(rng.sample(range(n), min(n, 6)))
        else:
            ks = list(range(n))
        mk("dry", b, m, o, None, [])
        # quick: exhaustive in k on the live kind; on the other kinds exhaustive for the calls whose ladders depend on
        # the kind (links, cmdline, smaps, fd / task listings), first / last / every third k for the rest
        sens = m.split(":")[0] in KIND_SENSITIVE or (m.startswith(("as_dict:", "oneshot")) and
                                                     any(x in KIND_SENSITIVE for x in m.split(":", 1)[1].split(",")))
        full = tier != "quick" or b == "live" or (sens and len(ks) <= 24)
        for k in ks:
            if not (full or k in (0, 1, n - 1) or k % 3 == 0):
                continue
            mk("V", b, m, o, k, [])
            mk("D-EACCES", b, m, o, None, [[k, "EACCES"]])
            if tier != "quick" or (b == "live" and k % 8 == 1):   # both errnos are PermissionError to Python
                mk("D-EPERM", b, m, o, None, [[k, "EPERM"]])
        # V': half-removed at access k (issue 2418)
        if tier != "quick" or b == "live":
            for k in ks:
                if tier == "quick" and len(ks) > 24 and not (k in (0, 1, n - 1) or k % 3 == 0):
                    continue
                mk("VH", b, m, o, k, [])
                cases[-1]["h"] = True
        # another process (parent / child / listed pid) vanishes at access k
        fam = "iter" if m.startswith("iter:") else m
        if fam in OTHERS and (tier != "quick" or b == "live"):
            for op in OTHERS[fam]:
                for k in ks:
                    c = {"kind": "one", "cls": "VO", "base": b, "m": m, "v": None, "d": [], "ov": [[op, k]]}
                    if o:
                        c["ord"] = o
                    cases.append(c)
        # two-call histories on ONE object: [call with D at k ; the same call again] and [call with D at k ; as_dict()]
        # (process_iter keeps its state in the module-level _pmap, not in an object: no history for it)
        if (tier != "quick" or b == "live") and n and FULL_AS_DICT[0] and not m.startswith("iter:"):
            hk = ks if tier != "quick" else sorted(set([k for k in ks if k < 2 or k == n - 1 or k % 9 == 4]))
            for k in hk:
                for m2, o2 in ((m, o), FULL_AS_DICT[0]):
                    if tier == "quick" and m2 is not m and k != 0:
                        continue
                    c = {"kind": "one", "cls": "H2", "base": b, "m": m, "v": None,
                         "d": [[k, "EACCES" if k % 2 == 0 else "EPERM"]], "then": [m2]}
                    if o:
                        c["ord"] = o
                    if m2.startswith("as_dict:") and o2:
                        c["ord2"] = o2
                    cases.append(c)
        if tier == "thorough":
            for i in range(n):
                for j in range(i + 1, n):
                    mk("DV", b, m, o, j, [[i, "EACCES" if (i + j) % 2 == 0 else "EPERM"]])
    # the lowest-pid object under the single faults of parent() / parents()
    for b in (W.KINDS if tier != "quick" else ("live",)):
        for m in ("parent", "parents"):
            mk("dry", b, m, None, None, [])
            cases[-1]["low"] = True
            for k in range(2):
                for cls, v, d in (("V", k, []), ("D-EACCES", None, [[k, "EACCES"]])):
                    mk(cls, b, m, None, v, d)
                    cases[-1]["low"] = True
    return cases_native + cases_hist + cases_tty + cases


# ------------------------------------------------------------------ implementation side
def impl_setup(env):
    pass


def _canon_out(o):
    if o[0] == "val":
        return T("Val") if o[1] == "ok" else T("BadShape", o[1])
    name, pid = o[1], o[2]
    who = None
    if name in PSUTIL_ERRORS:
        who = T("self") if pid == W.PID else T("other")
    return T("Exc", T(name), who)


def impl_run(case, coq, env):
    if case.get("kind") == "native":
        from props import _c03_native as N
        r = N.run(case)
        if r[0] == "skip":
            return T("Skip", r[1])
        return T("Val", r[1]) if r[0] == "val" else T("Exc", T(r[1]))
    import errno as E
    import psutil
    from psutil import _pslinux
    if not (_pslinux.HAS_PROC_SMAPS and _pslinux.HAS_PROC_SMAPS_ROLLUP and _pslinux.HAS_PROC_IO_PRIORITY
            and _pslinux.HAS_CPU_AFFINITY and hasattr(_pslinux.Process, "io_counters")):
        return T("Skip", "this kernel lacks smaps/smaps_rollup/io: method set differs")
    m = case["m"]
    if m.startswith("iter:") and case.get("ord"):
        if list(set(m.split(":", 1)[1].split(","))) != case["ord"]:
            return T("Skip", "attribute order differs from the one the case was generated for")
    if m.startswith("as_dict:") and case.get("ord"):
        attrs = m.split(":", 1)[1].split(",")
        real = list(psutil._as_dict_attrnames) if set(attrs) == set(psutil._as_dict_attrnames) else list(set(attrs))
        if real != case["ord"]:
            return T("Skip", "as_dict attribute order differs from the one the case was generated for")
    deny = {int(k): getattr(E, e) for k, e in case.get("d", [])}
    for m2 in case.get("then") or []:
        if m2.startswith("as_dict:") and case.get("ord2"):
            attrs2 = m2.split(":", 1)[1].split(",")
            real2 = list(psutil._as_dict_attrnames) if set(attrs2) == set(psutil._as_dict_attrnames) else list(set(attrs2))
            if real2 != case["ord2"]:
                return T("Skip", "as_dict attribute order differs from the one the case was generated for")
    r = W.run_case(env["work"], case["base"], m, vanish=case.get("v"), deny=deny, sticky=True,
                   ovanish={p: k for p, k in case.get("ov", [])}, half=bool(case.get("h")), then=case.get("then"),
                   low=bool(case.get("low")), reuse=bool(case.get("reuse")), warm=bool(case.get("warm")),
                   nx={k: e for k, e in case.get("nx") or []})
    if case.get("then") is not None:
        return [[_canon_out(o) for o in r["outs"]], [T("%s|%s" % (k, p)) for k, p in r["log"]], bool(r["gone"]), []]
    bad_after = []
    for m2, o2 in sorted(r.get("after", {}).items()):
        if o2[0] == "exc" and o2[1] == "NoSuchProcess" and o2[2] == W.PID:
            continue
        if m2 in ("create_time", "exe") and o2 == ["val", "ok"]:
            continue            # documented memoised accessors (DESIGN section 8)
        bad_after.append(T(m2, _canon_out(o2)))
    log = [T("%s|%s" % (k, p)) for k, p in r["log"]]
    return [_canon_out(r["out"]), log, bool(r["gone"]), bad_after]


# ------------------------------------------------------------------ oracle (from the property text)
def oracle(case, impl):
    """None, or the reason why this outcome breaks the property."""
    out, log, gone, bad_after = impl
    if case.get("then") is not None:
        # a history on one object: the oracle applies to EVERY call; the later calls run without a fault
        if case.get("reuse"):
            gone = True                    # the process the object was made for no longer exists (its pid was recycled)
        calls = [case["m"]] + case["then"]
        for i in case.get("nsp") or []:
            # the object knows (or finds) that its process is gone / its pid recycled: the guarded call must raise
            # NoSuchProcess -- whatever the cached lowest pid says
            o = out[i]
            if not (o["t"] == "Exc" and o["a"][0]["t"] == "NoSuchProcess" and o["a"][1] and o["a"][1]["t"] == "self"):
                return "call %d (%s) on an object whose process is gone / whose pid was recycled%s did not raise NoSuchProcess: %s" % (
                    i + 1, calls[i], " (its pid is the cached lowest pid)" if case.get("low") else "", json.dumps(o))
        why = oracle({k: v for k, v in case.items() if k not in ("then", "nsp")}, [out[0], log, gone, []])
        if why:
            return "1st call: " + why
        for i, (m2, o2) in enumerate(zip(case["then"], out[1:])):
            why = oracle({"base": case["base"], "m": m2, "d": [], "v": None}, [o2, log, gone, []])
            if why:
                return "call %d (%s, no fault) on the same object %s" % (i + 2, m2.split(":")[0], why)
        return None
    m = case["m"]
    denied = bool(case.get("d"))
    if out["t"] == "BadShape":
        return "returned a malformed value: %s" % out["a"][0]
    if out["t"] == "Exc":
        name = out["a"][0]["t"]
        who = out["a"][1]
        if name == "TimeoutExpired":
            if m != "wait" or gone or who is None or who["t"] != "self":
                return "raises TimeoutExpired (only wait(timeout) on a process that is still there may)"
            return None
        if name not in ALLOWED:
            return "leaks a bare %s" % name
        tree = m.split(":")[0] in TREE or m.startswith("iter:")
        if who is None or (who["t"] != "self" and not (tree and name == "AccessDenied")):
            # tree calls: only an AccessDenied of a query on the parent / a child may carry that pid
            return "%s carries another pid than the object's" % name
        if name == "NoSuchProcess" and not gone and who["t"] == "self":
            return "raises NoSuchProcess although the process is still there"
        if name == "ZombieProcess" and case["base"] != "zombie" and who["t"] == "self":
            return "raises ZombieProcess for a process that is not a zombie"
        if name == "AccessDenied" and not denied and case["base"] != "zombie":
            return "raises AccessDenied although nothing was refused"
    lowfirst = case.get("low") and m in ("parent", "parents")    # observation: first call on a gone lowest-pid object -> None
    if case.get("v") == 0 and not denied and not lowfirst and m.split(":")[0] not in ("is_running", "children",
                                                                                     "children_rec", "wait", "oneshotc") \
            and not m.startswith("iter:"):
        # gone before the call's first access: an OS-consulting query on a fresh object must raise NoSuchProcess
        if not (out["t"] == "Exc" and out["a"][0]["t"] == "NoSuchProcess"):
            return "the process was gone before the call started but the call did not raise NoSuchProcess"
    if bad_after:
        return "after the process vanished a later query did not raise NoSuchProcess: %s" % json.dumps(bad_after)[:200]
    return None


def judge(case, coq, impl):
    from pv.core import Verdict
    if isinstance(impl, dict) and impl.get("t") == "Skip":
        return Verdict("skip", str(impl.get("a")))
    if isinstance(impl, dict) and impl.get("t") == "Timeout":
        return Verdict("violation", "the call did not terminate")
    if case.get("kind") == "native":
        what = "%s of a live process at nice %d, queried after %s in the same thread" % (
            {"nice": "nice()", "as_dict": "as_dict(['nice'])", "iter": "process_iter(['nice'])"}[case["via"]],
            case["nice"], {"none": "no failing call"}.get(case["prior"], "a failing call (%s)" % case["prior"]))
        if impl != coq["spec"]:
            return Verdict("violation", "%s: %s instead of %d" % (what, json.dumps(impl), case["nice"]))
        if impl != coq["model"]:
            return Verdict("corr", what + ": differs from the C model")
        return Verdict("ok")
    why = oracle(case, impl)
    if why:
        return Verdict("violation", "%s.%s() [%s] %s" % (case["base"], case["m"], _sched(case), why))
    model = coq.get("model") if isinstance(coq, dict) else None
    if model is not None and impl != model:
        what = "outcome(s)" if impl[0] != model[0] else ("access sequence" if impl[1] != model[1] else "gone flag / later queries")
        return Verdict("corr", "%s.%s() [%s]: %s differs from the access-script model" % (case["base"], case["m"], _sched(case), what))
    if model is None and case["m"] in KMAX and case["cls"] == "dry" and len(impl[1]) > KMAX[case["m"]]:
        return Verdict("corr", "%s performs %d accesses, enumeration bound is %d" % (case["m"], len(impl[1]), KMAX[case["m"]]))
    return Verdict("ok")


def _sched(case):
    s = []
    for k, e in case.get("d") or []:
        s.append("%s at access %d" % (e, k))
    if case.get("v") is not None:
        s.append("%s at access %d" % ("half-removed (entries below /proc/<pid> gone)" if case.get("h") else "vanish", case["v"]))
    for p, k in case.get("ov") or []:
        s.append("pid %s vanishes at access %d" % (p, k))
    for k, e in case.get("nx") or []:
        s.append("%s at access %d (if it is outside procfs)" % ({2: "ENOENT", 20: "ENOTDIR"}.get(e, e), k))
    if case.get("warm"):
        s.append("terminal map memoised before a new pty appeared")
    return ", ".join(s) or "no fault"


def nontrivial(case, coq, impl):
    if case.get("kind") == "native":
        return True
    if not isinstance(impl, list):
        return False
    n = len(impl[1])
    if case.get("then") is not None:
        return True
    ks = [k for k, _ in case.get("d") or []] + ([case["v"]] if case.get("v") is not None else []) \
        + [k for k, _ in case.get("nx") or []] \
        + [k for _, k in case.get("ov") or []]
    return bool(ks) and min(ks) < n


MANIFEST = {
    "text": "Coq: a deep-embedded access-script language (Acc/Try/If/ForNames/Walk/Call/Memo, wrap_exceptions and the zombie / "
            "not-alive / readlink ladders written in it), an interpreter over a fault oracle (vanish index of the process, "
            "whole-directory or half-removed, vanish indexes of OTHER processes, ANY set of refused accesses, arbitrary base answers within the fault model), "
            "a computable guard analysis over (gone, cache, process-in-focus gone) and its soundness theorem for ALL worlds; "
            "closed theorems that every single-process Linux query script, as_dict() and oneshot() blocks are guarded (value "
            "or NoSuchProcess-when-gone / ZombieProcess / AccessDenied with the object's pid), that parent / parents / "
            "children / children(recursive) / process_iter are guarded with other processes vanishing, wait(0), NoSuchProcess "
            "once gone for every OS-consulting query, the memoising accessors' exemption as a theorem about the script "
            "table, and refuted theorems about the code before the three repairs. Tie to the code: every access index x "
            "fault x base kind -- and two-call histories on one object -- is run on the real psutil and outcome + complete access "
            "sequence are compared; the native getpriority path (errno explicit) is proved independent of the thread's "
            "earlier failures and run on real children at every nice value. Round 2: wrap_exceptions.wrapper, "
            "Process._is_zombie / _raise_if_zombie / _raise_if_not_alive / _readlink / exe / cwd are TRANSLATED from the "
            "source under check on every run (fail-closed ast translator props/_c03_gen.py -> coq/Gen/C03_Tables.v, "
            "statement language coq/C03/PyGen.v) and proved equal, for every process in focus and every decorated "
            "method body, to the model's wrapped_at / raise_if_zombie / raise_if_not_alive / readlink_fb / i_exe / "
            "i_cwd (C03_gen_* theorems): an edit of clause order, caught classes, probes or raised error breaks a proof.",
    "note": "Trusted: Coq kernel + vm_compute; the fault model (Spec.v base_ok / Model.v answer); hand-written scripts "
            "(tied by exhaustive fault enumeration of access sequences; the exception-translation layer and exe/cwd by "
            "source translation, trusting props/_c03_gen.py and PyGen.v:compile); harness shim. No call is oracle-only (as_dict() "
            "falls back to oracle-only if its attribute order cannot be determined).",
}
