"""C06 live helper: spawns real children with chosen names / threads / states / tty / nice, reads their real
/proc/<pid>/stat, /proc/<pid>/status and /proc/<pid>/task/<tid>/stat ONCE into bytes, asks the psutil found on
PYTHONPATH (the scratch build under test) about the real /proc, and prints one JSON document on stdout.
Run as:  python -m props._c06_live <workdir>"""
import json
import os
import shutil
import signal
import subprocess
import sys
import time

CHILD = r"""
import ctypes, os, sys, threading, time, signal
spec = eval(sys.argv[1])
libc = ctypes.CDLL(None, use_errno=True)
def setname(b):
    libc.prctl(15, ctypes.c_char_p(b), 0, 0, 0)       # PR_SET_NAME (calling thread)
if spec.get("groups"):
    os.setgroups(list(range(1, spec["groups"] + 1)))   # needs root; makes /proc/<pid>/status larger than 32 KiB
if spec.get("nice"):
    os.nice(spec["nice"])
ev = threading.Event()
def th(nm):
    setname(nm); ev.wait()
ts = [threading.Thread(target=th, args=(nm,), daemon=True) for nm in spec.get("threads", [])]
for t in ts: t.start()
if spec.get("name") is not None:
    setname(spec["name"])
if spec.get("exit"):
    os._exit(0)                                        # becomes a zombie: the helper does not wait
sys.stdout.write("r"); sys.stdout.flush()
while True:
    signal.pause()
"""


def read(path):
    with open(path, "rb") as f:
        return f.read()


def state_letter(pid):
    d = read("/proc/%d/stat" % pid)
    return d[d.rfind(b")") + 2:d.rfind(b")") + 3]


def wait_for(cond, what, timeout=10.0):
    t0 = time.time()
    while not cond():
        if time.time() - t0 > timeout:
            raise RuntimeError("live helper: timed out waiting for " + what)
        time.sleep(0.01)


def main():
    work = sys.argv[1]
    os.makedirs(work, exist_ok=True)
    import psutil
    from psutil import _pslinux
    mypid = os.getpid()
    specs = [
        {"label": "plain", "name": None},
        {"label": "paren-space", "name": b"a) b (c"},
        {"label": "fake-fields", "name": b") R 1 2 3 (x"},
        {"label": "newline-backslash", "name": b"x\ny) \\ Z"},
        {"label": "truncated", "name": b"0123456789abcdefgh"},
        {"label": "non-utf8", "name": b"caf\xc3\xa9 \xff\xe9)"},
        {"label": "uid-spoof", "name": b"Uid:\t0\t0\t0"},
        {"label": "ctx-15", "name": b"ctxt_switches:\t"},
        {"label": "threads", "name": b"main (t)", "threads": [b"w) 1", b"w (2", b"w 3 ) S 0 0"]},
        {"label": "nice", "name": b"nice one", "nice": 7},
        {"label": "stopped", "name": b"stop) me", "stop": True},
        {"label": "zombie", "name": b"zom) bie", "exit": True},
        {"label": "tty", "name": b"on a tty", "tty": True},
        {"label": "groups-7000", "name": b"many) groups", "groups": 7000},
    ]
    procs, out = [], []
    exe_dir = os.path.join(work, "bin")
    shutil.rmtree(exe_dir, ignore_errors=True)
    os.makedirs(exe_dir)
    try:
        for s in specs:
            arg = repr({k: v for k, v in s.items() if k in ("name", "threads", "nice", "exit", "groups")})
            kw = {}
            tty = None
            if s.get("tty"):
                import fcntl
                import pty
                import termios
                master, slave = pty.openpty()
                path = os.ttyname(slave)
                rdev = os.stat(path).st_rdev
                tty = {"path": path, "major": os.major(rdev), "minor": os.minor(rdev), "master": master}

                def pre(slave=slave):
                    os.setsid()
                    fcntl.ioctl(slave, termios.TIOCSCTTY, 0)
                kw = {"preexec_fn": pre, "stdin": slave}
            p = subprocess.Popen([sys.executable, "-c", CHILD, arg], stdout=subprocess.PIPE, **kw)
            procs.append(p)
            s["pid"], s["ttyinfo"] = p.pid, tty
        # a copy of /bin/sleep under a hostile file name: comm = the file name (truncated to 15 bytes)
        odd = os.path.join(exe_dir, "my (prog) x) S")
        shutil.copy(shutil.which("sleep"), odd)
        p = subprocess.Popen([odd, "60"])
        procs.append(p)
        specs.append({"label": "exec-name", "name": b"my (prog) x) S", "pid": p.pid, "ttyinfo": None, "noready": True})
        for s, p in zip(specs, procs):
            if s.get("exit"):
                wait_for(lambda: state_letter(s["pid"]) == b"Z", "zombie")
            elif s.get("noready"):
                wait_for(lambda: b"(my (prog)" in read("/proc/%d/stat" % s["pid"]), "exec of the copied sleep")
            else:
                if p.stdout.read(1) != b"r":
                    raise RuntimeError("live helper: child %s did not start" % s["label"])
            if s.get("stop"):
                os.kill(s["pid"], signal.SIGSTOP)
                wait_for(lambda: state_letter(s["pid"]) in (b"T", b"t"), "stopped child")
        time.sleep(0.15)      # let the children reach their final sleep
        btime = [ln for ln in read("/proc/stat").splitlines() if ln.startswith(b"btime")][0].split()[1].decode()
        for s in specs:
            pid = s["pid"]
            if not s.get("exit") and not s.get("stop"):
                wait_for(lambda: state_letter(pid) == b"S", "sleeping child %s" % s["label"])
            ent = {"label": s["label"], "pid": pid, "parent": mypid,
                   "want_name": None if s["name"] is None else s["name"][:15].hex(),
                   "want_status": "zombie" if s.get("exit") else "stopped" if s.get("stop") else "sleeping",
                   "want_threads": 1 + len(s.get("threads", [])), "want_nice": s.get("nice", 0),
                   "want_groups": s.get("groups", 0),
                   "want_thread_names": [t[:15].hex() for t in s.get("threads", [])],
                   "tty": None if not s["ttyinfo"] else {k: s["ttyinfo"][k] for k in ("path", "major", "minor")}}
            # ---- the real kernel text, read once
            ent["stat"] = read("/proc/%d/stat" % pid).hex()
            ent["status"] = read("/proc/%d/status" % pid).hex()
            tids = sorted(os.listdir("/proc/%d/task" % pid))
            ent["tasks"] = [[t, read("/proc/%d/task/%s/stat" % (pid, t)).hex()] for t in tids]
            # ---- the real /proc through the psutil under test
            # every call into psutil -- the constructor included -- is an OUTCOME to be judged, never a harness failure
            live = {}

            def q(key, fn):
                try:
                    live[key] = {"ok": fn(psutil.Process(pid))}
                except BaseException as e:  # noqa
                    if isinstance(e, (KeyboardInterrupt, SystemExit)):
                        raise
                    live[key] = {"exc": type(e).__name__}
            q("name", lambda pr: os.fsencode(pr.name()).hex())
            q("ppid", lambda pr: pr.ppid())
            q("status", lambda pr: pr.status())
            q("terminal", lambda pr: pr.terminal())
            q("num_threads", lambda pr: pr.num_threads())
            q("uids", lambda pr: list(pr.uids()))
            q("gids", lambda pr: list(pr.gids()))
            q("create_time", lambda pr: list(float(pr.create_time()).as_integer_ratio()))
            q("thread_ids", lambda pr: sorted(t.id for t in pr.threads()))
            try:
                live["ppid_map"] = {"ok": _pslinux.ppid_map().get(pid)}
            except BaseException as e:  # noqa
                if isinstance(e, (KeyboardInterrupt, SystemExit)):
                    raise
                live["ppid_map"] = {"exc": type(e).__name__}
            ent["live"] = live
            out.append(ent)
        doc = {"clk": _pslinux.CLOCK_TICKS, "btime": btime, "uid": os.getuid(), "gid": os.getgid(),
               "psutil": psutil.__file__, "kernel": os.uname().release, "entries": out}
        print(json.dumps(doc))
    finally:
        for p in procs:
            try:
                os.kill(p.pid, signal.SIGCONT)
                p.kill()
            except OSError:
                pass
        for p in procs:
            try:
                p.wait(timeout=5)
            except Exception:  # noqa
                pass
        shutil.rmtree(exe_dir, ignore_errors=True)


if __name__ == "__main__":
    main()
