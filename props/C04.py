"""C04 -- pids(), pid_exists() and process_iter() give one coherent, cached process list."""
import errno
import itertools
import os
import shutil

from pv import gallina as G
from pv.canon import B, Exc, T, Val, exc_name, outcome, unB
from props._c04_kernel import KERNEL_EVENTS, PIDMAX, Table

ID = "C04"
COQ_REQUIRE = "C04.Run"
SHARD = 150
RULE = ("histories of 5-60 events drawn from a weighted grammar over kernel events (spawn / exit to zombie / reap / PID reuse "
        "with equal or different start ticks / thread creation and exit) and psutil calls (pids, pid_exists over magnitudes up to "
        "10^30 and thread ids, process_iter generators created with attrs None / valid / duplicate / empty / invalid names, "
        "advanced one yield at a time in any interleaving, closed early, cache_clear, is_running on previously yielded objects), "
        "plus directed motifs (reuse then is_running then iterate; a PID outside the committed cache yielded by an iteration in flight, "
        "recycled, found by is_running, iteration finished, later iterations sequential or overlapping; two generators interleaved) and a "
        "pid_exists magnitude sweep; two real threads inside process_iter() at once under explicit line-level schedules (thread 0 "
        "for i lines, thread 1 for j lines, then drain; plus random schedules) with a PID marked as reused; procfs root listings with digit / non-digit / non-ASCII-digit names; /proc/<n>/status files "
        "printed by the kernel printer and malformed ones crossed with the four os.kill results. A history is non-trivial when it "
        "calls psutil at least once; distinct = distinct canonical case hash.")
TRUSTED = ["correspondence harness props/C04.py + props/_c04_kernel.py + pv/ (fake /proc tree; os.kill and os.listdir replaced so that "
           "thread ids answer kill(0) and have /proc/<tid>/status but are not listed; psutil._pslinux.open_binary replaced to inject "
           "faults on /proc/<n>/status; props/_c04_sched.py line-level thread scheduler)",
           "hand-written model coq/C04/Model.v of psutil/__init__.py pids/is_running/as_dict(keys), the generator bookkeeping of "
           "process_iter (suspension at yield, 'finally: _pmap = pmap', cache_clear) and _pslinux.pids/pid_exists/_psposix.pid_exists, "
           "tied to the code by this run only; the guard chain of psutil.pid_exists, the prologue and the loop body of process_iter "
           "are translated from the source (props/_c04_gen.py, ast, fail closed -> coq/Gen/C04_Tables.v) and proved equal to the "
           "model (C04_gen_pid_exists_is_model, C04_gen_prologue_is_model, C04_gen_loop_is_model): trusted there are the translator "
           "and the interpreters of coq/C04/PyGen.v (set difference, dict.pop, sorted merge, Process(pid), as_dict as in the model)",
           "formats of the procfs root listing and of /proc/<n>/status (Tgid line) in coq/C04/Spec.v; the Name: record printer "
           "k_name_line is compared with the running kernel on every run (live_name cases)"]
ASSUMPTIONS = ["every psutil call is atomic with respect to kernel events; in the theorems generators interleave at yield points (two "
               "generator objects advanced alternately) and the commit 'finally: _pmap = pmap' is ONE step of the machine (theorem "
               "C04_cache_change_is_commit): that is the modelled granularity; the line-level windows of two threads inside the "
               "prologue (around _pids_reused.pop()) and inside the epilogue (one thread committing, the other entering) are "
               "enumerated with a deterministic settrace scheduler, not proved",
               "start ticks below 2^53 (Process._ident holds ticks/CLK_TCK as a float)",
               "the model uses the cache key as the pid of a cached object (entries are only made by pmap[proc.pid] = proc)",
               "CPython semantics of sorted/set/dict/generators/bytes.isdigit/int are modelled, not verified",
               "as_dict() is modelled up to its key set, its NoSuchProcess/ValueError behaviour and the is_running() call made by "
               "ppid(); histories where the iteration order of the name set decides whether that call happened are skipped "
               "(OutOfModel); attribute universe of the runs: pid,name,ppid,status,num_threads,cpu_times,cpu_num,num_ctx_switches "
               "(attrs=[] runs with psutil._as_dict_attrnames narrowed to these minus ppid); the only attribute the fake kernel can "
               "make unimplemented is num_ctx_switches (the theorems quantify over every subset); ad_value is passed but dict values "
               "are not compared"]
EXHAUSTIVE = {"quick": "fork: a thread parked at 6 points of process_iter()'s start-up section, in psutil.pids, _pslinux.pids, "
                        "_pslinux.pid_exists, _psposix.pid_exists; attrs block: 8 argument shapes x 4 attrs contents x 2 kernels (64 histories, cold+warm+None+again); commit window: thread 0 pre-empted after each of its first 0..34 lines (a warm iteration over 3 PIDs has 28: "
                        "prologue, loop, finally) with thread 1 running to completion, and for the last 13 points thread 1 running "
                        "1..6 lines; status faults {ENOENT,ESRCH,EACCES,EPERM,EIO,EIO-read,no Tgid} x {PID,zombie,2 thread ids,absent,0,-1,2^31-1,2^31,"
                        "10^30}; two-thread schedules 0^i 1^j for i,j < 13; pid_exists over {-1,0..9,2^15,2^22,2^31-1,2^31,2^31+1,2^32,2^63-1,2^63,2^64,10^30} x {listed,thread id,absent}",
              "thorough": "all 11^1..11^4 event strings over {spawn 1 (2 start values), reap 1, reap 2, new generator, next on generator "
                          "0/1, close 0, cache_clear, is_running on yield 0/1} after a warm-cache prefix; two-thread schedules 0^i 1^j "
                          "for i,j < 18; pid_exists magnitude sweep"}

NAMES = ["pid", "name", "ppid", "status", "num_threads", "cpu_times", "cpu_num", "num_ctx_switches"]
BAD = {"bogus": 100, "xyz": 101}
# attrs argument shapes: accepted by as_dict (list, tuple, set, frozenset) and rejected with TypeError
OK_SHAPES = ["list", "tuple", "set", "frozenset"]
BAD_SHAPES = ["gen", "iter", "dict", "keys"]
AD_VALUES = [None, "N/A", 0, -1]
# the optional kernel record a case may lack: /proc/<pid>/status without the *_ctxt_switches lines
# (Linux < 2.6.23, gVisor) -> Process.num_ctx_switches() raises NotImplementedError
OPTIONAL = ["num_ctx_switches"]
# hostile but legal task names: the kernel escapes only '\n' and '\\' in the Name: record of /proc/<id>/status, every other
# byte is printed raw.  {self} = the id of the task the file belongs to, {other} = a number that is not its thread-group id.
HOSTILE = [b"x\rTgid:\t{other}", b"\rTgid:\t{self}", b"ab\rTgid:", b"\x0bTgid:\t{self}", b"\x0cTgid:\t{other}",
           b"\x1cTgid:\t{self}", b"\x1dTgid:\t{other}", b"\x1eTgid:\t{self}", b"\xc2\x85Tgid:\t{self}",
           b"\xe2\x80\xa8Tgid:\t{other}", b"Tgid:\t{other}", b":\t\t:Tgid:", b"a\nTgid:\t{self}", b"b\\nTgid:\\",
           b"\r\nTgid:\t{self}\r"]


def hostile_comm(ident, k):
    """the k-th hostile name for task [ident]"""
    t = HOSTILE[(ident + k) % len(HOSTILE)]
    return t.replace(b"{self}", b"%d" % ident).replace(b"{other}", b"%d" % (ident + 100000))


def _escape_name(comm):
    return comm.replace(b"\\", b"\\\\").replace(b"\n", b"\\n")
_UNIMPL = set()
VALID_CODES = list(range(len(NAMES)))
MAGS = [-1, 0, 1, 2, 3, 4, 5, 6, 7, 8, 9, 2 ** 15, 2 ** 22, 2 ** 31 - 1, 2 ** 31, 2 ** 31 + 1, 2 ** 32, 2 ** 63 - 1, 2 ** 63,
        2 ** 64, 10 ** 30]
FAULTS = ["ENOENT", "ESRCH", "EACCES", "EPERM", "EIO", "EIO-read", "notgid"]
FAULT_ERRNO = {"ENOENT": errno.ENOENT, "ESRCH": errno.ESRCH, "EACCES": errno.EACCES, "EPERM": errno.EPERM, "EIO": errno.EIO,
               "EIO-read": errno.EIO}
ATTRS = [None, None, None, None, ["pid"], ["name"], ["pid", "name"], ["status", "status", "name"], ["ppid"],
         ["ppid", "pid", "ppid"], ["num_threads", "cpu_times", "cpu_num"], ["ppid", "name"], [], ["bogus"], ["pid", "xyz"]]
NGOOD = 12   # ATTRS[:NGOOD] are valid and non-empty or None


PPID_CODE = NAMES.index("ppid")
assert PPID_CODE == 2    # coq/C04/Model.v: PPID


def _set_case(case):
    """attribute codes depend on which optional records the case's kernel lacks (coq/C04/Model.v: codes >= 1000)"""
    global _UNIMPL
    _UNIMPL = set(case.get("unimpl", []))


def code(name):
    if name in NAMES:
        return NAMES.index(name) + (1000 if name in _UNIMPL else 0)
    return BAD[name]


def iternew(e):
    """(attrs names or None, shape, ad_value) of an IterNew event"""
    return e[1], (e[2] if len(e) > 2 else "list"), (e[3] if len(e) > 3 else None)


def valid_codes(case):
    """psutil._as_dict_attrnames as the model sees it; histories using attrs=[] run with that table narrowed to
    NAMES without 'ppid' (so that 'all names' stays cheap on the fake tree and order-independent)"""
    _set_case(case)
    if case.get("patch_names"):
        return [code(n) for n in NAMES if n != "ppid"]
    return [code(n) for n in NAMES]


def gen_tables(impl_dir, out_dir):
    from props import _c04_tables
    return _c04_tables.gen_tables(impl_dir, out_dir)


# where a thread is parked when the main thread forks: (function traced, file, what the parked thread is doing, lines granted)
FORK_SPOTS = [("process_iter", "psutil/__init__.py", "iter", i) for i in (1, 3, 5, 6, 8, 11)] + \
             [("pids", "psutil/__init__.py", "pids", 1), ("pids", "psutil/_pslinux.py", "pids", 1),
              ("pid_exists", "psutil/_pslinux.py", "exists", 2), ("pid_exists", "psutil/_psposix.py", "exists", 1)]


# ------------------------------------------------------------------ generation
def _rand_hist(rng):
    tab = Table()
    evs = []
    ngen = 0
    nnext = 0
    pids = [1, 2, 3, 7] + ([0] if rng.random() < 0.1 else []) + ([PIDMAX] if rng.random() < 0.1 else [])
    tids = [4, 6, 8]
    starts = [100, 200, 300]
    for _ in range(rng.choice([1, 2, 3])):
        e = ["Spawn", rng.choice(pids), rng.choice(starts)]
        tab.apply(e)
        evs.append(e)
    n = rng.choice([5, 10, 20, 30, 45, 60])
    w = [("Spawn", 12), ("Reap", 7), ("Exit", 3), ("Thread", 3), ("ThreadExit", 1), ("Pids", 3), ("PidExists", 8), ("PidExistsF", 4),
         ("IterNew", 7), ("IterNext", 34), ("IterClose", 3), ("CacheClear", 3), ("RunY", 9), ("Reuse", 5)]
    kinds = [k for k, c in w for _ in range(c)]
    while len(evs) < n:
        k = rng.choice(kinds)
        if k == "Spawn":
            e = ["Spawn", rng.choice(pids + tids[:1]), rng.choice(starts)]
        elif k == "Reap":
            live = sorted(tab.procs)
            e = ["Reap", rng.choice(live) if live and rng.random() < 0.85 else rng.choice(pids)]
        elif k == "Exit":
            e = ["Exit", rng.choice(pids)]
        elif k == "Thread":
            e = ["Thread", rng.choice(pids), rng.choice(tids + pids[:1])]
        elif k == "ThreadExit":
            e = ["ThreadExit", rng.choice(tids)]
        elif k == "Pids":
            e = ["Pids"]
        elif k == "PidExists":
            e = ["PidExists", rng.choice(MAGS + pids + tids + pids + tids)]
        elif k == "PidExistsF":
            e = ["PidExistsF", rng.choice(pids + tids + pids + tids + [0, 9, 2 ** 31 - 1, 2 ** 31, 2 ** 64]), rng.choice(FAULTS)]
        elif k == "IterNew":
            a = rng.choice(ATTRS + [["num_ctx_switches"], ["pid", "num_ctx_switches", "name"]])
            e = ["IterNew", a]
            if a is not None and rng.random() < 0.5:
                e += [rng.choice(OK_SHAPES * 3 + BAD_SHAPES), rng.choice(AD_VALUES)]
            ngen += 1
        elif k == "IterNext":
            if ngen == 0:
                continue
            g = ngen - 1 if rng.random() < 0.6 else rng.randrange(ngen)
            e = ["IterNext", g]
            nnext += 1
        elif k == "IterClose":
            if ngen == 0:
                continue
            e = ["IterClose", rng.randrange(ngen)]
        elif k == "CacheClear":
            e = ["CacheClear"]
        elif k == "RunY":
            if nnext == 0:
                continue
            e = ["RunY", rng.randrange(nnext)]
        elif k == "Reuse":
            live = sorted(tab.procs)
            if not live:
                continue
            p = rng.choice(live)
            st = tab.procs[p]["start"]
            e1 = ["Reap", p]
            e = ["Spawn", p, st if rng.random() < 0.15 else st + 100]
            tab.apply(e1)
            evs.append(e1)
        if e[0] in KERNEL_EVENTS:
            tab.apply(e)
        evs.append(e)
    return evs


def _motif(rng):
    """directed: warm cache, recycle a PID, is_running() on the old object, iterate again (twice)"""
    p, q = rng.sample([1, 2, 3, 7], 2)
    a1, a2 = rng.choice(ATTRS[:NGOOD]), rng.choice(ATTRS[:NGOOD])
    evs = [["Spawn", p, 100], ["Spawn", q, 100], ["IterNew", a1]] + [["IterNext", 0]] * 3
    evs += [["Reap", p], ["Spawn", p, 100 if rng.random() < 0.2 else 200]]
    if rng.random() < 0.3:
        evs.append(["CacheClear"])
    evs += [["RunY", rng.choice([0, 1])]] * rng.choice([1, 1, 2])
    evs += [["IterNew", a2]] + [["IterNext", 1]] * 3 + [["IterNew", None]] + [["IterNext", 2]] * 3
    return evs


def _midflight(rng):
    """directed: a PID that is not in the committed cache is yielded by an iteration still in flight, then recycled and
    found recycled by is_running() on the yielded object, then the iteration finishes; later iterations follow one
    after the other (or, with 'overlap', while an earlier one is still suspended)"""
    p, q = sorted(rng.sample([1, 2, 3, 7], 2))
    variant = rng.choice(["first", "cleared", "spawned"])
    evs, ny, ng = [], 0, 0
    if variant == "first":
        evs += [["Spawn", p, 100], ["Spawn", q, 100]]
    elif variant == "cleared":
        evs += [["Spawn", p, 100], ["Spawn", q, 100], ["IterNew", None]] + [["IterNext", 0]] * 3 + [["CacheClear"]]
        ny, ng = 2, 1
    else:
        evs += [["Spawn", q, 100], ["IterNew", None]] + [["IterNext", 0]] * 2 + [["Spawn", p, 100]]
        ny, ng = 1, 1
    a1 = rng.choice(ATTRS[:8])
    evs += [["IterNew", a1], ["IterNext", ng]]                       # yields p (smallest PID): yield number ny
    evs += [["Reap", p], ["Spawn", p, 100 if rng.random() < 0.1 else 200]]
    evs += [["RunY", ny]] * rng.choice([1, 1, 2])
    if rng.random() < 0.25:
        evs += [["IterNew", None], ["IterNext", ng + 1]]             # overlap: entered while generator ng is suspended
        ng2 = ng + 2
    else:
        ng2 = ng + 1
    evs += [["IterNext", ng]] * 2                                    # the iteration in flight finishes
    for k in range(3):
        evs += [["IterNew", rng.choice(ATTRS[:8])]] + [["IterNext", ng2 + k]] * 3
    return evs


def _overlap(rng):
    """directed: warm cache, recycle, is_running() marks, one generator consumes the mark and stays suspended,
    another one is entered"""
    p, q = sorted(rng.sample([1, 2, 3, 7], 2))
    evs = [["Spawn", p, 100], ["Spawn", q, 100], ["IterNew", None]] + [["IterNext", 0]] * 3
    evs += [["Reap", p], ["Spawn", p, 200], ["RunY", 0], ["IterNew", None], ["IterNext", 1], ["IterNew", None]]
    evs += [["IterNext", 2]] * 3 + [["IterNext", 1]] * 2 + [["IterNew", None]] + [["IterNext", 3]] * 3
    return evs


def _two_gens(rng):
    evs = [["Spawn", 1, 100], ["Spawn", 2, 100], ["Spawn", 3, 100]]
    if rng.random() < 0.5:
        evs += [["IterNew", None]] + [["IterNext", 0]] * 4
    base = len([e for e in evs if e[0] == "IterNew"])
    evs += [["IterNew", rng.choice(ATTRS[:NGOOD])], ["IterNew", rng.choice(ATTRS[:NGOOD])]]
    pool = [["IterNext", base]] * 4 + [["IterNext", base + 1]] * 4 + [rng.choice([["Reap", 2], ["Spawn", 7, 100], ["CacheClear"],
                                                                             ["IterClose", base], ["RunY", 0]])]
    rng.shuffle(pool)
    evs += pool + [["IterNew", None]] + [["IterNext", base + 2]] * 5
    return evs


def _sweep(variant):
    evs = [["Spawn", 1, 100], ["Spawn", 5, 100], ["Thread", 5, 6], ["Thread", 1, 9]]
    if variant == 1:
        evs += [["Spawn", PIDMAX, 100], ["Spawn", 2 ** 15, 100], ["Thread", 1, 2 ** 22]]
    if variant == 2:
        evs += [["Spawn", 0, 100], ["Exit", 5]]
    return evs + [["PidExists", n] for n in MAGS] + [["Pids"]]


def _sweep_fault():
    """pid_exists(n) for a listed PID, a zombie, thread ids, absent numbers, 0 and out-of-range numbers while the open or the
    read of /proc/<n>/status fails in every modelled way"""
    evs = [["Spawn", 1, 100], ["Spawn", 5, 100], ["Spawn", 3, 100], ["Exit", 3], ["Thread", 5, 6], ["Thread", 1, 9]]
    for f in FAULTS:
        for n in (1, 5, 3, 6, 9, 7, 0, -1, 2 ** 31 - 1, 2 ** 31, 10 ** 30):
            evs.append(["PidExistsF", n, f])
    return evs + [["Pids"]]


def _sweep_names(k):
    """every process and every thread carries the k-th hostile name; pids / pid_exists / process_iter must not care"""
    evs = [["Spawn", 1, 100], ["Spawn", 5, 100], ["Spawn", 3, 100], ["Exit", 3], ["Thread", 5, 6], ["Thread", 1, 9], ["Thread", 5, 8]]
    evs += [["PidExists", n] for n in (1, 5, 3, 6, 9, 8, 7, 2)] + [["PidExistsF", 6, "EACCES"], ["Pids"]]
    evs += [["IterNew", None]] + [["IterNext", 0]] * 4 + [["IterNew", ["name", "pid"], "tuple", None]] + [["IterNext", 1]] * 4
    c = _hist_case(evs, "hostile-names")
    c["hostile"] = k
    return c


def _features(evs):
    f = []
    started = set()
    done = set()
    running_overlap = False
    for e in evs:
        if e[0] == "IterNext":
            if e[1] not in done:
                started.add(e[1])
            if len(started - done) >= 2:
                running_overlap = True
        if e[0] == "IterClose":
            done.add(e[1])
    if running_overlap:
        f.append("2gen")
    if any(e[0] == "CacheClear" for e in evs):
        f.append("clear")
    if any(e[0] == "IterNew" and e[1] is not None for e in evs):
        f.append("attrs")
    if any(e[0] == "RunY" for e in evs):
        f.append("isrun")
    if any(e[0] in ("Thread",) for e in evs):
        f.append("tid")
    return f


def _attrs_block():
    """systematic: every attrs shape x {all attributes (empty), the optional attribute named, ordinary names, None} x
    {kernel with / without the optional record}, cold cache then warm cache"""
    out = []
    ncs = "num_ctx_switches"
    k = 0
    for unimpl in ([], [ncs]):
        for shape in OK_SHAPES + BAD_SHAPES:
            for attrs in ([], [ncs], ["pid", ncs], ["pid", "name"]):
                ad = AD_VALUES[k % len(AD_VALUES)]
                k += 1
                evs = [["Spawn", 1, 100], ["Spawn", 2, 100], ["Spawn", 3, 100], ["Exit", 3],
                       ["IterNew", attrs, shape, ad]] + [["IterNext", 0]] * 4 + \
                      [["IterNew", attrs, shape, ad]] + [["IterNext", 1]] * 4 + \
                      [["IterNew", None, "list", ad]] + [["IterNext", 2]] * 4 + \
                      [["IterNew", attrs, shape, ad]] + [["IterNext", 3]] * 4
                c = _hist_case(evs, "attrs-shapes" + ("-unimpl" if unimpl else ""))
                c["unimpl"] = unimpl
                out.append(c)
    return out


def _hist_case(evs, tag=None):
    trivial = not any(e[0] not in KERNEL_EVENTS and e[0] != "IterNew" for e in evs)
    cls = "trivial" if trivial else (tag or "hist" + "".join("-" + x for x in _features(evs)))
    c = {"kind": "hist", "cls": cls, "events": evs}
    if any(e[0] == "IterNew" and e[1] == [] and iternew(e)[1] in OK_SHAPES for e in evs):
        c["patch_names"] = True
    return c


LIST_NAMES = ["1", "42", "007", "4194304", "2147483647", "99999999999999999999", "0", "self", "thread-self", "meminfo", "sys",
              "1a", "a1", "-1", "+1", "1_0", " 1", "1 ", "١٢", "²", "12\n", "uptime", "3", "10", "9"]
PRE_LINES = ["Name:\tproc", "Name:\tTgid:\t5", "Umask:\t0022", "State:\tS (sleeping)", "Name:\ta\\nTgid:\t7", "Name:\t Tgid:", ""]
POSTS = ["", "Ngid:\t0\nPid:\t5\nPPid:\t1\n", "Ngid:\t0\nTgid:\t999\n", "Pid:\t5"]
RAW_STATUS = [b"", b"Tgid:\n", b"Tgid:\tx\n", b"Tgid: 5", b"Tgid:5\n", b" Tgid:\t5\n", b"Name:\tx\nTgid:\t 5 \n", b"Tgid:\t5 6\n",
              b"Tgid:\t+5\n", b"Tgid:\t5_0\n", b"Tgid:\t-5\n", b"Name:\tx\n", b"Tgid:\t5\nTgid:\t6\n", b"tgid:\t5\n", b"\nTgid:\t5\n",
              b"Tgid:\t0x5\n", b"Tgid:\t5\r\n", None]
KILLS = ["ok", "ok", "ok", "eperm", "esrch", "overflow"]


def gen_cases(rng, tier):
    n_hist = {"quick": 420, "thorough": 5000, "search": 420}[tier]
    n_txt = {"quick": 110, "thorough": 1500, "search": 100}[tier]
    cases = []
    for v in range(3):
        cases.append(_hist_case(_sweep(v), "pidexists-sweep"))
    cases.append(_hist_case(_sweep_fault(), "pidexists-status-fault-sweep"))
    cases.extend(_attrs_block())
    for k in range(len(HOSTILE)):
        cases.append(_sweep_names(k))
    # text level: the status file of a task called <hostile name>, Tgid equal / not equal to the probed id
    for k in range(len(HOSTILE)):
        for ident, tg in ((7, 7), (7, 5), (4242, 4242)):
            cases.append({"kind": "status_named", "cls": "status-named", "pid": ident, "kill": "ok" if k % 3 else "eperm",
                          "comm": hostile_comm(ident, k).hex(), "pre": ["Umask:\t0022", "State:\tS (sleeping)"], "tgid": str(tg),
                          "post": "Ngid:\t0\nPid:\t%d\nPPid:\t1\n" % ident, "names": ["1", str(tg), "self"]})
    # os.fork() from the main thread while another thread is parked inside process_iter()'s start-up section / pids() /
    # pid_exists(): in the child the three functions must work (a hang = violation) and give one coherent list
    if tier != "search":
        for n, (fn, fl, what, i) in enumerate(FORK_SPOTS):
            cases.append({"kind": "fork", "cls": "fork", "func": fn, "file": fl, "what": what, "lines": i, "warm": n % 2 == 0})
    # the running kernel: Name: escaping of a child process and of one of its threads, and psutil on the real /proc
    if tier != "search":
        for comm in (b"x\rTgid:\t1", b"\rTgid:\t1", b"a\nb\\c\td:e", b"\x0b\x0c\x1c\x1d\x1e\xc2\x85", b"\xe2\x80\xa8Tgid:\t1",
                     b"plain"):
            cases.append({"kind": "live_name", "cls": "live-name", "comm": comm.hex(), "tcomm": (b"\rTgid:\t" + comm)[:15].hex()})
    for i in range(n_hist):
        r = rng.random()
        if r < 0.10:
            cases.append(_hist_case(_midflight(rng), None))
        elif r < 0.12:
            cases.append(_hist_case(_overlap(rng), None))
        elif r < 0.22:
            cases.append(_hist_case(_motif(rng), None))
        elif r < 0.32:
            cases.append(_hist_case(_two_gens(rng), None))
        else:
            c = _hist_case(_rand_hist(rng))
            if rng.random() < 0.3:
                c["unimpl"] = ["num_ctx_switches"]
            if rng.random() < 0.3:
                c["hostile"] = rng.randrange(len(HOSTILE))
            cases.append(c)
    if tier == "thorough":
        prefix = [["Spawn", 1, 100], ["Spawn", 2, 100], ["IterNew", None], ["IterNext", 0], ["IterNext", 0], ["IterNext", 0]]
        alpha = [["Spawn", 1, 100], ["Spawn", 1, 200], ["Reap", 1], ["Reap", 2], ["IterNew", None], ["IterNext", 1], ["IterNext", 2],
                 ["IterClose", 1], ["CacheClear"], ["RunY", 0], ["RunY", 1]]
        for ln in range(1, 5):
            for combo in itertools.product(alpha, repeat=ln):
                evs = prefix + [list(e) for e in combo]
                # drain whatever is still running so that exhaustion checks apply
                evs += [["IterNext", 1]] * 3 + [["IterNext", 2]] * 3
                cases.append(_hist_case(evs, "small-scope"))
    nsch = {"quick": 13, "thorough": 18, "search": 13}[tier]
    for i in range(nsch):
        for j in range(nsch):
            cases.append({"kind": "sched", "cls": "sched-2threads", "schedule": [0] * i + [1] * j})
    for _ in range({"quick": 30, "thorough": 300, "search": 30}[tier]):
        cases.append({"kind": "sched", "cls": "sched-2threads-random", "schedule": [rng.randint(0, 1) for _ in range(40)]})
    # thread 0 finishes a warm iteration (epilogue / finally: the commit of the cache), thread 1 enters process_iter():
    # every pre-emption point of thread 0 (a warm iteration over 3 PIDs is 28 line events; 0..34 covers prologue, loop and
    # epilogue with margin), thread 1 then running to completion, or only j lines (up to / past its cache copy) before
    # thread 0 finishes
    for i in range(0, 35):
        cases.append({"kind": "sched_commit", "cls": "sched-commit", "schedule": [0] * i + [1] * 60})
    for i in range(22, 35):
        for j in range(1, 7):
            cases.append({"kind": "sched_commit", "cls": "sched-commit", "schedule": [0] * i + [1] * j})
    for _ in range({"quick": 20, "thorough": 400, "search": 20}[tier]):
        cases.append({"kind": "sched_commit", "cls": "sched-commit-random",
                      "schedule": [rng.randint(0, 1) for _ in range(70)]})
    for _ in range(n_txt):
        k = rng.randint(0, 8)
        names = [rng.choice(LIST_NAMES) for _ in range(k)]
        if rng.random() < 0.8:
            names = list(dict.fromkeys(names))
        cases.append({"kind": "listing", "cls": "listing" if any(n.isascii() and n.isdigit() for n in names) else "listing-nopid",
                      "names": names})
    for _ in range(n_txt):
        kill = rng.choice(KILLS)
        pid = rng.choice([2 ** 31, 2 ** 40, 10 ** 30]) if kill == "overflow" else rng.choice([1, 5, 7, 42, 999, PIDMAX])
        names = [rng.choice(LIST_NAMES[:10] + ["5", "7"]) for _ in range(rng.randint(1, 5))]
        if not any(n.isascii() and n.isdigit() for n in names) and rng.random() < 0.7:
            names.append("1")    # (otherwise: a root listing without any numeric entry -- the fallback must answer False)
        if rng.random() < 0.6:
            pre = [rng.choice(PRE_LINES) for _ in range(rng.randint(0, 4))]
            tg = rng.choice([str(pid), str(pid), "5", "1", "0" + str(pid), "7", "999", "123456789012345678901234567890"])
            cases.append({"kind": "status", "cls": "status-" + kill, "pid": pid, "kill": kill, "pre": pre, "tgid": tg,
                          "post": rng.choice(POSTS), "names": names})
        else:
            c = rng.choice(RAW_STATUS)
            cases.append({"kind": "rawstatus", "cls": "rawstatus-" + kill, "pid": pid, "kill": kill,
                          "content": None if c is None else c.hex(), "names": names})
    return cases


# ------------------------------------------------------------------ Coq terms
def _attrs_term(a, shape="list"):
    if a is None:
        return "None"
    if shape in BAD_SHAPES:
        return "(Some [(-1)])"        # coq/C04/Model.v BADTYPE: attrs is not a list / tuple / set / frozenset
    return "(Some %s)" % G.lst([G.z(code(x)) for x in a])


def _ev_term(e):
    k = e[0]
    if k == "Spawn":
        return "HE (Spawn %s %s)" % (G.z(e[1]), G.z(e[2]))
    if k in ("Exit", "Reap", "ThreadExit", "PidExists"):
        return "HE (%s %s)" % (k, G.z(e[1]))
    if k == "Thread":
        return "HE (Thread %s %s)" % (G.z(e[1]), G.z(e[2]))
    if k == "PidExistsF":
        f = "FNoTgid" if e[2] == "notgid" else "(FErrno %s)" % G.z(FAULT_ERRNO[e[2]])
        return "HE (PidExistsF %s %s)" % (G.z(e[1]), f)
    if k in ("Pids", "CacheClear"):
        return "HE %s" % k
    if k == "IterNew":
        a, shape, _ = iternew(e)
        return "HE (IterNew %s)" % _attrs_term(a, shape)
    if k in ("IterNext", "IterClose"):
        return "HE (%s %s)" % (k, G.nat(e[1]))
    if k == "RunY":
        return "HRunY %s" % G.nat(e[1])
    raise ValueError(k)


KILL_TERM = {"ok": "KOk", "esrch": "KEsrch", "eperm": "KEperm", "overflow": "KOverflow"}


def _is_pid_name(n):
    b = n.encode("utf-8")
    return len(b) > 0 and all(48 <= c <= 57 for c in b)


def _names_term(names):
    return G.lst([G.by(n) for n in names])


def coq_term(case):
    k = case["kind"]
    _set_case(case)
    if k == "hist":
        return "run_hist %s %s" % (G.lst([G.z(c) for c in valid_codes(case)]), G.lst([_ev_term(e) for e in case["events"]]))
    if k in ("sched", "sched_commit", "fork"):
        return "JL []"
    if k == "listing":
        return "run_listing %s" % G.lst(["(%s %s)" % ("DPid" if _is_pid_name(n) else "DOther", G.by(n)) for n in case["names"]])
    if k == "status":
        return "run_status %s %s (Build_kstatus %s %s %s) %s" % (
            G.z(case["pid"]), KILL_TERM[case["kill"]], G.lst([G.by(x) for x in case["pre"]]), G.by(case["tgid"]),
            G.by(case["post"]), _names_term(case["names"]))
    if k == "status_named":
        return "run_status_named %s %s %s %s %s %s %s" % (
            G.z(case["pid"]), KILL_TERM[case["kill"]], G.by(bytes.fromhex(case["comm"])), G.lst([G.by(x) for x in case["pre"]]),
            G.by(case["tgid"]), G.by(case["post"]), _names_term(case["names"]))
    if k == "live_name":
        return "run_name_lines %s" % G.lst([G.by(bytes.fromhex(case["comm"])), G.by(bytes.fromhex(case["tcomm"]))])
    if k == "rawstatus":
        c = case["content"]
        return "run_status_raw %s %s %s %s" % (G.z(case["pid"]), KILL_TERM[case["kill"]],
                                               "None" if c is None else "(Some %s)" % G.by(bytes.fromhex(c)),
                                               _names_term(case["names"]))
    raise ValueError(k)


def renumber(x, table=None):
    """Replace object tokens by their order of first appearance (depth-first, left to right)."""
    table = {} if table is None else table

    def walk(v):
        if isinstance(v, dict) and v.get("t") == "Obj":
            n = v["a"][0]
            if n not in table:
                table[n] = len(table)
            return T("Obj", table[n])
        if isinstance(v, dict) and "a" in v:
            return {"t": v["t"], "a": [walk(y) for y in v["a"]]}
        if isinstance(v, list):
            return [walk(y) for y in v]
        return v
    return walk(x)


def coq_struct(case, raw):
    k = case["kind"]
    if k == "hist":
        evs, flag_a, flag_b, flag_c = raw
        model = renumber([e if isinstance(e, dict) else [e[0], e[1]] for e in evs])
        spec = [None if isinstance(e, dict) else e[2] for e in evs]
        oom = any(isinstance(e, list) and isinstance(e[0], dict) and e[0].get("t") == "Oom" for e in evs)
        return {"model": model, "spec": None, "spec_events": spec, "marked_at_entry": bool(flag_a),
                "stale_skip": bool(flag_b), "stale_reyield": bool(flag_c), "oom": oom}
    if k in ("sched", "sched_commit"):
        return {"model": None, "spec": None}
    if k == "fork":
        # the table is {1,2,3}: the parked thread's call, then in the child pids(), pid_exists(2), pid_exists(99), two iterations
        mine = {"iter": [1, 2, 3], "pids": [1, 2, 3], "exists": True, "iter_attrs": [1, 2, 3]}[case["what"]]
        want = [["ok", mine], {"pids": [1, 2, 3], "exists2": True, "exists99": False, "iter": [1, 2, 3], "iter2": [1, 2, 3],
                               "iter_attrs": [1, 2, 3]}]
        return {"model": want, "spec": want}
    if k == "listing":
        spec = raw[2]
        if spec is not None:
            spec = Val([spec["a"][0], spec["a"][0][0]])
        return {"printed": raw[0], "model": raw[1], "spec": spec}
    if k in ("status", "status_named"):
        return {"printed": raw[0], "model": raw[1], "spec": raw[2]}
    if k == "live_name":
        # demanded on the real /proc: the child is listed and exists, its thread id does not "exist" and is not listed
        return {"printed": raw, "model": [Val(True), Val(False), True, False], "spec": [Val(True), Val(False), True, False]}
    if k == "rawstatus":
        return {"model": raw[0], "spec": None}
    raise ValueError(k)


# ------------------------------------------------------------------ verdicts
FINDING = "process_iter-skips-recycled-pid"


def finding_key(case, coq):
    """Input class of the known finding: histories in which (by the model) a generator runs to exhaustion without yielding a
    PID that was listed when it started and never left the table -- its cached object was stale (marked as reused by
    is_running() before the iteration, or found reused by ppid() inside as_dict) and was dropped instead of replaced."""
    if case["kind"] == "hist" and isinstance(coq, dict) and coq.get("stale_skip"):
        return FINDING
    return None


def spec_keys(case, attrs):
    """info keys demanded for attrs (a collection of valid, implemented names), all IMPLEMENTED names when it is empty"""
    s = sorted(set(code(a) for a in attrs))
    return s if s else [c for c in valid_codes(case) if c < 1000]


def _objs(v, acc):
    if isinstance(v, dict) and v.get("t") == "Obj":
        acc.add(v["a"][0])
    elif isinstance(v, dict) and "a" in v:
        for y in v["a"]:
            _objs(y, acc)
    elif isinstance(v, list):
        for y in v:
            _objs(y, acc)


def oracle(case, coq, impl):
    """The property text evaluated on the implementation's trace. Returns None or a message."""
    events = case["events"]
    if not isinstance(impl, list) or len(impl) != len(events):
        return "trace has the wrong shape"
    spec = coq["spec_events"]
    tab = Table()
    gens = []
    seen = set()
    prev = [[], [], None]
    # "an entry whose PID was found recycled by is_running() is replaced by a fresh object": per object token the pid and
    # start ticks it was created for, whether is_running() already answered False on it, and -- once is_running() answers
    # False while the PID belongs to a process with another start time -- the event index of that discovery.  Generators
    # entered after it must never yield that object.  (Not evaluated in histories that request 'ppid': there as_dict runs
    # is_running() out of sight.)
    born, said_false, found_at, ytok = {}, set(), {}, []
    _set_case(case)
    hidden_isrun = any(e[0] == "IterNew" and e[1] is not None and "ppid" in e[1] for e in events)

    def note_new(v):
        acc = set()
        _objs(v, acc)
        return acc

    for idx, (ev, res) in enumerate(zip(events, impl)):
        if isinstance(res, dict):      # Skip
            continue
        out, snap = res
        k = ev[0]
        tag = out.get("t") if isinstance(out, dict) else None
        where = "event %d %r: " % (idx, ev)
        if spec[idx] is not None and out != spec[idx]:
            return where + "answer %r, the process table demands %r" % (out, spec[idx])
        if k in KERNEL_EVENTS:
            before = set(tab.procs)
            tab.apply(ev)
            gone = before - set(tab.procs)
            for g in gens:
                if g["state"] == "run":
                    g["vanished"] |= gone
        elif k in ("PidExists", "PidExistsF"):
            if tag == "Exc" and ev[1] >= 0 and not (ev[1] == 0 and not tab.procs):
                return where + "pid_exists raised %r" % (out,)
        elif k == "IterNew":
            gens.append({"attrs": ev[1], "shape": iternew(ev)[1], "state": "new", "yields": [], "vanished": set()})
        elif k == "IterNext" and ev[1] < len(gens):
            g = gens[ev[1]]
            if g["state"] == "new":
                g["entered"] = idx
                g.update(state="run", L=set(tab.procs), cache={p: o["a"][0] for p, o in prev[0]}, marked=set(prev[1]),
                         seen0=set(seen), empty=not tab.procs)
            if g["state"] == "done":
                if tag != "Stop":
                    return where + "a finished generator answered %r" % (out,)
            elif tag == "Yield":
                p, o, info = out["a"][0], out["a"][1]["a"][0], out["a"][2]
                if g["yields"] and not g["yields"][-1][0] < p:
                    return where + "yielded PID %d after %d (not ascending / duplicate)" % (p, g["yields"][-1][0])
                if p not in g["L"]:
                    return where + "yielded PID %d which was not listed when the iteration started" % p
                if p in g["cache"] and p not in g["marked"]:
                    # b70d950: a cached instance known to be recycled is replaced by a fresh one.  "Known" is visible to
                    # this oracle only for explicit is_running() calls; where as_dict may have run it out of sight ('ppid'
                    # requested somewhere in the history) a fresh object is accepted without that evidence.
                    known_stale = hidden_isrun or (g["cache"][p] in found_at and found_at[g["cache"][p]] < idx)
                    replaced_stale = known_stale and o not in g["seen0"]
                    if o != g["cache"][p] and not replaced_stale:
                        return where + "PID %d was cached and still listed but another object was yielded" % p
                elif o in g["seen0"]:
                    return where + "PID %d must get a fresh object (not cached / marked as reused) but an old one was yielded" % p
                if not hidden_isrun and o in found_at and found_at[o] < g["entered"]:
                    return where + ("object %d was found recycled by is_running() at event %d, yet a generator entered at "
                                    "event %d yields it for PID %d" % (o, found_at[o], g["entered"], p))
                if g["attrs"] is not None and info != spec_keys(case, g["attrs"]):
                    return where + "info keys %r, demanded %r" % (info, spec_keys(case, g["attrs"]))
                g["yields"].append((p, o))
            elif tag in ("Stop", "Exc"):
                g["state"] = "done"
                if tag == "Exc" and out["a"][0]["t"] == "IndexError" and g["empty"]:
                    pass    # empty process table (no real kernel has one): pids() fails before the body's try block
                elif tag == "Exc":
                    name = out["a"][0]["t"]
                    vc = valid_codes(case)
                    given = g["attrs"] is not None
                    badtype = given and g["shape"] in BAD_SHAPES
                    bad = given and not badtype and any(code(a) not in vc for a in g["attrs"])
                    # documented: a NON-EMPTY attrs naming an attribute the system does not implement raises
                    explicit = given and not badtype and not bad and any(code(a) >= 1000 for a in g["attrs"])
                    if not ((name == "TypeError" and badtype) or (name == "ValueError" and bad)
                            or (name == "NotImplementedError" and explicit) or (name == "IndexError" and g["empty"])):
                        return where + "process_iter() raised %s (attrs=%r as %s, unimplemented: %r)" % (
                            name, g["attrs"], g["shape"], sorted(_UNIMPL))
                else:
                    ys = {p for p, _ in g["yields"]}
                    for p in sorted(g["L"]):
                        if p not in ys and p not in g["vanished"]:
                            return where + "listed PID %d stayed in the table during the whole iteration but was not yielded" % p
                pm = {p: o["a"][0] for p, o in snap[0]}
                if tag == "Exc" and g["empty"]:
                    pm, g["yields"] = {}, []
                for p in pm:
                    if p not in g["L"]:
                        return where + "cache keeps PID %d which was not listed" % p
                for p, o in g["yields"]:
                    if pm.get(p) != o:
                        return where + "yielded object for PID %d is not the cached one afterwards" % p
        elif k == "IterClose" and ev[1] < len(gens):
            gens[ev[1]]["state"] = "done"
        elif k == "CacheClear":
            if snap[0] != []:
                return where + "cache not empty after cache_clear()"
        # objects first seen in this event were created in it, for the process that has the PID now
        if tag == "Yield":
            ytok.append(out["a"][1]["a"][0])
            t0 = out["a"][1]["a"][0]
            if t0 not in seen and out["a"][0] in tab.procs:
                born[t0] = (out["a"][0], tab.procs[out["a"][0]]["start"])
        for p_, o_ in snap[0]:
            t0 = o_["a"][0]
            if t0 not in seen and t0 not in born and p_ in tab.procs:
                born[t0] = (p_, tab.procs[p_]["start"])
        if k == "RunY" and tag == "Bool" and ev[1] < len(ytok):
            t0 = ytok[ev[1]]
            if out["a"][0] is False:
                if t0 not in said_false and t0 in born and born[t0][0] in tab.procs \
                        and tab.procs[born[t0][0]]["start"] != born[t0][1]:
                    found_at[t0] = idx
                said_false.add(t0)
        _objs(out, seen)
        _objs(snap, seen)
        prev = snap
    return None


def judge(case, coq, impl):
    from pv.core import Verdict, default_judge
    if case["kind"] == "sched":
        # two threads inside process_iter() at once, PID 2 marked as reused: no exception may escape, each thread gets an
        # ascending list of listed PIDs containing the unaffected PIDs 1 and 3 (PID 2 may be missing: known finding)
        for tid, r in enumerate(impl):
            if r[0] == "hang":
                return Verdict("violation", "thread %d: process_iter() did not terminate (blocked for ever)" % tid)
            if r[0] != "ok":
                return Verdict("violation", "thread %d: process_iter() raised %s" % (tid, r[1:]))
            l = r[1]
            if l != sorted(set(l)) or not set(l) <= {1, 2, 3} or not {1, 3} <= set(l):
                return Verdict("violation", "thread %d: process_iter() yielded %r for the table {1,2,3}" % (tid, l))
        return Verdict("ok")
    if case["kind"] == "fork":
        want = coq["spec"]
        if impl[0][0] == "hang":
            return Verdict("violation", "the parked thread never finished %s() in the parent" % case["func"])
        if not isinstance(impl[1], dict):
            return Verdict("violation", "the forked child did not report (%r)" % (impl[1],))
        for key in ("pids", "exists2", "exists99", "iter", "iter2", "iter_attrs"):
            if impl[1].get(key) != want[1][key]:
                return Verdict("violation", "in the child forked while a thread was inside %s() (%s, line %d): %s -> %r, demanded %r"
                               % (case["func"], case["file"], case["lines"], key, impl[1].get(key), want[1][key]))
        if impl[0] != want[0]:
            return Verdict("violation", "the parked thread's own call answered %r" % (impl[0],))
        return Verdict("ok")
    if case["kind"] == "sched_commit":
        # identity across threads (C04_same_object_next_iteration at line granularity): PIDs 1,2,3 were cached by a completed
        # iteration, stay listed with the same start ticks, nobody calls cache_clear() or is_running(): whatever the
        # interleaving of one thread finishing an iteration and another entering one, both are served the very same objects
        for tid, r in enumerate(impl[:2]):
            if r[0] == "hang":
                return Verdict("violation", "thread %d: process_iter() did not terminate (blocked for ever)" % tid)
            if r[0] != "ok":
                return Verdict("violation", "thread %d: process_iter() raised %s" % (tid, r[1:]))
            if [x[0] for x in r[1]] != [1, 2, 3]:
                return Verdict("violation", "thread %d: process_iter() yielded PIDs %r for the table {1,2,3}" % (tid, [x[0] for x in r[1]]))
            for pid, same in r[1]:
                if not same:
                    return Verdict("violation", "thread %d was served a NEW object for PID %d, which was cached by an earlier "
                                                "iteration and stayed listed (cache seen empty or partial during the commit)" % (tid, pid))
        if impl[2] is not True:
            return Verdict("violation", "after both threads finished the cache does not hold the original objects")
        return Verdict("ok")
    if case["kind"] != "hist":
        return default_judge(None, case, coq, impl)
    if coq.get("oom"):
        return Verdict("skip", "set iteration order inside as_dict is outside the model")
    msg = oracle(case, coq, impl)
    if msg:
        return Verdict("violation", msg)
    if impl != coq["model"]:
        n = next((i for i, (a, b) in enumerate(zip(impl, coq["model"])) if a != b), -1)
        return Verdict("corr", "trace differs from the model at event %d" % n)
    return Verdict("ok")


# ------------------------------------------------------------------ implementation side
_checked = []


def _status_bytes(tid, leader, comm=b"proc"):
    return (b"Name:\t" + _escape_name(comm) +
            b"\nUmask:\t0022\nState:\tS (sleeping)\nTgid:\t%d\nNgid:\t0\nPid:\t%d\nPPid:\t1\nThreads:\t2\n" % (leader, tid))


class _Patches:
    """os.listdir / os.kill over the fake tree; always restored."""

    def __init__(self, root, hidden=None, names=None, kill=None):
        self.root, self.hidden, self.names, self.killres = root, hidden, names, kill

    def __enter__(self):
        self.real_listdir, self.real_kill = os.listdir, os.kill
        root, rootb = self.root, os.fsencode(self.root)

        def fake_listdir(path=".", *a):
            if path == root or path == rootb:
                isb = isinstance(path, bytes)
                if self.names is not None:
                    return [n if isb else os.fsdecode(n) for n in self.names]
                r = self.real_listdir(path, *a)
                hid = {(os.fsencode(str(t)) if isb else str(t)) for t in self.hidden}
                return [x for x in r if x not in hid]
            return self.real_listdir(path, *a)

        def fake_kill(pid, sig):
            if not isinstance(pid, int) or isinstance(pid, bool):
                raise TypeError("an integer is required")
            if not -2 ** 31 <= pid < 2 ** 31:
                raise OverflowError("Python int too large to convert to C int")
            if sig != 0:
                raise AssertionError("C04 harness: unexpected signal %r" % (sig,))
            if self.killres is not None:
                if self.killres == "overflow":
                    raise OverflowError("Python int too large to convert to C int")
                if self.killres == "esrch":
                    raise ProcessLookupError(errno.ESRCH, "No such process")
                if self.killres == "eperm":
                    raise PermissionError(errno.EPERM, "Operation not permitted")
                return None
            if pid > 0 and os.path.isdir(os.path.join(root, str(pid))):
                return None
            raise ProcessLookupError(errno.ESRCH, "No such process")
        os.listdir, os.kill = fake_listdir, fake_kill
        return self

    def __exit__(self, *a):
        os.listdir, os.kill = self.real_listdir, self.real_kill


class _BadRead:
    """a binary file whose iteration fails with EIO"""

    def __enter__(self):
        return self

    def __exit__(self, *a):
        return False

    def __iter__(self):
        raise OSError(errno.EIO, "Input/output error")

    def close(self):
        pass


def _pid_exists_faulted(psutil, root, n, fault):
    """psutil.pid_exists(n) while _pslinux.open_binary fails (or misbehaves) for /proc/<n>/status"""
    import io
    target = "%s/%s/status" % (root, n)
    real = psutil._pslinux.open_binary
    hits = []

    def fake_open_binary(path, *a, **kw):
        if path == target:
            hits.append(1)
            if fault == "notgid":
                return io.BytesIO(b"Name:\tproc\nUmask:\t0022\nState:\tS (sleeping)\nPid:\t%d\nPPid:\t1\n" % (n,))
            if fault == "EIO-read":
                return _BadRead()
            raise OSError(FAULT_ERRNO[fault], os.strerror(FAULT_ERRNO[fault]), path)   # -> the matching OSError subclass
        return real(path, *a, **kw)
    psutil._pslinux.open_binary = fake_open_binary
    try:
        try:
            r = psutil.pid_exists(n)
            return T("Bool", r) if isinstance(r, bool) else T("NotBool", repr(r))
        except Exception as e:  # noqa
            return Exc(exc_name(e))
    finally:
        psutil._pslinux.open_binary = real


def _shape(names, shape):
    """the attrs argument in the given Python shape"""
    if shape == "list":
        return list(names)
    if shape == "tuple":
        return tuple(names)
    if shape == "set":
        return set(names)
    if shape == "frozenset":
        return frozenset(names)
    if shape == "gen":
        return (n for n in names)
    if shape == "iter":
        return iter(list(names))
    if shape == "dict":
        return {n: 1 for n in names}
    if shape == "keys":
        return {n: 1 for n in names}.keys()
    raise ValueError(shape)


def _strip_ctxt(fp, pid, strip):
    """a kernel without the optional *_ctxt_switches records in /proc/<pid>/status"""
    if not strip:
        return
    p = os.path.join(fp.pdir(pid), "status")
    with open(p, "rb") as f:
        lines = f.read().splitlines(keepends=True)
    with open(p, "wb") as f:
        f.write(b"".join(ln for ln in lines if b"ctxt_switches" not in ln))


def _reset(psutil):
    psutil._pmap = {}
    psutil._pids_reused.clear()
    psutil._LOWEST_PID = None


def _run_hist(case, env, psutil):
    from pv import fakeproc
    if not _checked:
        assert set(NAMES) <= set(psutil._as_dict_attrnames), "attribute universe is not valid in this psutil"
        assert not (set(BAD) & set(psutil._as_dict_attrnames))
        _checked.append(1)
    root = os.path.join(env["work"], "proc")
    fp = fakeproc.FakeProc(root)
    fakeproc.attach(psutil, root)
    _reset(psutil)
    tab = Table()
    hidden = set()
    gens, ylog, keep, tokens = [], [], [], {}
    real_names = psutil._as_dict_attrnames

    def tok(o):
        if id(o) not in tokens:
            tokens[id(o)] = len(tokens)
            keep.append(o)
        return T("Obj", tokens[id(o)])

    def snapshot():
        return [[[p, tok(o)] for p, o in sorted(psutil._pmap.items())], sorted(psutil._pids_reused), psutil._LOWEST_PID]

    res = []
    with _Patches(root, hidden=hidden):
        try:
            _set_case(case)
            hk = case.get("hostile")
            comm_of = (lambda ident: b"proc") if hk is None else (lambda ident: hostile_comm(ident, hk))
            strip = "num_ctx_switches" in _UNIMPL
            if case.get("patch_names"):
                psutil._as_dict_attrnames = frozenset(n for n in NAMES if n != "ppid")
            for ev in case["events"]:
                k = ev[0]
                if k in KERNEL_EVENTS:
                    for act in tab.apply(ev):
                        if act[0] == "add":
                            fp.add(act[1], comm=comm_of(act[1]), starttime=act[2])
                            _strip_ctxt(fp, act[1], strip)
                        elif act[0] == "zombie":
                            fp.add(act[1], comm=comm_of(act[1]), starttime=act[2], state=b"Z")
                            _strip_ctxt(fp, act[1], strip)
                        elif act[0] == "remove":
                            fp.remove(act[1])
                        elif act[0] == "addtid":
                            os.makedirs(os.path.join(root, str(act[1])), exist_ok=True)
                            with open(os.path.join(root, str(act[1]), "status"), "wb") as f:
                                f.write(_status_bytes(act[1], act[2], comm_of(act[1])))
                            hidden.add(act[1])
                        elif act[0] == "rmtid":
                            shutil.rmtree(os.path.join(root, str(act[1])), ignore_errors=True)
                            hidden.discard(act[1])
                    out = T("Ret")
                elif k == "Pids":
                    try:
                        out = T("Pids", list(psutil.pids()))
                    except Exception as e:  # noqa
                        out = Exc(exc_name(e))
                elif k == "PidExists":
                    try:
                        r = psutil.pid_exists(ev[1])
                        out = T("Bool", r) if isinstance(r, bool) else T("NotBool", repr(r))
                    except Exception as e:  # noqa
                        out = Exc(exc_name(e))
                elif k == "PidExistsF":
                    out = _pid_exists_faulted(psutil, root, ev[1], ev[2])
                elif k == "IterNew":
                    a, shape, ad = iternew(ev)
                    if a is None:
                        gens.append(psutil.process_iter() if ad is None else psutil.process_iter(ad_value=ad))
                    else:
                        gens.append(psutil.process_iter(attrs=_shape(a, shape), ad_value=ad))
                    out = T("Ret")
                elif k == "IterNext":
                    if ev[1] >= len(gens):
                        out = T("Bad")
                    else:
                        try:
                            p = next(gens[ev[1]])
                        except StopIteration:
                            out = T("Stop")
                        except Exception as e:  # noqa
                            out = Exc(exc_name(e))
                        else:
                            ylog.append(p)
                            info = getattr(p, "info", None)
                            out = T("Yield", p.pid, tok(p), None if info is None else sorted(code(n) for n in info))
                elif k == "IterClose":
                    if ev[1] >= len(gens):
                        out = T("Bad")
                    else:
                        gens[ev[1]].close()
                        out = T("Ret")
                elif k == "CacheClear":
                    psutil.process_iter.cache_clear()
                    out = T("Ret")
                elif k == "RunY":
                    if ev[1] >= len(ylog):
                        res.append(T("Skip"))
                        continue
                    try:
                        r = ylog[ev[1]].is_running()
                        out = T("Bool", r) if isinstance(r, bool) else T("NotBool", repr(r))
                    except Exception as e:  # noqa
                        out = Exc(exc_name(e))
                else:
                    raise ValueError(k)
                res.append([out, snapshot()])
        finally:
            for g in gens:
                try:
                    g.close()
                except Exception:  # noqa
                    pass
            psutil._as_dict_attrnames = real_names
            _reset(psutil)
    return res


def _run_text(case, coq, env, psutil):
    from pv import fakeproc
    root = os.path.join(env["work"], "proc")
    fp = fakeproc.FakeProc(root)
    fakeproc.attach(psutil, root)
    _reset(psutil)
    k = case["kind"]
    try:
        if k == "listing":
            names = [unB(x) for x in coq["printed"]]
            with _Patches(root, names=names):
                return outcome(lambda: [list(psutil.pids()), psutil._LOWEST_PID])
        pid = case["pid"]
        content = unB(coq["printed"]) if k in ("status", "status_named") else (None if case["content"] is None else bytes.fromhex(case["content"]))
        if content is not None and pid <= PIDMAX:
            os.makedirs(os.path.join(root, str(pid)), exist_ok=True)
            with open(os.path.join(root, str(pid), "status"), "wb") as f:
                f.write(content)
        names = [n.encode("utf-8") for n in case["names"]]
        with _Patches(root, names=names, kill=case["kill"]):
            return outcome(lambda: psutil.pid_exists(pid))
    finally:
        _reset(psutil)


_LIVE_CHILD = r"""
import ctypes, os, sys, threading
libc = ctypes.CDLL(None, use_errno=True)
comm, tcomm = bytes.fromhex(sys.argv[1]), bytes.fromhex(sys.argv[2])
ready = threading.Event()
def th():
    libc.prctl(15, tcomm, 0, 0, 0)          # PR_SET_NAME acts on the calling thread
    sys.stdout.write("%d\n" % threading.get_native_id()); sys.stdout.flush()
    ready.set()
    threading.Event().wait()
libc.prctl(15, comm, 0, 0, 0)
t = threading.Thread(target=th, daemon=True); t.start(); ready.wait()
sys.stdin.read()
"""


def _run_live_name(case, coq, env, psutil):
    """Against the running kernel: a child sets its comm (and the comm of one of its threads) with prctl(PR_SET_NAME); the Name:
    record of /proc/<pid>/status and /proc/<tid>/status must be byte for byte what the spec's printer k_name_line prints
    (harness error otherwise: the transcription of the kernel format would be wrong); then the real psutil on the real /proc."""
    import subprocess
    import sys
    comm, tcomm = bytes.fromhex(case["comm"]), bytes.fromhex(case["tcomm"])
    child = subprocess.Popen([sys.executable, "-c", _LIVE_CHILD, case["comm"], case["tcomm"]], stdin=subprocess.PIPE,
                             stdout=subprocess.PIPE)
    try:
        tid = int(child.stdout.readline())
        pid = child.pid

        def first_record(path):
            with open(path, "rb") as f:
                data = f.read()
            return data[:data.index(b"\n") + 1]
        got = [first_record("/proc/%d/status" % pid), first_record("/proc/%d/status" % tid),
               first_record("/proc/%d/task/%d/status" % (pid, tid))]
        want = [unB(coq["printed"][0]), unB(coq["printed"][1]), unB(coq["printed"][1])]
        if got != want:
            raise RuntimeError("the running kernel prints the Name: record differently from coq/C04/Spec.v k_name_line: "
                               "kernel %r, spec %r" % (got, want))
        old = psutil.PROCFS_PATH
        psutil.PROCFS_PATH = "/proc"
        try:
            return [outcome(lambda: psutil.pid_exists(pid)), outcome(lambda: psutil.pid_exists(tid)),
                    pid in psutil.pids(), tid in psutil.pids()]
        finally:
            psutil.PROCFS_PATH = old
            _reset(psutil)
    finally:
        child.kill()
        child.wait()


def _run_fork(case, env, psutil):
    """park one thread inside [func] after [lines] lines, os.fork() from this (the main) thread, run the three functions in the
    child under an alarm and report through a pipe; then let the parked thread finish in the parent"""
    import json as _json
    import select
    import signal
    from pv import fakeproc
    from props._c04_sched import run_two
    root = os.path.join(env["work"], "proc")
    fp = fakeproc.FakeProc(root)
    fakeproc.attach(psutil, root)
    _reset(psutil)

    class _Hang(Exception):
        pass

    def in_child(wfd):
        def on_alarm(signum, frame):
            raise _Hang()
        res = {}
        try:
            signal.signal(signal.SIGALRM, on_alarm)
            for key, call in (("pids", lambda: list(psutil.pids())), ("exists2", lambda: psutil.pid_exists(2)),
                              ("exists99", lambda: psutil.pid_exists(99)),
                              ("iter", lambda: [p.pid for p in psutil.process_iter()]),
                              ("iter2", lambda: [p.pid for p in psutil.process_iter()]),
                              ("iter_attrs", lambda: [p.pid for p in psutil.process_iter(attrs=["pid", "name"])])):
                signal.alarm(3)
                try:
                    res[key] = call()
                except _Hang:
                    res[key] = "HANG"
                except BaseException as e:  # noqa
                    res[key] = "EXC " + type(e).__name__
                finally:
                    signal.alarm(0)
            os.write(wfd, _json.dumps(res).encode())
        finally:
            os._exit(0)

    def do_fork():
        rfd, wfd = os.pipe()
        pid = os.fork()
        if pid == 0:
            os.close(rfd)
            in_child(wfd)
        os.close(wfd)
        data = b""
        try:
            while True:
                ready, _, _ = select.select([rfd], [], [], 25)
                if not ready:
                    break
                chunk = os.read(rfd, 65536)
                if not chunk:
                    break
                data += chunk
        finally:
            os.close(rfd)
        try:
            killer[0](pid, signal.SIGKILL)      # reported or not, the child is done
        except Exception:  # noqa
            pass
        try:
            os.waitpid(pid, 0)
        except ChildProcessError:
            pass
        return _json.loads(data.decode()) if data else "NO-REPORT"

    killer = [os.kill]
    calls = {"iter": lambda tid: [p.pid for p in psutil.process_iter()], "pids": lambda tid: list(psutil.pids()),
             "iter_attrs": lambda tid: [p.pid for p in psutil.process_iter(attrs=["pid", "name"])],
             "exists": lambda tid: psutil.pid_exists(2)}
    try:
        with _Patches(root, hidden=set()):
            for p in (1, 2, 3):
                fp.add(p, starttime=100)
            if case.get("warm"):
                list(psutil.process_iter())
            results, child = run_two(calls[case["what"]], [0] * case["lines"], filename_suffix=case["file"],
                                     funcname=case["func"], nthreads=1, hook=do_fork)
        return [list(results[0]), child]
    finally:
        _reset(psutil)


def _run_sched(case, env, psutil):
    from pv import fakeproc
    from props._c04_sched import run_two
    root = os.path.join(env["work"], "proc")
    fp = fakeproc.FakeProc(root)
    fakeproc.attach(psutil, root)
    _reset(psutil)
    try:
        with _Patches(root, hidden=set()):
            for p in (1, 2, 3):
                fp.add(p, starttime=100)
            objs = list(psutil.process_iter())
            fp.remove(2)
            fp.add(2, starttime=200)
            o2 = [o for o in objs if o.pid == 2]
            if [o.pid for o in objs] != [1, 2, 3] or not o2:
                # the sequential warm-up already misbehaves: report it as the implementation's answer
                return [["exc", "WarmupMismatch", repr([o.pid for o in objs])]] * 2
            o2[0].is_running()
            res = run_two(lambda tid: [p.pid for p in psutil.process_iter()], case["schedule"])
        return [list(r) for r in res]
    finally:
        _reset(psutil)


def _run_sched_commit(case, env, psutil):
    from pv import fakeproc
    from props._c04_sched import run_two
    root = os.path.join(env["work"], "proc")
    fp = fakeproc.FakeProc(root)
    fakeproc.attach(psutil, root)
    _reset(psutil)
    try:
        with _Patches(root, hidden=set()):
            for p in (1, 2, 3):
                fp.add(p, starttime=100)
            warm = {o.pid: o for o in psutil.process_iter()}
            if sorted(warm) != [1, 2, 3]:
                return [["exc", "WarmupMismatch", repr(sorted(warm))]] * 2 + [False]
            res = run_two(lambda tid: [[p.pid, p is warm.get(p.pid)] for p in psutil.process_iter()], case["schedule"])
            final = all(psutil._pmap.get(p) is warm[p] for p in (1, 2, 3)) and sorted(psutil._pmap) == [1, 2, 3]
        return [list(r) for r in res] + [final]
    finally:
        _reset(psutil)


def impl_run(case, coq, env):
    import psutil
    if case["kind"] == "fork":
        return _run_fork(case, env, psutil)
    if case["kind"] == "live_name":
        return _run_live_name(case, coq, env, psutil)
    if case["kind"] == "sched_commit":
        return _run_sched_commit(case, env, psutil)
    if case["kind"] == "sched":
        return _run_sched(case, env, psutil)
    if case["kind"] == "hist":
        return _run_hist(case, env, psutil)
    return _run_text(case, coq, env, psutil)


MANIFEST = {
    "text": "Theorems (Coq, closed under the global context) about a step machine transcribing pids(), pid_exists(), process_iter(), "
            "cache_clear() and is_running()'s reuse marking, for every history of kernel events and calls, any number of generators "
            "advanced in any interleaving: pids() is the strictly ascending list of exactly the listed PIDs; pid_exists(n) equals "
            "membership for every integer n (thread ids, negatives, values beyond pid_t give False, never an exception); every "
            "generator yields strictly ascending PIDs, all listed when it started; exactly: the cached object iff the PID was cached, "
            "unmarked and its instance carries no reused flag, else an object made in that next(); end-to-end: an object yielded by "
            "an exhausted iteration is yielded again by the next iterations while the PID keeps its start ticks (no cache_clear, no "
            "other generator finishing in between: necessity refuted otherwise); info keys = the requested names (for None / empty attrs: all IMPLEMENTED names, whatever subset of attributes the system lacks, and never NotImplementedError), no exception other than TypeError / ValueError / NotImplementedError caused by the attrs argument; on "
            "exhaustion every listed PID was yielded or passed over, and whoever was passed over while in the table was cached "
            "and (marked as reused or ppid requested) -- the exact class of the known finding, never yielded (theorem for every member); after a generator finishes the cache holds exactly its entries (none for PIDs not listed), "
            "cache_clear() empties it; after is_running() found an object recycled (also mid-iteration) no generator entered later yields it, "
            "whatever the interleaving (repaired by b70d950; the refutation of the code before it is kept in C04/Legacy.v). Text level: the procfs-root filter and the Tgid scan return the kernel's values for every "
            "printed listing / status file. Tied to the code by running the real psutil over a fake /proc on generated histories.",
    "note": "Round 2: the if/elif/else chain of psutil.pid_exists(), the prologue of process_iter() (copy, set(pids()), set(pmap.keys()), "
            "a - b, b - a, eviction loop, _pids_reused drain, sorted merge) and its loop body (guards, add(pid), as_dict, yield, except "
            "NoSuchProcess: remove(pid)) are TRANSLATED from psutil/__init__.py of the tree under check by props/_c04_gen.py (ast, fail "
            "closed) into programs of coq/C04/PyGen.v; theorems C04_gen_pid_exists_is_model / C04_gen_prologue_is_model / "
            "C04_gen_loop_is_model prove the interpreters on these programs equal to the model's step(PidExists n) / gen_start / gen_loop "
            "for all inputs, so a semantic change of those statements breaks the build and starts the search for a failing input. "
            "Trusted: Coq kernel + vm_compute; hand-written model coq/C04/Model.v (tied by the correspondence run only); harness "
            "(fake /proc, os.kill/os.listdir replacements, identity tokens); CPython builtins. Calls are atomic w.r.t. kernel events; "
            "two threads are modelled at yield granularity only.",
}
