"""C09 -- disk/network counters: exact per-device values, totals never double count; disk_usage arithmetic."""
import os
import shutil
from fractions import Fraction

from pv import gallina as G
from pv.canon import B, T, outcome, unB

import resource

ID = "C09"
# The large-table cases evaluate the (structurally recursive, not tail-recursive) model on files of 30-70 KB inside coqc:
# that needs more than the default 8 MB stack.  Raised here, in the vcheck process, so that the coqc children inherit it.
try:
    _soft, _hard = resource.getrlimit(resource.RLIMIT_STACK)
    if _soft != _hard:
        resource.setrlimit(resource.RLIMIT_STACK, (_hard, _hard))
except (ValueError, OSError):      # pragma: no cover
    pass
COQ_REQUIRE = "C09.Run"
SHARD = 60
LEGACY_STRIP = False  # model parameter: True = code before fix e02f4b0 (name = line[:colon].strip())
CASE_TIMEOUT = 120  # generous: the sandbox is shared and can be heavily loaded
RULE = ("/proc/net/dev files printed by the kernel printer of coq/C09/Spec.v from 0..12 interfaces: names from an ASCII pool (':' "
        "'/' digits punctuation), a bytes pool (UTF-8, undecodable bytes, control characters, str blanks inside the name), a pool of "
        "kernel-valid names beginning/ending with a str blank (0x1c-0x1f, U+0085, U+1680, U+2003, U+2028, U+3000 ...), one name per "
        "str blank code point (at the end and inside), random printable names; modern '%6s: %7llu' and old '%6s:%8lu' format; "
        "/proc/diskstats files of 0..12 lines mixing the 14/18/20/22-field, 15-field (2.4) and 7-field layouts, disks and "
        "partitions, names with one or several '/', '!', virtual devices (loop, ram, dm-, md, zram), non-ASCII names, /sys/block "
        "populated from the whole-disk flags plus unrelated or contradicting entries; counters from "
        "{0,1,small,2^31,2^32,2^63,2^64-1,>2^64}; a 'distinct column' class gives every column its own value so any swap shows; "
        "the /sys/block fallback (no /proc/diskstats) over a fake sysfs tree; a malformed stream (dropped/added/non-numeric "
        "fields, blank lines, missing colon -> AssertionError, short headers, '\\r', 0x1c-0x1f, U+0085/U+2003/U+00A0, "
        "undecodable bytes inside lines) compared with the model's error class; the text layer itself (Coq decoder, universal "
        "newlines, str.split/strip, the complete str.isspace table over all 1114112 code points) against CPython; disk_usage over "
        "statvfs tuples with f_bsize and f_frsize independent (equal, larger, smaller, huge, 0). Single-poll cases call with "
        "nowrap=False and with nowrap=True on a cleared cache; history cases make 3-5 successive calls of "
        "net_io_counters(pernic=...) / disk_io_counters(perdisk=...) with the DEFAULT arguments over changing files: devices "
        "vanish for a poll and come back lower or higher, a poll lists nothing at all, pernic/perdisk alternate, counters of a "
        "device listed in consecutive polls never decrease (class steady/emptypoll: every poll must equal that poll's kernel "
        "counters) or do decrease (class wrap) -- and churn histories: X listed, X restarts lower while listed (offset recorded), X "
        "replaced by Z in a poll whose number of names does not shrink (rename / unplug+plug), X listed again, one more "
        "growing poll; for ALL history classes every poll must equal the kernel counters plus the ghost offsets of "
        "Spec.spec_wrap_hist (restarts seen while the device stayed listed; dropped when it is absent). Live cases: the running kernel's /proc/net/dev (also with real ifb interfaces created for the "
        "snapshot under names ending in 0x1f / starting with U+0085), /proc/diskstats and /sys/block/*/stat, parsed into the spec "
        "records, re-printed by the Coq printers (must be byte-identical, else exit 2), then run through model, spec and psutil, "
        "and psutil is also asked about the real /proc (same names, no counter below the snapshot). Every fake /sys/block/<disk> carries, as a fixed function of its name, no queue directory or "
        "queue/{hw_sector_size,logical_block_size,physical_block_size,minimum_io_size,optimal_io_size} saying 512, 4096, 2048, "
        "1024, 0, garbage or nothing (plus the /sys/class/block view): byte counts must stay sectors x 512, and every file "
        "access psutil makes during disk_io_counters() is logged (pv.shim) and judged -- anything but {procfs}/diskstats, "
        "os.access('/sys/block/<name>') and, without diskstats, the /sys/block walk and .../stat files is a correspondence "
        "difference. Large tables generated inside Gallina "
        "from a compact seed (device k = 'd<k>', counters 1000k+j or 2^64-1-(32k+j)): /proc/diskstats of exactly 32768 bytes, "
        "with a line ending exactly at byte 32768 and 40 more lines, of 65537 bytes (625 lines), of 131 lines of 64-bit-wide "
        "counters (49 KB), a 150-interface wide /proc/net/dev with a line ending at 32768, a /sys/block of 150 disks "
        "(thorough: also 32767/32769/65536, 450 lines, 400 interfaces, 300 disks); every listed device must appear per-disk and "
        "the total must be the sum over all whole disks. A case is non-trivial when at least one interface/device/non-zero "
        "block count/byte is present; distinct = distinct canonical case hash.")
TRUSTED = ["the kernel printers of Spec.v for /proc/net/dev, /proc/diskstats (20-field lines) and /sys/block/*/stat are validated "
           "byte for byte against the running kernel on every run (live cases; other layouts remain transcriptions of the "
           "kernel documentation)",
           "for the large-table cases the file bytes are rebuilt by a Python printer and accepted only when length and a 61-bit "
           "polynomial checksum equal those of the bytes the Coq kernel printer produced (printing 50 000 list elements in coqc "
           "costs seconds); the coqc children run with the stack limit raised (props/C09.py sets RLIMIT_STACK)",
           "correspondence harness props/C09.py + pv/ (fake /proc/net/dev, /proc/diskstats, /sys/block via pv.shim, os.statvfs patch)",
           "kernel formats of /proc/net/dev (net/core/net-procfs.c), dev_valid_name (net/core/dev.c), /proc/diskstats and "
           "/sys/block/*/stat (Documentation/admin-guide/iostats.rst, 2.4 /proc/partitions) transcribed in coq/C09/Spec.v",
           "hand-written model coq/C09/Model.v + Text.v of _pslinux.net_io_counters/disk_io_counters/is_storage_device, the "
           "__init__ front ends, _psposix.disk_usage and of CPython's text layer (UTF-8/surrogateescape decoding, universal "
           "newlines, str.isspace) -- tied to the code and to CPython by the correspondence run only",
           "table translator props/_c09_tables.py (namedtuple _fields and DISK_SECTOR_SIZE dumped from the tree under test into "
           "coq/Gen/C09_Tables.v on every run; fail-closed)"]
ASSUMPTIONS = ["int() on a token containing a non-ASCII character (CPython accepts Unicode decimal digits) is outside the model; such "
               "inputs are skipped as OutOfModel (they occur only in the malformed stream)",
               "CPython semantics of str.split/strip/rfind/int, dict insertion order, zip/sum and namedtuple are modelled, not verified",
               "numbers with more than 4300 digits are out of the model (CPython int() limit)",
               "_wrap_numbers: modelled (cache rebinding, reminders, dead-key removal) and proved to compute the ghost offsets of "
               "Spec.spec_wrap_hist for every history; whether those offsets are the right reading of a genuine 32/64-bit wrap is "
               "property C10's question",
               "an IndexError inside _WrapNumbers.run (tuples of different length) cannot occur with the fixed-width tuples and is not "
               "modelled statefully",
               "percent is compared as round(exact rational, 1) with either neighbour accepted within 1e-6 of a tie (IEEE double "
               "arithmetic of float(used)/total*100 is trusted)",
               "the /sys/block name of a device is taken as str: decoding and the '/'->'!' rewriting are assumed to commute "
               "(both ASCII; exercised on non-ASCII disk names by the correspondence run)"]
EXHAUSTIVE = {"quick": "every diskstats layout (14,18,20,22,15,7 fields) x {whole disk, partition} x {perdisk True, False} as single-line files; "
                       "every single-column perturbation of one /proc/net/dev line (16 columns) and one diskstats line (11 columns); "
                       "every str blank code point except tab/newline/space/NBSP at the end of and inside an interface name; "
                       "str.isspace() over all 1114112 code points against Text.is_uws",
              "thorough": "same enumerations, plus all pairs of layouts in two-line files and the full set of large-table sizes"}

U64 = 2 ** 64 - 1
VALS = [0, 0, 1, 2, 7, 99, 4096, 2 ** 31 - 1, 2 ** 31, 2 ** 32, 2 ** 32 + 5, 2 ** 53 + 1, 2 ** 63 - 1, 2 ** 63, U64, U64, 2 ** 64,
        10 ** 25]
NIC_NAMES = ["lo", "eth0", "eth0:1", "a:b:c", "wlp3s0", "br-5f3a9c1d2e4b", "veth1a2b3c4@if5", "tun0", "docker0", "x", "ens33.100",
             "eth0:", ":", "::1", "1", "12345678901234567890", "e/t", "a!b", "bond0:alias:2", "p2p-wlan0-0", "-", "|", "e#1"]
DISK_NAMES = ["sda", "sda1", "sdb", "sdb2", "nvme0n1", "nvme0n1p1", "nvme0n1p2", "cciss/c0d0", "cciss/c0d0p1", "cciss!c0d0", "loop0",
              "ram0", "dm-0", "md127", "hda", "hda1", "mmcblk0", "mmcblk0p1", "sr0", "zram0", "xvda", "vda1", "0", "7", "a/b/c", "rd/c0d0"]
GRAPH = "".join(chr(c) for c in range(33, 127))


def _enc(s):
    return s.encode("utf-8", "surrogateescape")


def _b2s(b):
    """bytes -> the str Python shows for them (cases carry names as such strs; JSON keeps lone surrogates)"""
    return bytes(b).decode("utf-8", "surrogateescape")


# names the kernel can hold that are not plain ASCII: UTF-8, undecodable bytes, str blanks INSIDE the name
NIC_BYTES = [_b2s(x) for x in (b"wl\xc3\xa9\xe2\x82\xac0", b"e\xff1", b"a\x1fb", b"\xe2\x82", b"\x80", b"eth\xc2\x85x", b"\xf0\x9f\x98\x80",
                               b"a\xe2\x80\x83b", b"\xed\xa0\x80", b"n\x01\x7f", b"\xc0\xaf", b"q\xf4\x90\x80\x80", b"\xe3\x81\x82wlan",
                               b"x\x0by", b"x\x1cy")]
# names the kernel accepts (dev_valid_name) whose str begins or ends with a str blank: finding class
NIC_EDGE = [_b2s(x) for x in (b"eth0\x1f", b"\x1ceth0", b"eth0\xc2\x85", b"\xe2\x80\x83wl", b"wl\xe3\x80\x80", b"a\x1e", b"\x1d",
                              b"v\xe1\x9a\x80", b"p\xe2\x80\xa8")]
DISK_BYTES = [_b2s(x) for x in (b"sd\xc3\xa9", b"d\xff", b"\xe2\x82\xac0", b"md/\xf0\x9f\x98\x80", b"x\x80/y", b"\xed\xa0\x80")]
_BLANKS = set([9, 10, 11, 12, 13, 28, 29, 30, 31, 32, 133, 160, 5760] + list(range(8192, 8203)) + [8232, 8233, 8239, 8287, 12288])


def _edge_blank(name):
    return bool(name) and (ord(name[0]) in _BLANKS or ord(name[-1]) in _BLANKS)


def _val(rng):
    if rng.random() < 0.25:
        return rng.randint(0, 10 ** rng.randint(1, 20))
    return rng.choice(VALS)


def _rname(rng, pool, forbid="", extra=None):
    if extra and rng.random() < 0.25:
        return rng.choice(extra)
    if rng.random() < 0.75:
        return rng.choice(pool)
    n = rng.randint(1, 15)
    s = "".join(rng.choice(GRAPH) for _ in range(n))
    for ch in forbid:
        s = s.replace(ch, "_")
    return s if s not in (".", "..") else "dot"


def _uniq(rng, pool, n, forbid="", extra=None):
    out = []
    while len(out) < n:
        s = _rname(rng, pool, forbid, extra)
        if s not in out:
            out.append(s)
    return out


def _nic(rng, name, mode):
    if mode == "distinct":
        base = rng.choice([1000, 10 ** 6, 2 ** 40])
        c = [base + 1 + k for k in range(16)]
    elif mode == "zeros":
        c = [0] * 16
        c[rng.randrange(16)] = rng.choice([1, U64])
    else:
        c = [_val(rng) for _ in range(16)]
    return {"name": name, "c": c}


def _disk(rng, name, lay, whole, mode, k=0):
    if mode == "distinct":
        base = rng.choice([100, 10 ** 6, 2 ** 40]) + 100 * k
        f = [base + 1 + i for i in range(11)]
        extra = [base + 50 + i for i in range(8)]
        blocks = base + 90
    else:
        f = [_val(rng) for _ in range(11)]
        extra = [_val(rng) for _ in range(8)]
        blocks = _val(rng)
    d = {"name": name, "lay": lay, "whole": whole, "major": rng.choice([3, 8, 8, 259, 7, 253, 1234, 65535]),
         "minor": rng.choice([0, 1, 2, 16, 255, 1048575, 12345678])}
    if lay in ("f14", "f18", "f20", "f22"):
        d["f"] = f
        d["extra"] = extra[:int(lay[1:]) - 14]
    elif lay == "l24":
        d["f"] = f
        d["blocks"] = blocks
    else:
        d["f"] = f[:4]
    return d


LAYS = ["f14", "f18", "f20", "f22", "l24", "p7"]


def _disk_file(rng, allow24, n=None, mode=None):
    n = rng.choice([0, 1, 1, 2, 3, 4, 6, 8, 12]) if n is None else n
    mode = mode or rng.choice(["rand", "rand", "distinct"])
    names = _uniq(rng, DISK_NAMES, n, extra=DISK_BYTES if rng.random() < 0.4 else None)
    era = rng.choice(["new", "new", "mixed", "26", "24"] if allow24 else ["new", "new", "mixed", "26"])
    devs = []
    for k, nm in enumerate(names):
        if era == "new":
            lay = rng.choice(["f14", "f18", "f20", "f20"])
        elif era == "26":
            lay = rng.choice(["f14", "p7"])
        elif era == "24":
            lay = "l24"
        else:
            lay = rng.choice(LAYS if allow24 else [x for x in LAYS if x != "l24"])
        whole = rng.random() < 0.5
        devs.append(_disk(rng, nm, lay, whole, mode, k))
    others = []
    r = rng.random()
    if r < 0.25:
        others = _uniq(rng, ["loop7", "ram15", "fd0", "sr1"], rng.randint(1, 2), forbid="/")
    elif r < 0.35 and devs:
        # contradicting /sys/block entry: a device flagged partition is listed anyway
        others = [rng.choice(devs)["name"].replace("/", "!")]
    others = [o for o in others if o not in (".", "..")]
    return devs, others


def _sysname(n):
    return n.replace("/", "!")


def _fs_safe(devs):
    """whole-disk names must be usable as directory names"""
    return all(_sysname(d["name"]) not in (".", "..") and len(_enc(_sysname(d["name"]))) < 200 and "\x00" not in d["name"] for d in devs)


# ------------------------------------------------------------------ python-side printers (for the malformed stream only)
def _py_netdev(ifs, sp=True):
    out = ["Inter-|   Receive                                                |  Transmit",
           " face |bytes    packets errs drop fifo frame compressed multicast|bytes    packets errs drop fifo colls carrier compressed"]
    for i in ifs:
        out.append("%6s:%s%s" % (i["name"], " " if sp else "", " ".join(str(x) for x in i["c"])))
    return "\n".join(out) + "\n"


def _py_diskline(d):
    if d["lay"] == "l24":
        fs = [d["blocks"], d["name"]] + d["f"]
    elif d["lay"] == "p7":
        fs = [d["name"]] + d["f"]
    else:
        fs = [d["name"]] + d["f"] + d["extra"]
    return "%4d %7d %s" % (d["major"], d["minor"], " ".join(str(x) for x in fs))


def _mutate_line(rng, line):
    toks = line.split(" ")
    idxs = [i for i, t in enumerate(toks) if t]
    k = rng.random()
    if not idxs:
        return line
    i = rng.choice(idxs)
    if k < 0.2:
        del toks[i]
    elif k < 0.4:
        toks.insert(i, str(rng.choice(VALS)))
    elif k < 0.55:
        toks[i] = rng.choice(["x", "-1", "+5", "1_0", "0x10", "1.5", "", "١", " 7", "1e3"])
        if toks[i] == "١":
            toks[i] = "9a"
    elif k < 0.65:
        toks[i] = toks[i] + rng.choice([":", "\t", "\x0b", "\x0c", "\r", "\x1c", "\x1f", "\x85", "\u2003", "\xe9", "\udcff", "\u0661",
                                        "\r\n", "\xa0"])
    elif k < 0.75:
        return line.replace(":", rng.choice(["", " ", "::", ": :"]), 1)
    elif k < 0.85:
        return rng.choice(["", " ", "\t", ":", " :", ": 1 2 3", "x"])
    else:
        toks = toks + [str(rng.choice(VALS))] * rng.choice([1, 2, 3, 4, 5])
    return " ".join(toks)


# ------------------------------------------------------------------ large tables (mirror of big_disks / big_nics of coq/C09/Run.v)
def _big_val(wide, k, j):
    return U64 - (k * 32 + j) if wide else 1000 * k + j


NET_W = [7, 7, 4, 4, 4, 5, 10, 9, 8, 7, 4, 4, 4, 5, 7, 10]


def _big_disk_line(k, wide, pad):
    fields = [_big_val(wide, k, j) for j in range(11)] + ([_big_val(wide, k, j) for j in range(11, 17)] if wide else [0] * 6)
    return "%4d %7d d%d%s%s\n" % (8, k, k, "x" * pad, "".join(" %d" % f for f in fields))


def _big_disk_line_len(k, wide, pad):
    return len(_big_disk_line(k, wide, pad))


def _pads(case):
    return {a: b for a, b in case.get("pads", [])}


def _big_disk_text(case):
    pads = _pads(case)
    return "".join(_big_disk_line(k, case["wide"], pads.get(k, 0)) for k in range(case["n"])).encode()


NET_H1 = "Inter-|   Receive                                                |  Transmit\n"
NET_H2 = " face |bytes    packets errs drop fifo frame compressed multicast|bytes    packets errs drop fifo colls carrier compressed\n"


def _big_nic_line(k, wide, pad):
    return "%6s:%s\n" % ("n%d%s" % (k, "x" * pad), "".join(" %*d" % (w, _big_val(wide, k, j)) for j, w in enumerate(NET_W)))


def _big_net_text(case):
    pads = _pads(case)
    return (NET_H1 + NET_H2 + "".join(_big_nic_line(k, case["wide"], pads.get(k, 0)) for k in range(case["n"]))).encode()


def _big_sys_ents(case):
    out = []
    for k in range(case["n"]):
        f = [_big_val(False, k, j) for j in range(11)]
        out.append((("d%d" % k).encode(), ("%8d" % f[0] + "".join(" %8d" % x for x in f[1:]) + "\n").encode()))
    return out


def _cksum(b):
    a = 7
    for x in b:
        a = (a * 131 + x + 1) % 2305843009213693951
    return a


def _big_file(case):
    k = case["kind"]
    if k == "diskbig":
        return _big_disk_text(case)
    if k == "netbig":
        return _big_net_text(case)
    return b"".join(n + b"\x00" + c for n, c in _big_sys_ents(case))


NET_HDR = 77 + 123        # the two header lines of /proc/net/dev with their newlines


def _big_nic_line_len(k, wide, pad):
    return len(_big_nic_line(k, wide, pad))


def _fit(line_len, wide, target, base=0, extra_lines=0):
    """number of lines and the name padding of line 0 such that the first lines end exactly at [target] bytes"""
    n, size = 0, base
    while size + line_len(n, wide, 0) <= target:
        size += line_len(n, wide, 0)
        n += 1
    gap = target - size
    pad = next(q for q in range(0, 500) if line_len(0, wide, q) - line_len(0, wide, 0) == gap)
    assert n > 1
    total = target + sum(line_len(k, wide, 0) for k in range(n, n + extra_lines))
    return n + extra_lines, ([[0, pad]] if pad else []), total


def _big_cases(tier):
    """quick: file of exactly 32 KiB; a line ending exactly at 32 KiB with more lines after it; 64 KiB + 1 (a line
    straddles both buffer boundaries); 131 lines of 64-bit-wide counters; a wide /proc/net/dev with a line ending at
    32 KiB; a /sys/block of 150 disks.  thorough: also 32 KiB +- 1, 64 KiB, 450 ordinary lines, 400 interfaces, 300 disks."""
    out = []
    sel = [("32768", 32768, 0), ("lineend-32768", 32768, 40), ("65537", 65537, 0)]
    if tier == "thorough":
        sel += [("32767", 32767, 0), ("32769", 32769, 0), ("65536", 65536, 0), ("lineend-65536", 65536, 40)]
    for tag, target, extra in sel:
        n, pads, total = _fit(_big_disk_line_len, False, target, 0, extra)
        out.append({"kind": "diskbig", "cls": "disk-big-" + tag, "n": n, "wide": False, "pads": pads, "size": total})
    for n, wide in ((131, True),) + (((450, False),) if tier == "thorough" else ()):
        out.append({"kind": "diskbig", "cls": "disk-big-" + ("wide" if wide else "450"), "n": n, "wide": wide, "pads": [],
                    "size": sum(_big_disk_line_len(k, wide, 0) for k in range(n))})
    n, pads, total = _fit(_big_nic_line_len, True, 32768, NET_HDR, 30)
    out.append({"kind": "netbig", "cls": "net-big-lineend-32768", "sp": True, "n": n, "wide": True, "pads": pads, "size": total})
    if tier == "thorough":
        out.append({"kind": "netbig", "cls": "net-big-400", "sp": True, "n": 400, "wide": False, "pads": [],
                    "size": NET_HDR + sum(_big_nic_line_len(k, False, 0) for k in range(400))})
    out.append({"kind": "sysbig", "cls": "sysfs-big", "n": 300 if tier == "thorough" else 150})
    return out


# ------------------------------------------------------------------ live cases: the RUNNING kernel's files
def _live_net(which=(0, 1, 2)):
    """Snapshot of the real /proc/net/dev, if possible with extra real interfaces (type ifb) whose names exercise
    what dev_valid_name() accepts: plain, ending in 0x1f, UTF-8 with U+0085 first.  Parsed into the record the Coq
    printer takes; the printed bytes must equal the real ones."""
    import subprocess
    tag = b"%x" % (os.getpid() & 0xfffff)
    want = [[b"pvl" + tag, b"pvu" + tag + b"\x1f", b"\xc2\x85pv\xc3\xa9" + tag][j] for j in which]
    made = []
    try:
        for n in want:
            try:
                r = subprocess.run([b"ip", b"link", b"add", n, b"type", b"ifb"], capture_output=True, timeout=10)
                if r.returncode == 0:
                    made.append(n)
            except Exception:
                pass
        with open("/proc/net/dev", "rb") as f:
            real = f.read()
    finally:
        for n in made:
            try:
                subprocess.run([b"ip", b"link", b"del", n], capture_output=True, timeout=10)
            except Exception:
                pass
    ifs = []
    for line in real.split(b"\n")[2:]:
        if not line:
            continue
        colon = line.rfind(b":")
        ifs.append({"name": _b2s(line[:colon].lstrip(b" ")), "c": [int(x) for x in line[colon + 1:].split()]})
    return {"kind": "net", "cls": "live-netdev" + ("-created%d" % len(made) if made else ""), "sp": True, "ifs": ifs,
            "real": real.hex(), "live": True}


def _live_disk():
    with open("/proc/diskstats", "rb") as f:
        real = f.read()
    listing = sorted(os.listdir(b"/sys/block")) if os.path.isdir("/sys/block") else []
    devs = []
    for line in real.split(b"\n"):
        if not line:
            continue
        t = line.split()
        f = [int(x) for x in t[3:]]
        name = _b2s(t[2])
        devs.append({"name": name, "lay": "f%d" % len(t), "whole": _enc(_sysname(name)) in listing, "major": int(t[0]),
                     "minor": int(t[1]), "f": f[:11], "extra": f[11:]})
    mine = {_enc(_sysname(d["name"])) for d in devs if d["whole"]}
    return {"kind": "disk", "cls": "live-diskstats", "devs": devs, "others": [_b2s(n) for n in listing if n not in mine],
            "real": real.hex(), "live": True}


def _live_sys():
    disks, real = [], []
    for b in sorted(os.listdir("/sys/block")):
        top = os.path.join("/sys/block", b)
        ents = []
        for root, _, files in os.walk(top):
            if "stat" in files:
                with open(os.path.join(root, "stat"), "rb") as f:
                    ents.append((os.path.basename(root), f.read()))
        if not ents or ents[0][0] != b:
            raise RuntimeError("C09 live: /sys/block/%s has no stat file of its own" % b)
        mk = lambda n, c: {"name": n, "f": [int(x) for x in c.split()][:11], "extra": [int(x) for x in c.split()][11:]}   # noqa: E731
        d = mk(*ents[0])
        d["parts"] = [mk(n, c) for n, c in ents[1:]]
        disks.append(d)
        real += [c.hex() for _, c in ents]
    return {"kind": "sys", "cls": "live-sysfs", "disks": disks, "real": real, "live": True}


def _live_cases():
    out = []
    for fn, path in ((_live_net, "/proc/net/dev"), (_live_disk, "/proc/diskstats"), (_live_sys, "/sys/block")):
        if os.path.exists(path):
            out.append(fn())
    if os.path.exists("/proc/net/dev"):
        out += [_live_net(()), _live_net((0,)), _live_net((1,)), _live_net((2,))]
    return out


def _check_live(case, printed):
    """the bytes the Coq kernel printer produced for the parsed record must be the running kernel's bytes"""
    if case["kind"] == "sys":
        mine, real = [unB(x).hex() for x in printed], case["real"]
    else:
        mine, real = unB(printed).hex(), case["real"]
    if mine != real:
        raise RuntimeError("C09 live (%s): Spec.v's kernel printer does not reproduce the running kernel's file.\nreal:    %r\nprinted: %r"
                           % (case["cls"], real if isinstance(real, list) else bytes.fromhex(real)[:600],
                              mine if isinstance(mine, list) else bytes.fromhex(mine)[:600]))


def _bump(rng, vec):
    """counters of a device that stays listed: none decreases"""
    return [v + rng.choice([0, 0, 1, 7, 1000, 2 ** 32]) for v in vec]


def _net_hist(rng):
    names = _uniq(rng, NIC_NAMES[:12], rng.choice([1, 2, 3, 4]), extra=NIC_BYTES if rng.random() < 0.2 else None)
    mode = rng.choice(["steady", "steady", "steady", "emptypoll", "wrap"])
    npolls = rng.choice([3, 4, 5])
    cur, prev_present, polls = {}, set(), []
    empty_at = rng.randrange(1, npolls - 1) if mode == "emptypoll" else None
    for k in range(npolls):
        if k == empty_at:
            present = []
        else:
            present = [n for n in names if rng.random() < 0.7] or [names[0]]
        for n in present:
            if n in prev_present:
                cur[n] = _bump(rng, cur[n])
                if mode == "wrap" and rng.random() < 0.4:
                    j = rng.randrange(16)
                    cur[n][j] = cur[n][j] // 2 if cur[n][j] else 0          # a genuine decrease while listed
            elif n in cur and rng.random() < 0.6:
                cur[n] = [v // rng.choice([2, 3, 1000]) for v in cur[n]]     # comes back LOWER
            elif n in cur:
                cur[n] = [v * 2 + 5 for v in cur[n]]                         # comes back higher
            else:
                cur[n] = [rng.choice([5, 1000, 2 ** 33, U64 // 2]) + j for j in range(16)]
        prev_present = set(present)
        polls.append({"per": rng.random() < 0.6, "ifs": [{"name": n, "c": list(cur[n])} for n in present]})
    return {"kind": "nethist", "cls": "nethist-" + mode, "sp": rng.random() < 0.85, "polls": polls}


def _churn_plan(rng, x, y, z):
    """the device sets of a churn history: X listed; X restarts lower while listed; X replaced by Z in a poll whose number of
    names does not shrink (rename / unplug+plug); X listed again; one more poll, counters only growing"""
    keep_z = rng.random() < 0.5
    plan = [[x, y], [x, y], [z, y], ([x, y, z] if keep_z else [x, y]), ([x, y, z] if keep_z else [x, y])]
    if rng.random() < 0.3:
        plan.insert(2, [x, y])            # a second restart poll
    if rng.random() < 0.3:
        plan = [p if y in p and rng.random() < 0.8 else [n for n in p if n != y] or p for p in plan]   # Y may be missing too
    return plan


def _churn_values(rng, plan, x, width):
    """per poll {name: vector}; X restarts lower in poll 1 (and in an inserted second restart poll); every other counter
    of a device listed in consecutive polls grows; a returning device has arbitrary (often lower) values"""
    cur, prev, out = {}, set(), []
    for k, names in enumerate(plan):
        vals = {}
        for n in names:
            if n in prev:
                v = _bump(rng, cur[n])
                if n == x and 1 <= k <= 2 and plan[k - 1].count(x) and k < len(plan) - 2:
                    for j in rng.sample(range(width), rng.choice([1, 2, width])):
                        v[j] = cur[n][j] // rng.choice([2, 7, 10 ** 6])       # restart from a lower value
                cur[n] = v
            elif n in cur:
                cur[n] = [c // rng.choice([3, 1000]) if rng.random() < 0.7 else c * 2 + 1 for c in cur[n]]
            else:
                cur[n] = [rng.choice([900, 10 ** 6, 2 ** 33, U64 // 2]) + j for j in range(width)]
            vals[n] = list(cur[n])
        prev = set(names)
        out.append(vals)
    return out


def _net_churn(rng):
    x, y, z = rng.sample(["eth0", "wan0", "lo", "eth1", "wlp3s0", "veth9", "br0", "tun0"], 3)
    plan = _churn_plan(rng, x, y, z)
    vals = _churn_values(rng, plan, x, 16)
    polls = [{"per": rng.random() < 0.6, "ifs": [{"name": n, "c": v[n]} for n in names]} for names, v in zip(plan, vals)]
    return {"kind": "nethist", "cls": "nethist-churn", "sp": True, "polls": polls}


def _disk_churn(rng):
    x, y, z = rng.sample(["sdb", "sdc", "sda", "nvme0n1", "loop0", "dm-0", "md127", "cciss/c0d0"], 3)
    plan = _churn_plan(rng, x, y, z)
    vals = _churn_values(rng, plan, x, 11)
    polls = []
    for names, v in zip(plan, vals):
        devs = [{"name": n, "lay": "f20", "whole": True, "major": 8, "minor": i, "f": v[n], "extra": [1, 2, 3, 4, 5, 6]}
                for i, n in enumerate(names)]
        polls.append({"per": rng.random() < 0.55, "devs": devs, "others": []})
    return {"kind": "diskhist", "cls": "diskhist-churn", "polls": polls}


def _disk_hist(rng):
    groups = rng.sample([("sda", ["sda1", "sda2"]), ("nvme0n1", ["nvme0n1p1"]), ("loop0", []), ("cciss/c0d0", ["cciss/c0d0p1"]),
                         ("dm-0", []), ("md127", []), ("rd/c0/d0", ["rd/c0/d0p1"])], rng.choice([1, 2, 3]))
    devs = []
    for w, parts in groups:
        devs.append((w, True, rng.choice(["f14", "f20"])))
        devs += [(p, False, rng.choice(["f14", "f20", "p7"])) for p in parts]
    mode = rng.choice(["steady", "steady", "steady", "emptypoll", "wrap"])
    npolls = rng.choice([3, 4, 5])
    empty_at = rng.randrange(1, npolls - 1) if mode == "emptypoll" else None
    cur, prev_present, polls = {}, set(), []
    for k in range(npolls):
        if k == empty_at:
            present = []
        else:
            present = [d for d in devs if rng.random() < 0.75] or [devs[0]]
        out = []
        for name, whole, lay in present:
            if name in prev_present:
                cur[name] = _bump(rng, cur[name])
                if mode == "wrap" and rng.random() < 0.4:
                    j = rng.randrange(8)
                    cur[name][j] //= 2
            elif name in cur and rng.random() < 0.6:
                cur[name] = [v // rng.choice([2, 5, 1000]) for v in cur[name]]
            elif name in cur:
                cur[name] = [v * 3 + 1 for v in cur[name]]
            else:
                cur[name] = [rng.choice([7, 5000, 2 ** 34]) + j for j in range(11)]
            d = {"name": name, "lay": lay, "whole": whole, "major": 8, "minor": len(out)}
            if lay == "p7":
                d["f"] = [cur[name][0], cur[name][2], cur[name][4], cur[name][6]]
            else:
                d["f"] = list(cur[name])
                d["extra"] = [1, 2, 3, 4, 5, 6][:int(lay[1:]) - 14]
            out.append(d)
        prev_present = {x[0] for x in present}
        polls.append({"per": rng.random() < 0.55, "devs": out, "others": []})
    return {"kind": "diskhist", "cls": "diskhist-" + mode, "polls": polls}


def gen_cases(rng, tier):
    N = {"quick": 1, "thorough": 14, "search": 2}[tier]
    cases = []
    add = cases.append

    # ---- large tables: files beyond the 32 KiB read buffer (sizes around 32 KiB / 64 KiB, a line ending exactly at the
    # boundary, a line straddling it, 450 ordinary lines, 131 lines of 64-bit-wide counters), generated inside Gallina
    big = _big_cases(tier) if tier != "search" else []
    # ---- live: the running kernel's own /proc/net/dev, /proc/diskstats, /sys/block/*/stat (validates the printers of Spec.v)
    if tier != "search":
        cases.extend(_live_cases())
    # ---- exhaustive small parts
    if tier != "search":
        for lay in LAYS:
            for whole in (True, False):
                d = _disk(rng, "sda" if whole else "sda1", lay, whole, "distinct")
                add({"kind": "disk", "cls": "disk-layout-" + lay, "devs": [d], "others": []})
        base = [1000 + k for k in range(16)]
        for col in range(16):
            c = list(base)
            c[col] = 777777
            add({"kind": "net", "cls": "net-column", "sp": True, "ifs": [{"name": "eth0", "c": c}]})
        for col in range(11):
            f = [2000 + k for k in range(11)]
            f[col] = 888888
            add({"kind": "disk", "cls": "disk-column", "others": [],
                 "devs": [{"name": "sda", "lay": "f20", "whole": True, "major": 8, "minor": 0, "f": f, "extra": [1, 2, 3, 4, 5, 6]}]})
        if tier == "thorough":
            for l1 in LAYS:
                for l2 in LAYS:
                    for w1, w2 in ((True, False), (True, True), (False, False)):
                        add({"kind": "disk", "cls": "disk-layout-pair", "others": [],
                             "devs": [_disk(rng, "sda", l1, w1, "distinct", 0), _disk(rng, "sda1", l2, w2, "distinct", 1)]})
    # ---- names: every pool name alone (ASCII, bytes, edge-blank), both formats
    if tier != "search":
        for nm in NIC_NAMES + NIC_BYTES + NIC_EDGE:
            cls = "net-name-edgeblank" if _edge_blank(nm) else "net-name"
            add({"kind": "net", "cls": cls, "sp": nm != "eth0:", "ifs": [{"name": nm, "c": [1000 + k for k in range(16)]}]})
        for nm in DISK_NAMES + DISK_BYTES:
            if _sysname(nm) in (".", ".."):
                continue
            add({"kind": "disk", "cls": "disk-name", "others": [],
                 "devs": [_disk(rng, nm, "f20", True, "distinct"), _disk(rng, "p" + nm, "f14", False, "distinct", 1)]})
        # one name per str blank, at the end of the name (finding class) and inside it (theorem class)
        for cp in sorted(_BLANKS - {10, 13, 32, 9, 11, 12, 160}):
            for nm in ("ab" + chr(cp), "a" + chr(cp) + "b"):
                add({"kind": "net", "cls": "net-name-edgeblank" if _edge_blank(nm) else "net-name-innerblank", "sp": True,
                     "ifs": [{"name": nm, "c": [7 + k for k in range(16)]}]})
        add({"kind": "uws", "cls": "text-isspace-table"})
    # ---- the text layer against CPython (decode, universal newlines, split, strip)
    frag = [b"a", b"1", b" ", b"\t", b"\n", b"\r", b"\r\n", b"\x0b", b"\x0c", b"\x1c", b"\x1d", b"\x1e", b"\x1f", b":", b"\x7f", b"\x00",
            b"\xc2\x85", b"\xc2\xa0", b"\xc2", b"\x85", b"\xa0", b"\xe1\x9a\x80", b"\xe2\x80\x83", b"\xe2\x80", b"\xe2\x80\xa8",
            b"\xe2\x80\xa9", b"\xe2\x80\xaf", b"\xe2\x81\x9f", b"\xe3\x80\x80", b"\xe1\xa0\x8e", b"\xe2\x80\x8b", b"\xef\xbb\xbf",
            b"\xed\xa0\x80", b"\xed\x9f\xbf", b"\xe0\x80\x80", b"\xe0\xa0\x80", b"\xf0\x90\x80\x80", b"\xf0\x8f\xbf\xbf",
            b"\xf4\x8f\xbf\xbf", b"\xf4\x90\x80\x80", b"\xf5", b"\xc0\x80", b"\xc1\xbf", b"\xdf\xbf", b"\xff", b"\xfe", b"\xf0\x9f\x98"]
    for _ in range(30 * N):
        if rng.random() < 0.7:
            b = b"".join(rng.choice(frag) for _ in range(rng.randint(0, 12)))
        else:
            b = bytes(rng.choice([rng.randrange(256), rng.choice([0x80, 0xbf, 0xc2, 0xe0, 0xed, 0xf0, 0xf4, 0x20, 0x0d])])
                      for _ in range(rng.randint(1, 10)))
        add({"kind": "dec", "cls": "text-layer" if b else "trivial", "content": b.hex()})
    # ---- /proc/net/dev
    for _ in range(45 * N):
        n = rng.choice([0, 1, 1, 2, 3, 5, 8, 12])
        mode = rng.choice(["rand", "rand", "distinct", "zeros"])
        r = rng.random()
        extra = NIC_BYTES if r < 0.35 else (NIC_BYTES + NIC_EDGE) if r < 0.45 else None
        ifs = [_nic(rng, nm, mode) for nm in _uniq(rng, NIC_NAMES, n, extra=extra)]
        sp = rng.random() < 0.8
        nonascii = any(any(ord(ch) > 126 or ord(ch) < 33 for ch in i["name"]) for i in ifs)
        edge = any(_edge_blank(i["name"]) for i in ifs)
        cls = "trivial" if n == 0 else "net-" + mode + ("" if sp else "-oldfmt") + ("-many" if n >= 5 else "") + (
            "-edgeblank" if edge else "-bytes" if nonascii else "")
        add({"kind": "net", "cls": cls, "sp": sp, "ifs": ifs})
    add({"kind": "net", "cls": "trivial", "sp": True, "ifs": []})
    for _ in range(35 * N):
        n = rng.choice([0, 1, 2, 3])
        ifs = [_nic(rng, nm, "rand") for nm in _uniq(rng, NIC_NAMES[:8], n)]
        text = _py_netdev(ifs, rng.random() < 0.8)
        lines = text.split("\n")
        k = rng.random()
        if k < 0.6 and n:
            j = 2 + rng.randrange(n)
            lines[j] = _mutate_line(rng, lines[j])
        elif k < 0.7:
            lines = lines[rng.choice([1, 2]):]           # short header
        elif k < 0.8 and n:
            lines.append(lines[2 + rng.randrange(n)])    # duplicated interface
        elif k < 0.9:
            lines.insert(rng.randrange(len(lines)), "")
        else:
            lines = lines[:-1] if rng.random() < 0.5 else lines   # no trailing newline / unchanged
            if lines and rng.random() < 0.5:
                lines[-1] = lines[-1].rstrip()
        add({"kind": "netraw", "cls": "net-malformed", "content": _enc("\n".join(lines)).hex()})
    # ---- /proc/diskstats
    for _ in range(60 * N):
        devs, others = _disk_file(rng, allow24=True)
        if not _fs_safe(devs):
            continue
        has24 = any(d["lay"] == "l24" for d in devs)
        nwhole = sum(1 for d in devs if d["whole"])
        cls = "trivial" if not devs else ("disk-l24" if has24 else "disk") + ("-nowhole" if nwhole == 0 else "") + (
            "-sysmismatch" if any(o in [_sysname(d["name"]) for d in devs] for o in others) else "") + ("-many" if len(devs) >= 6 else "")
        add({"kind": "disk", "cls": cls, "devs": devs, "others": others})
    add({"kind": "disk", "cls": "trivial", "devs": [], "others": []})
    # an existing diskstats that lists NO device while /sys/block is populated (container runtimes bind-mount an empty file):
    # the answer is the empty table / None, never the sysfs devices
    for others in (["sda"], ["vda", "nvme0n1"], ["loop0", "sdb", "zram0"]):
        add({"kind": "disk", "cls": "disk-empty-sysfs-populated", "devs": [], "others": others})
    for _ in range(35 * N):
        devs, others = _disk_file(rng, allow24=True, n=rng.choice([1, 2, 3]))
        if not _fs_safe(devs):
            continue
        lines = [_py_diskline(d) for d in devs]
        k = rng.random()
        if k < 0.7:
            j = rng.randrange(len(lines))
            lines[j] = _mutate_line(rng, lines[j])
        elif k < 0.8:
            lines.insert(rng.randrange(len(lines) + 1), rng.choice(["", "  ", "\t"]))
        elif k < 0.9:
            lines.append(lines[rng.randrange(len(lines))])
        text = "\n".join(lines) + ("\n" if rng.random() < 0.8 else "")
        listing = sorted({_sysname(d["name"]) for d in devs if d["whole"]} | set(others))
        add({"kind": "diskraw", "cls": "disk-malformed", "content": _enc(text).hex(), "listing": listing})
    # ---- /sys/block fallback
    for _ in range(40 * N):
        nd = rng.choice([0, 1, 1, 2, 3])
        names = _uniq(rng, [n for n in DISK_NAMES + DISK_BYTES if "/" not in n] + ["cciss!c0d1"], nd * 3, forbid="/")
        disks = []
        for i in range(nd):
            parts = [{"name": names[nd + 2 * i + j], "f": [_val(rng) for _ in range(11)], "extra": []}
                     for j in range(rng.choice([0, 0, 1, 2]))]
            ex = rng.choice([[], [], [1, 2, 3, 4], [1, 2, 3, 4, 5, 6]])
            disks.append({"name": names[i], "f": [_val(rng) for _ in range(11)], "extra": ex, "parts": parts})
        add({"kind": "sys", "cls": "sysfs" if nd else "trivial", "disks": disks})
    for _ in range(12 * N):
        content = rng.choice(["", "\n", "1 2 3\n", "1 2 3 4 5 6 7 8 9\n", "1 2 3 4 5 6 7 8 9 x\n", "1 2 3 4 5 6 7 8 9 10\n",
                              "  1 2 3 4 5 6 7 8 9 10 x y z", "1 2 3 4 x 6 7 8 9 10 11\n", "1\t2\n3 4 5 6 7 8 9 10 11 12\n"])
        add({"kind": "sysraw", "cls": "sysfs-malformed", "ents": [["sda", _enc(content).hex()]], "listing": ["sda"]})
    add({"kind": "nosource", "cls": "nosource"})
    # ---- successive polls with the default arguments (nowrap=True)
    for _ in range(10 * N):
        add(_net_churn(rng))
        add(_disk_churn(rng))
    for _ in range(16 * N):
        add(_net_hist(rng))
    for _ in range(12 * N):
        add(_disk_hist(rng))
    # ---- disk_usage
    for _ in range(55 * N):
        fr = rng.choice([1, 512, 1024, 4096, 4096, 65536, 2 ** 20])
        k = rng.random()
        if k < 0.1:
            blocks = bfree = bavail = 0
        elif k < 0.2:
            blocks = rng.choice([1, 1000, 2 ** 32, U64])
            bfree = bavail = blocks
        elif k < 0.3:
            blocks = rng.choice([1, 1000, 2 ** 32, U64])
            bfree = rng.randint(0, blocks)
            bavail = 0
        else:
            blocks = rng.choice([rng.randint(1, 10 ** 4), rng.randint(1, 2 ** 40), U64])
            bfree = rng.randint(0, blocks)
            bavail = rng.randint(0, bfree) if rng.random() < 0.9 else bfree
        # f_bsize is an independent field: equal / larger / smaller / huge / 0
        rel = rng.choice(["eq", "gt", "gt", "lt", "lt", "huge", "zero"])
        bs = {"eq": fr, "gt": fr * rng.choice([2, 16, 256, 1024]), "lt": max(1, fr // rng.choice([2, 8, 512])) if fr > 1 else 0,
              "huge": rng.choice([2 ** 31, 2 ** 40, U64]), "zero": 0}[rel]
        if bs == fr:
            rel = "eq"
        add({"kind": "usage", "cls": ("usage-bsize-" + rel) if blocks else "trivial", "bsize": bs, "frsize": fr, "blocks": blocks,
             "bfree": bfree, "bavail": bavail})
    # every relation between f_bsize and f_frsize on one fixed file system (deterministic, all tiers)
    for bs, fr in ((4096, 4096), (1048576, 4096), (512, 4096), (1, 4096), (0, 4096), (U64, 4096), (4096, 1), (4096, 1048576),
                   (1, 2 ** 40), (2 ** 40, 1), (65536, 512), (1024, 65536)):
        rel = "eq" if bs == fr else "zero" if bs == 0 else "gt" if bs > fr else "lt"
        add({"kind": "usage", "cls": "usage-bsize-" + rel, "bsize": bs, "frsize": fr, "blocks": 1000, "bfree": 200, "bavail": 100})
    for blocks, bfree, bavail in ((1000, 995, 0), (2000, 1999, 0), (8, 7, 0), (40, 39, 0), (1000, 0, 0), (3, 2, 1), (3, 1, 1), (7, 3, 2)):
        add({"kind": "usage", "cls": "usage-tie", "bsize": rng.choice([4096, 1048576, 512]), "frsize": 4096, "blocks": blocks,
             "bfree": bfree, "bavail": bavail})
    # the large tables are expensive to evaluate in coqc: spread them, one per shard of cases
    step = max(1, len(cases) // max(1, len(big)))
    for j, b in enumerate(big):
        cases.insert(min(len(cases), j * (step + 1)), b)
    return cases


# ------------------------------------------------------------------ Coq terms
def _zs(l):
    return "[" + ";".join(str(int(x)) for x in l) + "]"


def _kdisk(d):
    head = "%d %d %s %s" % (d["major"], d["minor"], G.by(d["name"]), G.bo(d["whole"]))
    if d["lay"] == "l24":
        return "(mk_l24 %s %d %s)" % (head, d["blocks"], _zs(d["f"]))
    if d["lay"] == "p7":
        return "(mk_part %s %d %d %d %d)" % ((head,) + tuple(d["f"]))
    return "(mk_full %s %s %s)" % (head, _zs(d["f"]), _zs(d["extra"]))


def _sys_flat(case):
    out = []
    for d in case["disks"]:
        out.append((d["name"], True, d["f"], d["extra"]))
        for p in d["parts"]:
            out.append((p["name"], False, p["f"], p["extra"]))
    return out


def coq_term(case):
    k = case["kind"]
    if k == "net":
        return "run_net %s %s %s" % (G.bo(LEGACY_STRIP), G.bo(case["sp"]), G.lst(["(mk_nic %s %s)" % (G.by(i["name"]), _zs(i["c"])) for i in case["ifs"]]))
    if k == "netraw":
        return "run_net_raw %s %s" % (G.bo(LEGACY_STRIP), G.by(bytes.fromhex(case["content"])))
    if k == "disk":
        return "run_disk %s %s" % (G.lst([_kdisk(d) for d in case["devs"]]), G.lst([G.by(o) for o in case["others"]]))
    if k == "diskraw":
        return "run_disk_raw %s %s" % (G.by(bytes.fromhex(case["content"])), G.lst([G.by(o) for o in case["listing"]]))
    if k == "sys":
        return "run_sys %s" % G.lst(["(mk_sys %s %s %s %s)" % (G.by(n), G.bo(w), _zs(f), _zs(e)) for n, w, f, e in _sys_flat(case)])
    if k == "sysraw":
        return "run_sys_raw %s %s" % (G.lst(["(%s, %s)" % (G.by(n), G.by(bytes.fromhex(c))) for n, c in case["ents"]]),
                                      G.lst([G.by(o) for o in case["listing"]]))
    if k == "nosource":
        return "run_nosource"
    if k == "diskbig":
        return "run_disk_big %d%%nat %s %s" % (case["n"], G.bo(case["wide"]),
                                              G.lst(["(%d, %d%%nat)" % (a, b) for a, b in case["pads"]]))
    if k == "netbig":
        return "run_net_big %s %s %d%%nat %s %s" % (G.bo(LEGACY_STRIP), G.bo(case["sp"]), case["n"], G.bo(case["wide"]),
                                                   G.lst(["(%d, %d%%nat)" % (a, b) for a, b in case["pads"]]))
    if k == "sysbig":
        return "run_sys_big %d%%nat" % case["n"]
    if k == "nethist":
        return "run_net_hist %s %s %s" % (G.bo(LEGACY_STRIP), G.bo(case["sp"]), G.lst(
            ["(%s, %s)" % (G.bo(p["per"]), G.lst(["(mk_nic %s %s)" % (G.by(i["name"]), _zs(i["c"])) for i in p["ifs"]]))
             for p in case["polls"]]))
    if k == "diskhist":
        return "run_disk_hist %s" % G.lst(
            ["(%s, (%s, %s))" % (G.bo(p["per"]), G.lst([_kdisk(d) for d in p["devs"]]), G.lst([G.by(o) for o in p["others"]]))
             for p in case["polls"]])
    if k == "dec":
        return "run_dec %s" % G.by(bytes.fromhex(case["content"]))
    if k == "uws":
        return "run_uws_table"
    if k == "usage":
        return "run_usage %d %d %d %d %d" % (case.get("bsize", case["frsize"]), case["frsize"], case["blocks"], case["bfree"],
                                               case["bavail"])
    raise ValueError(k)


def _sort_dict(v):
    """sort the items of a Val(Dict ...) by key (walk order of a directory tree is not fixed)"""
    if isinstance(v, dict) and v.get("t") == "Val" and isinstance(v["a"][0], dict) and v["a"][0].get("t") == "Dict":
        return T("Val", T("Dict", sorted(v["a"][0]["a"][0], key=lambda kv: kv[0])))
    return v


def coq_struct(case, raw):
    k = case["kind"]
    if case.get("live"):
        _check_live(case, raw[0])
    if k == "net":
        spec = None if raw[3] is None else [raw[3], raw[4]]
        return {"printed": raw[0], "model": [raw[1], raw[2]], "spec": spec, "in_domain": raw[5], "dev_valid": raw[6]}
    if k in ("dec", "uws"):
        return {"model": raw, "spec": None}
    if k in ("diskbig", "netbig", "sysbig"):
        # the file is rebuilt here with the Python printer and must have the length and checksum of the bytes the
        # Coq kernel printer produced (fail closed: a drifting mirror is a harness error, never a verdict)
        mine = _big_file(case)
        if [len(mine), _cksum(mine)] != raw[0] or (k != "sysbig" and len(mine) != case["size"]):
            raise RuntimeError("C09: big-table mirror mismatch for %s: python (%d, %d) coq %r" % (case["cls"], len(mine), _cksum(mine), raw[0]))
        o = 1 if k == "diskbig" else 0
        model = [raw[1 + o], raw[2 + o]]
        spec = [raw[3 + o], raw[4 + o]]
        spec = None if spec[0] is None else [m if (isinstance(sp, dict) and sp.get("t") == "Same") else sp for sp, m in zip(spec, model)]
        if k == "sysbig":
            model = [_sort_dict(model[0]), model[1]]
            spec = None if spec is None else [_sort_dict(spec[0]), spec[1]]
        d = {"model": model, "spec": spec}
        if k == "diskbig":
            d["listing"] = raw[1]
        return d
    if k == "nethist":
        return {"printed": raw[0], "model": raw[1], "spec": raw[2], "cached": raw[3]}
    if k == "diskhist":
        return {"printed": raw[0], "listing": raw[1], "model": raw[2], "spec": raw[3], "cached": raw[4]}
    if k in ("netraw", "diskraw", "nosource"):
        return {"model": raw, "spec": None}
    if k == "disk":
        spec = None if raw[4] is None else [raw[4], raw[5]]
        return {"printed": raw[0], "listing": raw[1], "model": [raw[2], raw[3]], "spec": spec, "no_l24": raw[6], "agrees": raw[7]}
    if k == "sys":
        spec = None if raw[3] is None else [_sort_dict(raw[3]), raw[4]]
        return {"printed": raw[0], "model": [_sort_dict(raw[1]), raw[2]], "spec": spec}
    if k == "sysraw":
        return {"model": [_sort_dict(raw[0]), raw[1]], "spec": None}
    if k == "usage":
        return {"model": raw[0], "spec": raw[1]}
    raise ValueError(k)


def finding_key(case, coq):
    # known finding: a 15-field (Linux 2.4) diskstats line is read one column off
    if case["kind"] == "disk" and any(d["lay"] == "l24" for d in case["devs"]):
        return "diskstats-2.4-layout"
    # (the class "interface name beginning/ending with a str blank" was a finding; fixed by e02f4b0, no longer exempt)
    return None


def _is_oom(x):
    return isinstance(x, dict) and x.get("t") == "OutOfModel"


def _pct_ok(impl_pct, exact):
    """impl_pct: repr of a float; exact: None (0.0 expected) or [num, den]"""
    f = float(impl_pct)
    if exact is None:
        return f == 0.0
    q = Fraction(exact[0], exact[1]) * 10
    lo = q.numerator // q.denominator
    frac = q - lo
    eps = Fraction(1, 10 ** 6)
    cands = []
    if frac <= Fraction(1, 2) + eps:
        cands.append(lo)
    if frac >= Fraction(1, 2) - eps:
        cands.append(lo + 1)
    if abs(lo) > 2 ** 50:
        return abs(Fraction(f) * 10 - q) <= abs(q) * Fraction(1, 2 ** 45)
    return any(f == c / 10.0 for c in cands)


def _usage_eq(impl, ref):
    """both: [[B(field name), value] x 4]; the percent value is {"f": repr} on the implementation side, [n, d] / None in Coq"""
    return (isinstance(impl, list) and len(impl) == 4 and len(ref) == 4 and impl[:3] == ref[:3]
            and impl[3][0] == ref[3][0] and isinstance(impl[3][1], dict) and "f" in impl[3][1]
            and _pct_ok(impl[3][1]["f"], ref[3][1]))


def judge(case, coq, impl):
    from pv.core import Verdict, default_judge
    k = case["kind"]
    if k == "usage":
        if not _usage_eq(impl, coq["spec"]):
            return Verdict("violation", "disk_usage differs from total/used/free/percent of the property: %r" % (impl,))
        if not _usage_eq(impl, coq["model"]):
            return Verdict("corr", "disk_usage differs from the model")
        return Verdict("ok")
    model = coq.get("model")
    if isinstance(model, list) and any(_is_oom(m) for m in model) and coq.get("spec") is None:
        return Verdict("skip", "OutOfModel")
    if isinstance(impl, dict) and impl.get("t") == "UnexpectedAccess":
        # the answer itself is judged as usual; an access outside the documented data path is a correspondence difference
        v = default_judge(None, case, coq, impl["a"][1])
        if v.kind == "violation":
            return Verdict("violation", v.detail + "; and unexpected accesses %r" % (impl["a"][0][:4],))
        return Verdict("corr", "disk_io_counters() touched files outside its documented data path: %r" % (impl["a"][0][:6],))
    return default_judge(None, case, coq, impl)


# ------------------------------------------------------------------ implementation side
_st = {}


def gen_tables(impl_dir, out_dir):
    from props import _c09_tables
    return _c09_tables.gen_tables(impl_dir, out_dir)


def impl_setup(env):
    """Before psutil is imported: every /sys access goes to a private fake tree."""
    from pv.shim import Shim
    sysroot = os.path.join(env["work"], "sys")
    os.makedirs(sysroot, exist_ok=True)
    sh = Shim({"/sys": sysroot})
    sh.install()
    _st["shim"] = sh
    _st["sys"] = sysroot


def _nt(x):
    d = x._asdict()
    assert list(d.values()) == list(x)
    return [[B(k), v] for k, v in d.items()]


def _front(r):
    if r is None:
        return None
    if isinstance(r, dict):
        return T("Dict", [[[ord(ch) for ch in k], _nt(v)] for k, v in r.items()])
    return T("Tuple", _nt(r))


def _front_c(r):
    """compact form for the large tables: values only"""
    if r is None:
        return None
    if isinstance(r, dict):
        return T("Dict", [[[ord(ch) for ch in k], list(v)] for k, v in r.items()])
    return T("Tuple", list(r))


def _both(fn, clear, sort=False, conv=None):
    """[per-device, system-wide], each nowrap=False and cross-checked against nowrap=True on a cleared cache."""
    out = []
    _front = conv or globals()["_front"]
    _log_reset()
    for per in (True, False):
        a = outcome(lambda: fn(per, False), _front)
        clear()
        b = outcome(lambda: fn(per, True), _front)
        clear()
        if a != b:
            a = T("NowrapDiffers", a, b)
        elif sort and per:
            a = _sort_dict(a)
        out.append(a)
    _log_take()
    return out


def _reset_tree(env):
    import psutil
    from pv import fakeproc
    root = os.path.join(env["work"], "proc")
    shutil.rmtree(root, ignore_errors=True)
    os.makedirs(os.path.join(root, "net"))
    shutil.rmtree(_st["sys"], ignore_errors=True)
    os.makedirs(_st["sys"])
    fakeproc.attach(psutil, root)
    return root


QUEUE_FILES = ("hw_sector_size", "logical_block_size", "physical_block_size", "minimum_io_size", "optimal_io_size")
QUEUE_VARIANTS = [None, b"512\n", b"4096\n", b"2048\n", b"1024\n", b"0\n", b"4k\n", b"", b"4096\n"]


def _mk_queue(dirpath, name):
    """/sys/block/<disk>/queue/{hw_sector_size,...}: the device's own sector size (4Kn drives say 4096).  The sector counts of
    diskstats / stat are in 512-byte units whatever these say, so they must not influence any result -- nor be opened.
    The variant is a fixed function of the name: no queue directory, 512, 4096, 2048, 1024, 0, garbage, empty files."""
    import zlib
    v = QUEUE_VARIANTS[zlib.crc32(bytes(name)) % len(QUEUE_VARIANTS)]
    q = os.path.join(dirpath, b"queue")
    if v is None:
        return
    os.makedirs(q, exist_ok=True)
    for i, fn in enumerate(QUEUE_FILES):
        with open(os.path.join(q, fn.encode()), "wb") as f:
            f.write(v if i != 3 or v in (b"", b"4k\n") else b"%d\n" % (int(v) * 2 if v.strip().isdigit() else 0))
    # the class view of the same device
    cls = os.path.join(os.fsencode(_st["sys"]), b"class", b"block")
    os.makedirs(cls, exist_ok=True)
    try:
        os.symlink(os.path.join(b"..", b"..", b"block", bytes(name)), os.path.join(cls, bytes(name)))
    except OSError:
        pass


def _mk_block(listing):
    blk = os.path.join(_st["sys"], "block")
    os.makedirs(blk, exist_ok=True)
    for name in listing:
        dd = os.path.join(os.fsencode(blk), name)
        os.makedirs(dd, exist_ok=True)
        _mk_queue(dd, name)
        # decoy /sys/block/<disk>/stat: while {procfs}/diskstats exists (even empty) it is the only source, so this file must
        # neither be opened (see _unexpected_accesses) nor show up in any answer
        st = os.path.join(dd, b"stat")
        if not os.path.exists(st):
            with open(st, "wb") as f:
                f.write(b" 7001 7002 7003 7004 7005 7006 7007 7008 0 7010 7011 0 0 0 0 0 0\n")
    return blk


def _log_reset():
    _st["shim"].reset()


def _log_take():
    _st.setdefault("log", []).extend(_st["shim"].log)
    _st["shim"].reset()


def _unexpected_accesses(env):
    """accesses made during the psutil calls of this case that the documented data path does not include: anything but
    {procfs}/diskstats (open, exists), /sys/block (exists, listdir), os.access("/sys/block/<name>") and -- only when there is
    no diskstats file -- the walk of /sys/block and the opening of .../stat files"""
    procroot = os.path.join(env["work"], "proc")
    ds = os.path.join(procroot, "diskstats")
    sysfs_mode = not os.path.exists(ds)
    bad = set()
    for kind, path in _st.get("log", []):
        if path == ds:
            ok = kind in ("open", "stat")
        elif path == "/sys/block":
            ok = kind in ("stat", "listdir", "scandir", "access")
        elif path.startswith("/sys/block/"):
            rel = path[len("/sys/block/"):]
            if kind == "access" and "/" not in rel:
                ok = True
            elif sysfs_mode:
                ok = kind in ("scandir", "stat", "lstat") or (kind == "open" and os.path.basename(rel) == "stat")
            else:
                ok = False
        elif path == "/sys" or path.startswith("/sys/") or path.startswith(procroot + "/"):
            ok = False
        else:
            continue
        if not ok:
            bad.add((kind, path.replace(procroot, "{procfs}")))
    return sorted(bad)


def _live_real(case, coq, psutil, res, env):
    """Besides the snapshot run: ask psutil about the REAL /proc.  Counters move, so what must hold is: every device of the
    snapshot that still exists is reported under the same name with no field below the snapshot's documented value."""
    spec = coq.get("spec")
    if spec is None or case["kind"] not in ("net", "disk"):
        return res
    want = {tuple(k): [v for _, v in nt] for k, nt in spec[0]["a"][0]["a"][0]}
    psutil.PROCFS_PATH = "/proc"
    try:
        if case["kind"] == "net":
            real = psutil.net_io_counters(pernic=True, nowrap=False)
        else:
            real = psutil.disk_io_counters(perdisk=True, nowrap=False)
    finally:
        psutil.PROCFS_PATH = os.path.join(env["work"], "proc")
    got = {tuple(ord(ch) for ch in k): list(v) for k, v in real.items()}
    common = [k for k in want if k in got]
    if not common or (case["kind"] == "disk" and set(want) != set(got)):
        return T("LiveRealMismatch", "names", sorted(want), sorted(got))
    for k in common:
        if len(got[k]) != len(want[k]) or any(g < w for g, w in zip(got[k], want[k])):
            return T("LiveRealMismatch", list(k), want[k], got[k])
    return res


DISK_KINDS = ("disk", "diskraw", "sys", "sysraw", "nosource", "diskbig", "sysbig", "diskhist")


def impl_run(case, coq, env):
    _st["log"] = []
    r = _impl_run(case, coq, env)
    if case["kind"] in DISK_KINDS:
        bad = _unexpected_accesses(env)
        if bad:
            r = T("UnexpectedAccess", [list(x) for x in bad], r)
    if case.get("live"):
        import psutil
        r = _live_real(case, coq, psutil, r, env)
    return r


def _impl_run(case, coq, env):
    import psutil
    k = case["kind"]
    if k in ("dec", "uws"):
        return _text_run(case, env)
    if k == "usage":
        import types
        st = types.SimpleNamespace(f_frsize=case["frsize"], f_blocks=case["blocks"], f_bfree=case["bfree"], f_bavail=case["bavail"],
                                   f_bsize=case.get("bsize", case["frsize"]), f_files=0, f_ffree=0, f_favail=0, f_flag=0, f_namemax=255)
        real = os.statvfs
        os.statvfs = lambda path: st
        try:
            u = psutil.disk_usage("/some/mount point")
        finally:
            os.statvfs = real
        assert tuple(u) == tuple(u._asdict().values())
        return [[B(k), ({"f": repr(float(v))} if isinstance(v, float) else v)] for k, v in u._asdict().items()]
    root = _reset_tree(env)
    net = lambda per, nw: psutil.net_io_counters(pernic=per, nowrap=nw)        # noqa: E731
    disk = lambda per, nw: psutil.disk_io_counters(perdisk=per, nowrap=nw)     # noqa: E731
    if k == "netbig":
        with open(os.path.join(root, "net", "dev"), "wb") as f:
            f.write(_big_net_text(case))
        return _both(net, psutil.net_io_counters.cache_clear, conv=_front_c)
    if k == "diskbig":
        with open(os.path.join(root, "diskstats"), "wb") as f:
            f.write(_big_disk_text(case))
        _mk_block([unB(x) for x in coq["listing"]])
        return _both(disk, psutil.disk_io_counters.cache_clear, conv=_front_c)
    if k == "sysbig":
        blk = _mk_block([])
        for name, content in _big_sys_ents(case):
            dd = os.path.join(os.fsencode(blk), name)
            os.makedirs(dd)
            _mk_queue(dd, name)
            with open(os.path.join(dd, b"stat"), "wb") as f:
                f.write(content)
        return _both(disk, psutil.disk_io_counters.cache_clear, sort=True, conv=_front_c)
    if k in ("net", "netraw"):
        content = unB(coq["printed"]) if k == "net" else bytes.fromhex(case["content"])
        with open(os.path.join(root, "net", "dev"), "wb") as f:
            f.write(content)
        return _both(net, psutil.net_io_counters.cache_clear)
    if k in ("disk", "diskraw"):
        content = unB(coq["printed"]) if k == "disk" else bytes.fromhex(case["content"])
        with open(os.path.join(root, "diskstats"), "wb") as f:
            f.write(content)
        listing = [unB(x) for x in coq["listing"]] if k == "disk" else [os.fsencode(x) for x in case["listing"]]
        _mk_block(listing)
        return _both(disk, psutil.disk_io_counters.cache_clear)
    if k == "sys":
        blk = _mk_block([])
        i = 0
        for d in case["disks"]:
            dd = os.path.join(blk, d["name"])
            os.makedirs(os.path.join(dd, "queue"))          # a sub directory without a stat file ...
            _mk_queue(os.fsencode(dd), os.fsencode(d["name"]))   # ... holding the device's own sector size
            with open(os.path.join(dd, "stat"), "wb") as f:
                f.write(unB(coq["printed"][i]))
            i += 1
            for p in d["parts"]:
                os.makedirs(os.path.join(dd, p["name"]))
                with open(os.path.join(dd, p["name"], "stat"), "wb") as f:
                    f.write(unB(coq["printed"][i]))
                i += 1
        return _both(disk, psutil.disk_io_counters.cache_clear, sort=True)
    if k == "sysraw":
        blk = _mk_block([os.fsencode(x) for x in case["listing"]])
        for name, content in case["ents"]:
            os.makedirs(os.path.join(blk, name), exist_ok=True)
            with open(os.path.join(blk, name, "stat"), "wb") as f:
                f.write(bytes.fromhex(content))
        return _both(disk, psutil.disk_io_counters.cache_clear, sort=True)
    if k == "nosource":
        return _both(disk, psutil.disk_io_counters.cache_clear)
    if k == "nethist":
        psutil.net_io_counters.cache_clear()
        out = []
        try:
            for i, p in enumerate(case["polls"]):
                with open(os.path.join(root, "net", "dev"), "wb") as f:
                    f.write(unB(coq["printed"][i]))
                out.append(outcome(lambda: psutil.net_io_counters(pernic=p["per"]), _front))      # default nowrap
        finally:
            psutil.net_io_counters.cache_clear()
        return out
    if k == "diskhist":
        psutil.disk_io_counters.cache_clear()
        out = []
        try:
            for i, p in enumerate(case["polls"]):
                with open(os.path.join(root, "diskstats"), "wb") as f:
                    f.write(unB(coq["printed"][i]))
                shutil.rmtree(os.path.join(_st["sys"], "block"), ignore_errors=True)
                _mk_block([unB(x) for x in coq["listing"][i]])
                _log_reset()
                out.append(outcome(lambda: psutil.disk_io_counters(perdisk=p["per"]), _front))   # default nowrap
                _log_take()
        finally:
            psutil.disk_io_counters.cache_clear()
        return out
    raise ValueError(k)


def _text_run(case, env):
    """CPython's own text layer: the decoding and the str methods psutil relies on"""
    import io
    k = case["kind"]
    cps = lambda s: [ord(ch) for ch in s]    # noqa: E731
    if k == "uws":
        return [c for c in range(0x110000) if chr(c).isspace()]
    b = bytes.fromhex(case["content"])
    s = b.decode("utf-8", "surrogateescape")
    path = os.path.join(env["work"], "textfile")
    with open(path, "wb") as f:
        f.write(b)
    from psutil._common import open_text
    with open_text(path) as f:
        read = f.read()
    with open_text(path) as f:
        assert "".join(f.readlines()) == read
    return [cps(s), cps(read), [cps(t) for t in s.split()], cps(s.strip())]


MANIFEST = {
    "text": "Theorems (Coq 8.16, 30, closed under the global context) over a hand-written Gallina transcription of the anchored code, "
            "text-mode reading included (UTF-8/surrogateescape decoding, universal newlines, str.split/strip blanks): for every list of "
            "interfaces whose names are any bytes not beginning/ending with a space and without line breaks -- proved to include every "
            "name dev_valid_name() accepts -- and every 16 digit strings per interface (no bound on magnitude or count), parsing the "
            "kernel-printed /proc/net/dev (modern and old column format) yields per interface, keyed by the str of its name, exactly "
            "the eight documented fields from kernel columns 9,1,10,2,3,11,4,12, and the system-wide answer is their field-wise sum, "
            "None/{} for an empty list; the named-tuple field tables and the sector size are dumped from the code on every run "
            "(coq/Gen/C09_Tables.v) and proved equal to the documented ones, so a reordered namedtuple breaks a proof; for every "
            "/proc/diskstats of 14-, 18-, 20- (any >=18-) and 7-field lines the per-disk answer holds the nine documented fields with "
            "sectors x 512 for every listed device and, for EVERY /sys/block content, the system-wide answer is the sum over exactly the "
            "devices whose name (every '/' written '!') is a /sys/block entry, None when there is none; under the kernel-shaped "
            "hypothesis (every other device is a partition of such an entry, whose counter includes it) every summable field of the "
            "total equals the sum over all device nodes of what was submitted to each: nothing counted twice; the 15-field (Linux "
            "2.4) layout is read one column off (refuted theorem with the kernel documentation's example line; known finding) and "
            "the model's shifted reading is characterised exactly; the legacy name.strip() variant is refuted (fixed finding e02f4b0); "
            "successive calls with the default nowrap=True (_WrapNumbers modelled) report, for every history in which no counter "
            "decreases between consecutive polls while its device is listed, exactly each poll's kernel counters -- devices may vanish, "
            "polls may be empty, devices may come back lower, pernic/perdisk may alternate; for EVERY history (restarts included) "
            "each poll equals the kernel counters plus the offsets of restarts seen while the device stayed listed, and one call of the "
            "wrap bookkeeping leaves no offset for any name absent from the new dict whatever the sizes of the old and new sets; "
            "for any number of lines (no bound, hence no bound on the file size) the file has one line per device and the per-device "
            "answer one entry per line in file order (exercised on generated tables beyond the 32 KiB read buffer and beyond 64 KiB); "
            "the per-device answer does not depend on sysfs at all and is a function of the device's own line with bytes = 512 x sectors, "
            "the total depends on sysfs only through which names are /sys/block entries (fake trees carry queue/hw_sector_size etc. "
            "saying 4096/2048/1024/0/garbage and every file access of disk_io_counters() is judged); "
            "the /sys/block fallback; disk_usage equals total/used/free/percent of the property for every statvfs tuple with f_frsize "
            "as the unit and f_bsize never entering the result, within 0..100 for kernel-shaped tuples. The model is tied to the "
            "real psutil on every run by executing both on kernel-printed and malformed files over a fake /proc and /sys and comparing "
            "named-tuple field names, order and values; the Coq text layer is compared with CPython's.",
    "note": "Trusted: Coq kernel + vm_compute; model coq/C09/Model.v + Text.v (tied by the correspondence run only); kernel formats in "
            "coq/C09/Spec.v; table translator props/_c09_tables.py; harness (fake /proc, pv.shim /sys redirection, os.statvfs patch); "
            "CPython builtins. Proof covers the model, sampling covers model-vs-code.",
}
