"""C17 translator: facts of the C sources that thread-safety depends on, dumped as Gallina tables.
 * every region between Py_BEGIN_ALLOW_THREADS and Py_END_ALLOW_THREADS (code that runs WITHOUT the GIL) with the
   functions called inside it;
 * every variable with static storage duration that the extension can modify (file- or function-level 'static'
   that is not const, and non-extern globals): state that survives a call and is shared by all threads;
 * every call of a printf-family function or of a printf-like macro (a macro that hands __VA_ARGS__ / a parameter on as the
   FORMAT of such a function, found by fixpoint: psutil_debug) in the .c AND .h files, with the kind of its FORMAT
   argument: 0 = string literal(s), 1 = the macro parameter handed on inside the body of a printf-like macro, 2 = anything
   else (a variable, a call, a caller-controlled string)."""
import glob
import os
import re

C_FILES = ["psutil/_psutil_linux.c", "psutil/_psutil_posix.c", "psutil/_psutil_common.c", "psutil/arch/linux/*.c"]
H_FILES = ["psutil/_psutil_common.h", "psutil/_psutil_posix.h", "psutil/arch/linux/*.h"]
# printf family: name -> index of the FORMAT argument
PRINTF = {"printf": 0, "fprintf": 1, "dprintf": 1, "sprintf": 1, "snprintf": 2, "asprintf": 1, "vprintf": 0, "vfprintf": 1, "vdprintf": 1,
          "vsprintf": 1, "vsnprintf": 2, "vasprintf": 1, "syslog": 1, "vsyslog": 1, "errx": 1, "warnx": 0,
          "PyErr_Format": 1, "PyErr_FormatV": 1, "PyUnicode_FromFormat": 0, "PyUnicode_FromFormatV": 0, "PyBytes_FromFormat": 0,
          "PyBytes_FromFormatV": 0, "PyOS_snprintf": 2, "PyOS_vsnprintf": 2, "PyErr_WarnFormat": 2, "PySys_WriteStdout": 0,
          "PySys_WriteStderr": 0, "PySys_FormatStdout": 0, "PySys_FormatStderr": 0}
KEYWORDS = {"if", "while", "for", "switch", "return", "sizeof", "defined", "do", "else"}


class TranslateError(Exception):
    pass


def strip_comments(src):
    """comments and string / char literals replaced by blanks of the same length (newlines kept)"""
    out = []
    i, n = 0, len(src)
    while i < n:
        c = src[i]
        if src.startswith("//", i):
            j = src.find("\n", i)
            j = n if j < 0 else j
            out.append(" " * (j - i))
            i = j
        elif src.startswith("/*", i):
            j = src.find("*/", i + 2)
            j = n if j < 0 else j + 2
            out.append("".join(ch if ch == "\n" else " " for ch in src[i:j]))
            i = j
        elif c in "\"'":
            j = i + 1
            while j < n and src[j] != c:
                j += 2 if src[j] == "\\" else 1
            out.append(c + " " * (j - i - 1) + c)
            i = j + 1
        else:
            out.append(c)
            i += 1
    return "".join(out)


def active_text(src):
    """drop the branches of #if blocks that are not compiled on Linux (PSUTIL_LINUX defined, others not) --
    only the simple forms used in these files; anything else is kept (conservative: more code scanned)"""
    lines = src.split("\n")
    out = []
    stack = []   # each: [keep_now, seen_true, known]
    other = ("PSUTIL_BSD", "PSUTIL_OSX", "PSUTIL_FREEBSD", "PSUTIL_OPENBSD", "PSUTIL_NETBSD", "PSUTIL_SUNOS", "PSUTIL_SUNOS10",
             "PSUTIL_AIX", "PSUTIL_WINDOWS", "PYPY_VERSION")

    def ev(expr):
        e = expr.strip()
        m = re.fullmatch(r"defined\s*\(?\s*(\w+)\s*\)?", e)
        if m:
            return True if m.group(1) == "PSUTIL_LINUX" else (False if m.group(1) in other else None)
        if e in other:
            return False
        parts = [p.strip() for p in e.split("||")]
        if len(parts) > 1:
            vals = [ev(p) for p in parts]
            if any(v is True for v in vals):
                return True
            if all(v is False for v in vals):
                return False
        return None
    for ln in lines:
        s = ln.strip()
        m = re.match(r"#\s*(ifdef|ifndef|if|elif|else|endif)\b(.*)", s)
        keep = all(f[0] for f in stack)
        if m:
            d, rest = m.group(1), m.group(2)
            if d in ("ifdef", "ifndef", "if"):
                v = ev(("defined(%s)" % rest.strip()) if d != "if" else rest)
                if d == "ifndef" and v is not None:
                    v = not v
                stack.append([v is not False, v is True, v is not None])
            elif d == "elif" and stack:
                f = stack[-1]
                v = ev(rest)
                if f[2] and f[1]:
                    f[0] = False
                else:
                    f[0] = v is not False
                    f[1] = f[1] or v is True
                    f[2] = f[2] and v is not None
            elif d == "else" and stack:
                f = stack[-1]
                f[0] = not f[1] if f[2] else True
            elif d == "endif" and stack:
                stack.pop()
            out.append("")
            continue
        out.append(ln if keep else "")
    return "\n".join(out)


def scan(root):
    files = []
    for pat in C_FILES:
        files += sorted(glob.glob(os.path.join(root, pat)))
    if len(files) < 8:
        raise TranslateError("C sources not found under %s (%d files)" % (root, len(files)))
    regions, statics, calls_static = [], [], []
    for path in files:
        rel = os.path.relpath(path, root)
        src = active_text(strip_comments(open(path, encoding="utf-8", errors="replace").read()))
        nb, ne = src.count("Py_BEGIN_ALLOW_THREADS"), src.count("Py_END_ALLOW_THREADS")
        if nb != ne:
            raise TranslateError("%s: %d Py_BEGIN_ALLOW_THREADS vs %d Py_END_ALLOW_THREADS" % (rel, nb, ne))
        pos = 0
        while True:
            a = src.find("Py_BEGIN_ALLOW_THREADS", pos)
            if a < 0:
                break
            b = src.find("Py_END_ALLOW_THREADS", a)
            inner = src[a + len("Py_BEGIN_ALLOW_THREADS"):b]
            if "Py_BEGIN_ALLOW_THREADS" in inner:
                raise TranslateError("%s: nested Py_BEGIN_ALLOW_THREADS" % rel)
            called = [m.group(1) for m in re.finditer(r"\b([A-Za-z_]\w*)\s*\(", inner) if m.group(1) not in KEYWORDS]
            regions.append((rel, src.count("\n", 0, a) + 1, called))
            pos = b + 1
        # variables with static storage duration that are not const: at brace depth 0 every declaration, deeper only 'static'
        depth = 0
        for lineno, ln in enumerate(src.split("\n"), 1):
            s = ln.strip()
            d0 = depth
            depth += ln.count("{") - ln.count("}")
            if not s or s.startswith("#"):
                continue
            m = re.match(r"(static\s+)?((?:const\s+|volatile\s+|unsigned\s+|signed\s+|struct\s+|enum\s+)*[A-Za-z_]\w*(?:\s+[A-Za-z_]\w*)*?[\s\*]+)"
                         r"([A-Za-z_]\w*)\s*(\[[^\]]*\])?\s*(=|;)", s)
            if not m:
                continue
            is_static, typ, name = bool(m.group(1)), m.group(2), m.group(3)
            if re.search(r"\b(const|extern|typedef|return|goto)\b", (m.group(1) or "") + typ) or typ.split()[0] in ("extern", "typedef", "return", "goto", "else"):
                continue
            if (d0 == 0) or is_static:
                statics.append((rel, name))
    return regions, statics


def _split_args(text, pos, rel):
    """text[pos] == '(': the top-level comma separated arguments up to the matching ')' (string literals are blanked already)"""
    depth, i, start, args = 0, pos, pos + 1, []
    while i < len(text):
        c = text[i]
        if c in "([{":
            depth += 1
        elif c in ")]}":
            depth -= 1
            if depth == 0:
                args.append(text[start:i])
                return args
        elif c == "," and depth == 1:
            args.append(text[start:i])
            start = i + 1
        i += 1
    raise TranslateError("%s: unbalanced parentheses in a call at offset %d" % (rel, pos))


_LIT = re.compile(r'(?:"[^"]*"|PRI[A-Za-z0-9]+|\s|\\\n)+')


def scan_formats(root):
    """-> (calls [(file, line, callee, kind, enclosing macro or '')], printf-like macros [name])"""
    files = []
    for pat in C_FILES + H_FILES:
        files += sorted(glob.glob(os.path.join(root, pat)))
    texts = []
    for path in files:
        rel = os.path.relpath(path, root)
        src = active_text(strip_comments(open(path, encoding="utf-8", errors="replace").read()))
        macros = []       # (name, params, first offset, last offset) of function-like macro definitions
        off = 0
        lines = src.split("\n")
        i = 0
        offs = []
        for ln in lines:
            offs.append(off)
            off += len(ln) + 1
        while i < len(lines):
            m = re.match(r"\s*#\s*define\s+(\w+)\(([^)]*)\)", lines[i])
            if m:
                j = i
                while lines[j].rstrip().endswith("\\") and j + 1 < len(lines):
                    j += 1
                params = [x.strip() for x in m.group(2).split(",") if x.strip()]
                macros.append((m.group(1), params, offs[i] + m.end(), offs[j] + len(lines[j])))
                i = j + 1
            else:
                i += 1
        texts.append((rel, src, macros))
    callees = dict(PRINTF)
    like = []
    while True:          # fixpoint: macros that hand a parameter on as FORMAT are printf-like themselves
        calls, grew = [], False
        for rel, src, macros in texts:
            for m in re.finditer(r"\b([A-Za-z_]\w*)\s*\(", src):
                name = m.group(1)
                if name not in callees:
                    continue
                if re.search(r"#\s*define\s+$", src[max(0, m.start() - 40):m.start()]):
                    continue        # the head of the macro's own definition
                # a declaration / definition of a function of that name is not a call
                args = _split_args(src, m.end() - 1, rel)
                k = callees[name]
                if len(args) <= k:
                    raise TranslateError("%s:%d: %s called with %d arguments, FORMAT expected at position %d" % (
                        rel, src.count("\n", 0, m.start()) + 1, name, len(args), k))
                fmt = args[k].strip()
                inmac = [mc for mc in macros if mc[2] <= m.start() <= mc[3]]
                kind, mname = 2, ""
                if '"' in fmt and _LIT.fullmatch(fmt):
                    kind = 0
                elif inmac:
                    mn, params, _a, _b = inmac[0]
                    named = [p for p in params if p != "..."]
                    idx = None
                    if fmt == "__VA_ARGS__" and "..." in params:
                        idx = len(named)
                    elif fmt in named:
                        idx = named.index(fmt)
                    if idx is not None:
                        kind, mname = 1, mn
                        if mn not in callees:
                            callees[mn] = idx
                            like.append(mn)
                            grew = True
                calls.append((rel, src.count("\n", 0, m.start()) + 1, name, kind, mname))
        if not grew:
            break
    if not calls:
        raise TranslateError("no printf-family call found in the C sources (scanner broken?)")
    return calls, like


def gallina(root):
    regions, statics = scan(root)
    fcalls, fmacros = scan_formats(root)

    def q(s):
        return '"%s"%%string' % s
    txt = ["(* GENERATED by props/_c17_csrc.py from the C sources of the tree under check -- do not edit. *)",
           "From Coq Require Import String ZArith List.", "Import ListNotations.", "",
           "(* code that runs without the GIL: (file, line of Py_BEGIN_ALLOW_THREADS, functions called before Py_END_ALLOW_THREADS) *)",
           "Definition gil_free_regions : list (string * Z * list string) :=",
           "  [" + ";\n   ".join("(%s, %d%%Z, [%s])" % (q(f), ln, "; ".join(q(c) for c in cs)) for f, ln, cs in regions) + "].", "",
           "(* modifiable variables with static storage duration: (file, name) *)",
           "Definition mutable_statics : list (string * string) :=",
           "  [" + ";\n   ".join("(%s, %s)" % (q(f), q(n)) for f, n in statics) + "].", "",
           "(* every call of a printf-family function / printf-like macro in the .c and .h files: (file, line, callee, kind of the",
           "   FORMAT argument: 0 string literal, 1 macro parameter handed on in the body of the named macro, 2 anything else, macro) *)",
           "Definition format_calls : list (string * Z * string * Z * string) :=",
           "  [" + ";\n   ".join("(%s, %d%%Z, %s, %d%%Z, %s)" % (q(f), ln, q(c), k, q(mn)) for f, ln, c, k, mn in fcalls) + "].", "",
           "(* macros found to hand a parameter / __VA_ARGS__ on as FORMAT: their own calls are in format_calls too *)",
           "Definition printf_like_macros : list string :=",
           "  [" + "; ".join(q(n) for n in fmacros) + "].", ""]
    return "\n".join(txt)


def write(root, out_dir):
    txt = gallina(root)
    path = os.path.join(out_dir, "C17_Tables.v")
    os.makedirs(out_dir, exist_ok=True)
    if not os.path.exists(path) or open(path).read() != txt:
        with open(path, "w") as f:
            f.write(txt)
    return path
