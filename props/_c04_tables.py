"""C04 translator part (fork safety): from the SOURCE of the tree under test (ast, no import) list every module-level
synchronisation object (threading.Lock / RLock / Condition / Semaphore / BoundedSemaphore / Event / Barrier) that is
referenced by code reachable from psutil.process_iter, psutil.pids or psutil.pid_exists, together with whether the module
re-initialises it in an os.register_at_fork(after_in_child=...) handler.  Written to coq/Gen/C04_Tables.v; the theorem
C04_fork_safe_sync_objects demands that every listed object is re-initialised (an empty table satisfies it).

Reachability (conservative): names of module-level functions and classes loaded in a reachable body; every method of a
reachable class; attributes of the module aliases _psplatform (-> _pslinux), _psposix, _common and names imported from those
modules with 'from ._x import name'.  Fails closed when one of the three entry points is missing."""
import ast
import os

MODULES = {"__init__": "psutil/__init__.py", "_pslinux": "psutil/_pslinux.py", "_psposix": "psutil/_psposix.py",
           "_common": "psutil/_common.py"}
ALIASES = {"_psplatform": "_pslinux", "_pslinux": "_pslinux", "_psposix": "_psposix", "_common": "_common"}
SYNC = ("Lock", "RLock", "Condition", "Semaphore", "BoundedSemaphore", "Event", "Barrier")
ENTRY = [("__init__", "process_iter"), ("__init__", "pids"), ("__init__", "pid_exists")]


def _sync_kind(value):
    """'Lock' ... when value is threading.X(...) / X(...) for a synchronisation class, else None"""
    if not isinstance(value, ast.Call):
        return None
    f = value.func
    if isinstance(f, ast.Attribute) and isinstance(f.value, ast.Name) and f.value.id == "threading" and f.attr in SYNC:
        return f.attr
    if isinstance(f, ast.Name) and f.id in SYNC:
        return f.id
    return None


def _toplevel(body):
    """statements at module level, looking into if / try / with blocks but not into defs"""
    for st in body:
        yield st
        for field in ("body", "orelse", "finalbody", "handlers"):
            sub = getattr(st, field, None)
            if isinstance(st, (ast.FunctionDef, ast.AsyncFunctionDef, ast.ClassDef)) or not sub:
                continue
            for x in sub:
                if isinstance(x, ast.ExceptHandler):
                    yield from _toplevel(x.body)
                else:
                    yield from _toplevel([x])


class Mod:
    def __init__(self, name, src):
        self.name = name
        self.tree = ast.parse(src)
        self.funcs, self.classes, self.sync, self.imports = {}, {}, {}, {}
        self.fork_handlers = []
        for st in _toplevel(self.tree.body):
            if isinstance(st, (ast.FunctionDef, ast.AsyncFunctionDef)):
                self.funcs[st.name] = st
            elif isinstance(st, ast.ClassDef):
                self.classes[st.name] = st
            elif isinstance(st, ast.Assign):
                k = _sync_kind(st.value)
                if k:
                    for t in st.targets:
                        if isinstance(t, ast.Name):
                            self.sync[t.id] = k
            elif isinstance(st, ast.ImportFrom) and st.module and st.level == 1:
                m = st.module
                if m in ALIASES:
                    for a in st.names:
                        self.imports[a.asname or a.name] = (ALIASES[m], a.name)
            if isinstance(st, ast.Expr) and isinstance(st.value, ast.Call):
                c = st.value
                f = c.func
                if isinstance(f, ast.Attribute) and f.attr == "register_at_fork":
                    for kw in c.keywords:
                        if kw.arg == "after_in_child":
                            self.fork_handlers.append(kw.value)

    def reinitialised(self, name):
        """is [name] rebound to a fresh synchronisation object (or _at_fork_reinit() called on it) in an after_in_child handler"""
        for h in self.fork_handlers:
            body = None
            if isinstance(h, ast.Lambda):
                body = [h.body]
            elif isinstance(h, ast.Name) and h.id in self.funcs:
                body = self.funcs[h.id].body
            if body is None:
                continue
            for st in body:
                for n in ast.walk(st):
                    if isinstance(n, ast.Assign) and _sync_kind(n.value) and any(isinstance(t, ast.Name) and t.id == name for t in n.targets):
                        return True
                    if isinstance(n, ast.Call) and isinstance(n.func, ast.Attribute) and n.func.attr == "_at_fork_reinit" \
                            and isinstance(n.func.value, ast.Name) and n.func.value.id == name:
                        return True
        return False


def analyse(impl_dir):
    mods = {}
    for name, rel in MODULES.items():
        with open(os.path.join(impl_dir, rel), encoding="utf-8") as f:
            mods[name] = Mod(name, f.read())
    for m, fn in ENTRY:
        if fn not in mods[m].funcs:
            raise RuntimeError("C04 tables: %s.%s not found" % (m, fn))
    seen, todo, used = set(), list(ENTRY), set()

    def visit_body(m, node):
        for n in ast.walk(node):
            if isinstance(n, ast.Name):
                if n.id in mods[m].sync:
                    used.add((m, n.id))
                if n.id in mods[m].funcs or n.id in mods[m].classes:
                    todo.append((m, n.id))
                if n.id in mods[m].imports:
                    tm, tn = mods[m].imports[n.id]
                    if tn in mods[tm].sync:
                        used.add((tm, tn))
                    todo.append((tm, tn))
            elif isinstance(n, ast.Attribute) and isinstance(n.value, ast.Name) and n.value.id in ALIASES:
                tm = ALIASES[n.value.id]
                if n.attr in mods[tm].sync:
                    used.add((tm, n.attr))
                todo.append((tm, n.attr))

    while todo:
        m, name = todo.pop()
        if (m, name) in seen:
            continue
        seen.add((m, name))
        if name in mods[m].funcs:
            visit_body(m, mods[m].funcs[name])
        elif name in mods[m].classes:
            visit_body(m, mods[m].classes[name])      # every method, class-level code and base names
    return [(m, name, mods[m].sync[name], mods[m].reinitialised(name)) for m, name in sorted(used)]


def _by(s):
    return "[" + ";".join(str(b) for b in s.encode()) + "]"


def gen_tables(impl_dir, out_dir):
    from props import _c04_gen
    progs = _c04_gen.translate(impl_dir)      # raises TranslateError (fail closed) before anything is written
    rows = analyse(impl_dir)
    txt = ("(* GENERATED by props/_c04_tables.py from psutil/__init__.py, _pslinux.py, _psposix.py, _common.py of the tree under test\n"
           "   (ast): the module-level synchronisation objects (threading.Lock/RLock/Condition/...) referenced by code reachable from\n"
           "   process_iter / pids / pid_exists: (module, name, kind, re-initialised in an os.register_at_fork(after_in_child=...)\n"
           "   handler?).  Do not edit: rewritten on every run of ./vcheck C04 when the source changes. *)\n"
           "From PV Require Import Base.Prelude C04.PyGen.\n\n"
           "Definition gen_sync_objects : list (list Z * list Z * list Z * bool) :=\n  [")
    txt += ";\n    ".join("(%s, %s, %s, %s) (* %s.%s : %s *)" % (_by(m), _by(n), _by(k), "true" if r else "false", m, n, k)
                          for m, n, k, r in rows)
    txt += "].\n\n"
    txt += ("(* GENERATED by props/_c04_gen.py from psutil/__init__.py of the tree under test (ast): pid_exists(), the prologue and\n"
            "   the loop body of process_iter() as programs of the statement languages of C04/PyGen.v. *)\n" + progs)
    os.makedirs(out_dir, exist_ok=True)
    p = os.path.join(out_dir, "C04_Tables.v")
    old = open(p).read() if os.path.exists(p) else None
    if old != txt:
        with open(p, "w") as f:
            f.write(txt)
    return rows
